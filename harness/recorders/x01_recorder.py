"""pytest plugin: records the calls the repository's own tests make to NucleotideSequence.translate,
CodonTable.load and CodonTable.__getitem__ as stand-alone events for specs/X01/Trace.tla.
Installed from outside (no repository edit):

    PYTHONPATH=/verif X01_RECORD_FILE=<out.json> pytest -p harness.recorders.x01_recorder tests/sequence/test_codon.py ...

A table that is an argument of a recorded call is described by its own dictionary and start codons
(source kind "dict"): the table is an input of that call, it is judged by the calls that made it."""

from __future__ import annotations

import json
import numbers
import os

MAX_EVENTS = 3000
_events = []
_skipped = {}
_depth = 0


def _skip(why):
    _skipped[why] = _skipped.get(why, 0) + 1


def _src_of(table):
    d = table.codon_dict()
    return {"k": "dict", "pairs": [[list(w), a] for w, a in d.items()], "starts": [list(w) for w in table.start_codons()]}


def pytest_configure(config):
    from biotite.sequence import CodonTable, NucleotideSequence, ProteinSequence

    from harness.drivers import x01

    orig_translate = NucleotideSequence.translate
    orig_load = CodonTable.load
    orig_getitem = CodonTable.__getitem__

    def translate(self, complete=False, codon_table=None, met_start=False):
        global _depth
        _depth += 1
        oc, res = "ok", None
        try:
            res = orig_translate(self, complete=complete, codon_table=codon_table, met_start=met_start)
            return res
        except Exception:
            oc = "Rejected"
            raise
        finally:
            _depth -= 1
            try:
                if _depth == 0 and len(_events) < MAX_EVENTS:
                    if complete and met_start:
                        _skip("translate: met_start with complete (outside Dom_Translate)")
                    elif len(self) > 400:
                        _skip("translate: longer than 400")
                    else:
                        amb = len(self.get_alphabet()) > 4
                        if oc != "ok":
                            val = []
                        elif complete:
                            val = list(str(res)) if isinstance(res, ProteinSequence) else ["?type"]
                        else:
                            val = [[int(a), int(b), list(str(p))] for p, (a, b) in zip(res[0], res[1])]
                        _events.append({"op": "translate", "src": {"k": "default"} if codon_table is None else _src_of(codon_table),
                                        "seq": list(str(self)), "amb": "yes" if amb else "no", "strand": "fwd",
                                        "complete": bool(complete), "met": bool(met_start),
                                        "obs": {"ctor": "ok", "oc": oc, "val": val}})
            except Exception as e:  # noqa: BLE001
                _skip(f"translate: recorder error {type(e).__name__}")

    def load(table_name):
        global _depth
        _depth += 1
        oc, res = "ok", None
        try:
            res = orig_load(table_name)
            return res
        except Exception:
            oc = "Rejected"
            raise
        finally:
            _depth -= 1
            try:
                if _depth == 0 and len(_events) < MAX_EVENTS:
                    if isinstance(table_name, numbers.Integral):
                        src = {"k": "id", "id": int(table_name)}
                    elif isinstance(table_name, str):
                        src = {"k": "name", "name": list(table_name)}
                    else:
                        src = None
                        _skip("load: key neither int nor str")
                    if src is not None:
                        obs = dict(x01.proj_table(res), oc="ok") if oc == "ok" else {"oc": "Rejected", "aa": [], "starts": []}
                        _events.append({"op": "make", "src": src, "obs": obs})
            except Exception as e:  # noqa: BLE001
                _skip(f"load: recorder error {type(e).__name__}")

    def getitem(self, item):
        global _depth
        _depth += 1
        oc, res = "ok", None
        try:
            res = orig_getitem(self, item)
            return res
        except Exception:
            oc = "Rejected"
            raise
        finally:
            _depth -= 1
            try:
                if _depth == 0 and len(_events) < MAX_EVENTS:
                    ev = None
                    if isinstance(item, str) and len(item) == 1:
                        if item in x01.PROT:
                            ev = ("aa", [item], sorted(x01.num_of_word(w) for w in res) if oc == "ok" else [])
                        else:
                            _skip("getitem: symbol outside the protein alphabet")
                    elif isinstance(item, str):
                        ev = ("word", list(item), [str(res)] if oc == "ok" else [])
                    elif isinstance(item, int):
                        ev = ("aacode", [int(item)], sorted(x01.num_of_code(c) for c in res) if oc == "ok" else [])
                    else:
                        code = [int(x) for x in item]
                        if len(code) == 3 and not all(0 <= x <= 3 for x in code):
                            _skip("getitem: codon code outside 0..3")
                        else:
                            ev = ("code", code, [int(res)] if oc == "ok" else [])
                    if ev is not None:
                        _events.append({"op": "lookup", "src": _src_of(self), "kind": ev[0], "arg": ev[1],
                                        "obs": {"oc": oc, "val": ev[2]}})
            except Exception as e:  # noqa: BLE001
                _skip(f"getitem: recorder error {type(e).__name__}")

    NucleotideSequence.translate = translate
    CodonTable.load = staticmethod(load)
    CodonTable.__getitem__ = getitem


def pytest_sessionfinish(session, exitstatus):
    path = os.environ.get("X01_RECORD_FILE")
    if path:
        with open(path, "w") as f:
            json.dump({"events": _events, "skipped": _skipped}, f)
