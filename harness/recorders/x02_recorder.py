"""pytest plugin: records every top-level call of pseudoknots / dot_bracket /
base_pairs_from_dot_bracket made by the repository's own tests as a stand-alone event for
validation by TLC (specs/X02/Trace.tla; same event shapes as harness/drivers/x02.py).
Installed from outside (no repository edit):

    PYTHONPATH=/verif X02_RECORD_FILE=<out.json> pytest -p harness.recorders.x02_recorder tests/structure/...

Calls whose arguments lie outside the modelled domain (a base in two pairs, more than MAX_PAIRS
pairs, scores that are not positive integers) are skipped, and counted."""

from __future__ import annotations

import json
import os

MAX_PAIRS = 40
MAX_EVENTS = int(os.environ.get("X02_MAX_EVENTS", "400"))
_events = []
_skipped = {}
_depth = 0


def _skip(why):
    _skipped[why] = _skipped.get(why, 0) + 1


def _pairs_arg(bp):
    import numpy as np

    a = np.asarray(bp)
    if a.size == 0:
        return []
    if a.ndim != 2 or a.shape[1] != 2 or not np.issubdtype(a.dtype, np.integer):
        return None
    rows = [[int(x), int(y)] for x, y in a.tolist()]
    flat = [x for r in rows for x in r]
    if len(rows) > MAX_PAIRS or min(flat) < 0 or len(set(flat)) != len(flat):
        return None
    return rows


def _scores_arg(sc):
    import numpy as np

    if sc is None:
        return []
    a = np.asarray(sc)
    if a.ndim != 1 or not np.issubdtype(a.dtype, np.integer) or (a.size and a.min() <= 0):
        return None
    return [[int(x) for x in a.tolist()]]


def _maxo_arg(m):
    if m is None:
        return []
    if isinstance(m, bool) or not isinstance(m, int) or m < 0:
        return None
    return [int(m)]


def _snap(x):
    import numpy as np

    return x.copy() if isinstance(x, np.ndarray) else None


def _unchanged(x, snap):
    import numpy as np

    return snap is None or bool(x.shape == snap.shape and np.array_equal(x, snap))


def _wrap(mod, name, build):
    orig = getattr(mod, name)

    def wrapper(*args, **kw):
        global _depth
        if _depth > 0 or len(_events) >= MAX_EVENTS:
            return orig(*args, **kw)
        try:
            ev, watched = build(args, kw)
        except Exception:  # noqa: BLE001 - never disturb the test
            ev, watched = None, []
        if ev is None:
            _skip(f"{name}: outside the modelled domain")
            return orig(*args, **kw)
        snaps = [_snap(x) for x in watched]
        _depth += 1
        oc, res = "ok", None
        try:
            res = orig(*args, **kw)
            return res
        except Exception:  # noqa: BLE001
            oc = "Rejected"
            raise
        finally:
            try:
                ev["same"] = all(_unchanged(x, s) for x, s in zip(watched, snaps))
                _finish(ev, oc, res)
                _events.append(ev)
            except Exception as e:  # noqa: BLE001
                _skip(f"{name}: recorder error {type(e).__name__}")
            _depth -= 1

    wrapper.__name__ = name
    wrapper.__doc__ = orig.__doc__
    setattr(mod, name, wrapper)
    return orig


_parse_orig = None


def _back(notation):
    try:
        r = _parse_orig("".join(notation))
        return ["ok", [[int(x), int(y)] for x, y in r.tolist()] if len(r) else []]
    except Exception:  # noqa: BLE001
        return ["Rejected", []]


def _finish(ev, oc, res):
    import numpy as np

    if ev["op"] == "pk":
        ev["obs"] = [oc, [[int(x) for x in row] for row in np.asarray(res).tolist()] if oc == "ok" else []]
    elif ev["op"] == "db":
        notes = [list(s) for s in res] if oc == "ok" else []
        ev["obs"] = [oc, notes]
        ev["back"] = [_back(n) for n in notes]
    else:
        ev["obs"] = [oc, ([[int(x), int(y)] for x, y in np.asarray(res).tolist()] if len(res) else []) if oc == "ok" else []]
        ev.pop("same", None)


def _get(args, kw, k, name, default=None):
    return args[k] if len(args) > k else kw.get(name, default)


def _build_pk(args, kw):
    bp, sc, mo = _get(args, kw, 0, "base_pairs"), _get(args, kw, 1, "scores"), _get(args, kw, 2, "max_pseudoknot_order")
    rows, s, m = _pairs_arg(bp), _scores_arg(sc), _maxo_arg(mo)
    if rows is None or s is None or m is None:
        return None, []
    return {"op": "pk", "bp": rows, "sc": s, "maxo": m, "src": "repo-test"}, [bp, sc]


def _build_db(args, kw):
    bp, length = _get(args, kw, 0, "basepairs"), _get(args, kw, 1, "length")
    sc, mo = _get(args, kw, 2, "scores"), _get(args, kw, 3, "max_pseudoknot_order")
    rows, s, m = _pairs_arg(bp), _scores_arg(sc), _maxo_arg(mo)
    if rows is None or s is None or m is None or not isinstance(length, int) or length < 0:
        return None, []
    return {"op": "db", "bp": rows, "len": int(length), "sc": s, "maxo": m, "src": "repo-test"}, [bp, sc]


def _build_parse(args, kw):
    s = _get(args, kw, 0, "dot_bracket_notation")
    if not isinstance(s, str) or len(s) > 400 or any(c in '"\\' or not c.isprintable() for c in s):
        return None, []
    return {"op": "parse", "s": list(s), "src": "repo-test"}, []


def pytest_configure(config):
    global _parse_orig
    import biotite.structure as struc

    _wrap(struc, "pseudoknots", _build_pk)
    _wrap(struc, "dot_bracket", _build_db)
    _parse_orig = _wrap(struc, "base_pairs_from_dot_bracket", _build_parse)


def pytest_unconfigure(config):
    path = os.environ.get("X02_RECORD_FILE")
    if path:
        with open(path, "w") as f:
            json.dump({"events": _events, "skipped": _skipped}, f)
