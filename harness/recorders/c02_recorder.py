"""pytest plugin: records every top-level BondList call made by the repository's own tests as
a stand-alone event {pre, op, a, oc, n, bonds, out, cmax_ok} for validation by TLC
(specs/C02/TraceEv.tla).  Installed from outside (no repository edit):

    PYTHONPATH=/verif C02_RECORD_FILE=<out.json> pytest -p harness.recorders.c02_recorder tests/structure/...

Calls whose arguments lie outside the modelled domain (self-bonds, ill-formed masks, bond
types >= 10, lists with more than MAX_ATOMS atoms) are skipped, and counted."""

from __future__ import annotations

import json
import numbers
import os

MAX_ATOMS = 40
MAX_EVENTS = 6000
_events = []
_skipped = {}
_depth = 0


def _skip(why):
    _skipped[why] = _skipped.get(why, 0) + 1


def _proj(bl):
    import numpy as np

    n = int(bl.get_atom_count())
    arr = bl._bonds
    bonds = [[int(x), int(y), int(t)] for x, y, t in arr.tolist()]
    ok = True
    c = getattr(bl, "_max_bonds_per_atom", None)
    if c is not None and len(bonds) and n > 0 and all(b[1] < n for b in bonds):
        cnt = np.zeros(n, dtype=np.int64)
        np.add.at(cnt, arr[:, 0].astype(np.int64), 1)
        np.add.at(cnt, arr[:, 1].astype(np.int64), 1)
        ok = bool(int(c) >= int(cnt.max()))
    return n, bonds, ok


def _in_domain(n, bonds):
    return n <= MAX_ATOMS and all(b[0] != b[1] and b[2] < 10 for b in bonds)


def _rows_of(bl):
    n, bonds, _ = _proj(bl)
    return [n, bonds]


def _index_arg(index, n):
    import numpy as np

    if isinstance(index, numbers.Integral):
        return ["int", [int(index)]]
    if isinstance(index, slice):
        def c(v):
            return [] if v is None else [int(v)]
        if any(v is not None and not isinstance(v, numbers.Integral) for v in (index.start, index.stop, index.step)):
            return None
        return ["slice", [c(index.start), c(index.stop), c(index.step)]]
    if isinstance(index, np.ndarray) and index.dtype == bool:
        if index.ndim != 1 or len(index) != n:
            return None
        return ["mask", [bool(v) for v in index.tolist()]]
    if isinstance(index, (list, tuple, np.ndarray)):
        a = np.asarray(index)
        if a.ndim != 1 or (len(a) and not np.issubdtype(a.dtype, np.integer)):
            return None
        return ["arr", [int(v) for v in a.tolist()]]
    return None


def _nbrs(res):
    b, t = res
    return [[int(x), int(y)] for x, y in zip(b.tolist(), t.tolist())]


def _wrap(cls, name, op, mkargs, mkout=None, returns_new=False):
    orig = getattr(cls, name)

    def wrapper(self, *args, **kw):
        global _depth
        if _depth > 0 or len(_events) >= MAX_EVENTS:
            return orig(self, *args, **kw)
        try:
            pre_n, pre_b, _ = _proj(self)
            a = mkargs(self, args, kw)
        except Exception:  # noqa: BLE001 - never disturb the test
            a = None
            pre_n, pre_b = 0, []
        if a is None or not _in_domain(pre_n, pre_b):
            _skip(f"{op}: outside the modelled domain")
            return orig(self, *args, **kw)
        _depth += 1
        oc, res, post = "ok", None, self
        try:
            res = orig(self, *args, **kw)
            if returns_new and op != "index_int":
                post = res
            return res
        except IndexError:
            oc = "IndexError"
            raise
        except Exception:  # noqa: BLE001
            oc = "Rejected"
            raise
        finally:
            _depth -= 1
            try:
                real_op = op
                if op == "index":
                    real_op = "index"
                    if a[0][0] == "int":
                        post = self
                n, bonds, cok = _proj(post if oc == "ok" else self)
                out = []
                if oc == "ok" and mkout is not None:
                    out = mkout(res, a)
                if _in_domain(n, bonds):
                    _events.append({"pre": {"n": pre_n, "bonds": pre_b}, "op": real_op, "a": a, "oc": oc,
                                    "n": n, "bonds": bonds, "out": out, "cmax_ok": cok})
                else:
                    _skip(f"{op}: result outside the modelled domain")
            except Exception as e:  # noqa: BLE001
                _skip(f"{op}: recorder error {type(e).__name__}")

    wrapper.__name__ = getattr(orig, "__name__", name)
    setattr(cls, name, wrapper)


def _distinct(n, i, j):
    if n > 0 and -n <= i < n and -n <= j < n:
        return i % n != j % n
    return True


def pytest_configure(config):
    from biotite.structure import BondList

    def add_args(self, args, kw):
        i, j = int(args[0]), int(args[1])
        t = int(args[2]) if len(args) > 2 else int(kw.get("bond_type", 0))
        if t >= 10 or not _distinct(self.get_atom_count(), i, j):
            return None
        return [i, j, t]

    def rm_args(self, args, kw):
        i, j = int(args[0]), int(args[1])
        return [i, j] if _distinct(self.get_atom_count(), i, j) else None

    def other_args(self, args, kw):
        o = args[0]
        if not isinstance(o, BondList):
            return None
        n, bonds = _rows_of(o)
        return [n, bonds] if _in_domain(n, bonds) else None

    def idx_args(self, args, kw):
        x = _index_arg(args[0], self.get_atom_count())
        return None if x is None else [x]

    _wrap(BondList, "add_bond", "add", add_args)
    _wrap(BondList, "remove_bond", "remove", rm_args)
    _wrap(BondList, "remove_bonds_to", "remove_to", lambda s, a, k: [int(a[0])])
    _wrap(BondList, "remove_bonds", "remove_bonds", other_args)
    _wrap(BondList, "merge", "merge", other_args, returns_new=True)
    _wrap(BondList, "__add__", "concat", other_args, returns_new=True)
    _wrap(BondList, "offset_indices", "offset", lambda s, a, k: [int(a[0])])
    _wrap(BondList, "remove_aromaticity", "strip_arom", lambda s, a, k: [])
    _wrap(BondList, "remove_bond_order", "strip_order", lambda s, a, k: [])
    _wrap(BondList, "get_bonds", "get_bonds", lambda s, a, k: [int(a[0])], mkout=lambda r, a: _nbrs(r))
    _wrap(BondList, "__getitem__", "index", idx_args,
          mkout=lambda r, a: _nbrs(r) if a[0][0] == "int" else [], returns_new=True)


def pytest_sessionfinish(session, exitstatus):
    path = os.environ.get("C02_RECORD_FILE")
    if path:
        with open(path, "w") as f:
            json.dump({"events": _events, "skipped": _skipped}, f)
