"""pytest plugin: records the top-level SubstitutionMatrix / AlphabetMapper / common_alphabet
calls made by the repository's own tests as stand-alone events {op, a, oc, out} for validation by
TLC (specs/X07/Trace.tla).  Installed from outside (no repository edit):

    PYTHONPATH=/verif X07_RECORD_FILE=<out.json> pytest -p harness.recorders.x07_recorder tests/sequence/...

Calls whose arguments lie outside the modelled domain are skipped, and counted."""

from __future__ import annotations

import json
import os

_events = []
_skipped = {}
_depth = 0
_count = {}
MAX_EVENTS = 4000


def _skip(why):
    _skipped[why] = _skipped.get(why, 0) + 1


def _limit(op):
    lim = {"from_db": int(os.environ.get("X07_RECORD_DB", "4")),
           "get_score": int(os.environ.get("X07_RECORD_SCORES", "60")),
           "mapper_new": 12, "map_codes": 12}.get(op, 200)
    _count[op] = _count.get(op, 0) + 1
    return _count[op] <= lim and len(_events) < MAX_EVENTS


def _oc_of(exc):
    if exc is None:
        return "ok"
    return "KeyError" if isinstance(exc, KeyError) else "Rejected"


def _small(v):
    return -(2 ** 31) < int(v) < 2 ** 31


def pytest_configure(config):
    import numpy as np
    import biotite.sequence as bs
    import biotite.sequence.alphabet as balph
    from biotite.sequence.align import SubstitutionMatrix
    from harness.drivers import x07 as D

    def wrap(owner, name, handler):
        orig = getattr(owner, name)

        def wrapper(*args, **kw):
            global _depth
            if _depth > 0:
                return orig(*args, **kw)
            _depth += 1
            exc, res = None, None
            try:
                try:
                    res = orig(*args, **kw)
                    return res
                except Exception as e:  # noqa: BLE001
                    exc = e
                    raise
                finally:
                    try:
                        handler(args, kw, res, exc)
                    except Exception as e:  # noqa: BLE001 - never disturb the test
                        _skip(f"{name}: recorder error {type(e).__name__}")
            finally:
                _depth -= 1

        wrapper.__name__ = getattr(orig, "__name__", name)
        wrapper.__doc__ = getattr(orig, "__doc__", None)
        setattr(owner, name, wrapper)

    def alph_ok(a):
        w = D.proj_alph(a)
        return len(w) >= 1 and len({tuple(x) for x in w}) == len(w)

    def on_init(args, kw, _res, exc):
        self, a1, a2, sm = args[0], args[1], args[2], args[3] if len(args) > 3 else kw["score_matrix"]
        if not (isinstance(a1, bs.Alphabet) and isinstance(a2, bs.Alphabet) and alph_ok(a1) and alph_ok(a2)):
            return _skip("init: alphabets outside the domain")
        oc = _oc_of(exc)
        out = D.proj_matrix(self) if oc == "ok" else []
        w1, w2 = D.proj_alph(a1), D.proj_alph(a2)
        if isinstance(sm, np.ndarray):
            if sm.ndim != 2 or sm.dtype == object:
                return _skip("init: array is not 2-D")
            isint = np.issubdtype(sm.dtype, np.integer)
            if isint and not all(_small(v) for v in sm.ravel().tolist()):
                return _skip("init: scores beyond 32 bit")
            arr = [[int(v) for v in row] for row in sm.tolist()] if isint else [[0] * sm.shape[1]] * sm.shape[0]
            if _limit("from_array"):
                _events.append({"op": "from_array", "a": [w1, w2, arr, "int" if isint else "float"],
                                "oc": oc, "out": out})
        elif isinstance(sm, dict):
            try:
                d = D.proj_dict(sm)
            except Exception:  # noqa: BLE001
                return _skip("init: dictionary outside the domain")
            if not all(_small(x[2]) for x in d) or len({(tuple(x[0]), tuple(x[1])) for x in d}) != len(d):
                return _skip("init: dictionary outside the domain")
            if _limit("from_dict"):
                _events.append({"op": "from_dict", "a": [w1, w2, d], "oc": oc, "out": out})
        elif isinstance(sm, str):
            path = os.path.join(D._db_dir(), sm + ".mat")
            if not os.path.exists(path):
                return _skip("init: unknown matrix name")
            if _limit("from_db"):
                _events.append({"op": "from_db", "a": [w1, w2, D._db_chars(sm)], "oc": oc, "out": out,
                                "name": sm})
        else:
            _skip("init: other argument type")

    def on_get_score(args, kw, res, exc):
        self, s, t = args[0], args[1], args[2]
        if _limit("get_score"):
            oc = _oc_of(exc)
            _events.append({"op": "get_score", "a": [D.proj_matrix(self), D.word_of(s), D.word_of(t)],
                            "oc": oc, "out": int(res) if oc == "ok" else []})

    def on_by_code(args, kw, res, exc):
        self, i, j = args[0], int(args[1]), int(args[2])
        if i < 0 or j < 0:
            return _skip("get_score_by_code: negative code")
        if _limit("get_score_by_code"):
            oc = _oc_of(exc)
            _events.append({"op": "get_score_by_code", "a": [D.proj_matrix(self), i, j],
                            "oc": oc, "out": int(res) if oc == "ok" else []})

    def on_positional(args, kw, res, exc):
        self, s1, s2 = args[0], args[1], args[2]
        if s1.get_alphabet() != self.get_alphabet1() or s2.get_alphabet() != self.get_alphabet2():
            return _skip("as_positional: sequences over other alphabets")
        if not _limit("as_positional"):
            return
        c1, c2 = [int(x) for x in s1.code], [int(x) for x in s2.code]
        oc = _oc_of(exc)
        out = []
        if oc == "ok":
            P, p1, p2 = res
            agree = all(int(P.get_score(p1[i], p2[j])) == int(self.get_score(s1[i], s2[j]))
                        for i in range(len(c1)) for j in range(len(c2)))
            out = {"obj": D.proj_matrix(P), "agree": bool(agree)}
        _events.append({"op": "as_positional", "a": [D.proj_matrix(self), c1, c2], "oc": oc, "out": out})

    def on_str(args, kw, res, exc):
        self = args[0]
        w = D.proj_alph(self.get_alphabet1()) + D.proj_alph(self.get_alphabet2())
        if any((not x) or x[0] == "#" or any(ch.isspace() for ch in x) for x in w):
            return _skip("str: symbols that cannot be read back")
        if exc is None and _limit("str"):
            _events.append({"op": "str", "a": [D.proj_matrix(self)], "oc": "ok",
                            "out": {"grid": [[list(x) for x in line.split()] for line in res.split("\n")],
                                    "chars": D.str_to_chars(res)}})

    def on_simple(op, proj):
        def h(args, kw, res, exc):
            if _limit(op):
                oc = _oc_of(exc)
                _events.append({"op": op, "a": [D.proj_matrix(args[0])], "oc": oc,
                                "out": proj(res) if oc == "ok" else []})
        return h

    def on_mapper_init(args, kw, _res, exc):
        self, src, tgt = args[0], args[1], args[2]
        if not (alph_ok(src) and alph_ok(tgt)):
            return _skip("mapper: alphabets outside the domain")
        ws, wt = D.proj_alph(src), D.proj_alph(tgt)
        oc = _oc_of(exc)
        if oc == "ok":
            self._x07_alphs = (ws, wt)
        if _limit("mapper_new"):
            _events.append({"op": "mapper_new", "a": [ws, wt], "oc": oc,
                            "out": [int(self[c]) for c in range(len(ws))] if oc == "ok" else []})

    def on_mapper_get(args, kw, res, exc):
        self, code = args[0], args[1]
        al = getattr(self, "_x07_alphs", None)
        if al is None:
            return _skip("mapper: unknown alphabets")
        codes = [int(x) for x in np.atleast_1d(np.asarray(code))[:50]]
        if any(c < 0 or c >= len(al[0]) for c in codes):
            return _skip("mapper: codes outside the source alphabet")
        if _limit("map_codes"):
            oc = _oc_of(exc)
            _events.append({"op": "map_codes", "a": [al[0], al[1], codes], "oc": oc,
                            "out": [int(x) for x in np.atleast_1d(np.asarray(res))[:50]] if oc == "ok" else []})

    def on_common(args, kw, res, exc):
        alphs = list(args[0])
        if not all(isinstance(a, bs.Alphabet) and alph_ok(a) for a in alphs):
            return _skip("common_alphabet: alphabets outside the domain")
        if _limit("common_alphabet"):
            oc = _oc_of(exc)
            _events.append({"op": "common_alphabet", "a": [[D.proj_alph(a) for a in alphs]], "oc": oc,
                            "out": [] if (oc != "ok" or res is None) else [D.proj_alph(res)]})

    wrap(SubstitutionMatrix, "__init__", on_init)
    wrap(SubstitutionMatrix, "get_score", on_get_score)
    wrap(SubstitutionMatrix, "get_score_by_code", on_by_code)
    wrap(SubstitutionMatrix, "as_positional", on_positional)
    wrap(SubstitutionMatrix, "__str__", on_str)
    wrap(SubstitutionMatrix, "is_symmetric", on_simple("is_symmetric", bool))
    wrap(SubstitutionMatrix, "transpose", on_simple("transpose", D.proj_matrix))
    wrap(bs.AlphabetMapper, "__init__", on_mapper_init)
    wrap(bs.AlphabetMapper, "__getitem__", on_mapper_get)
    wrap(balph, "common_alphabet", on_common)
    bs.common_alphabet = balph.common_alphabet


def pytest_sessionfinish(session, exitstatus):
    path = os.environ.get("X07_RECORD_FILE")
    if path:
        with open(path, "w") as f:
            json.dump({"events": _events, "skipped": _skipped}, f)
