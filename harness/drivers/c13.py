"""C13 — slicing annotations and annotated sequences matches a per-base model.

S1  TLC checks specs/C13/AnnotSlice.tla (every single call of the bounded universe: the
    code-shaped definitions equal the per-base ones, write/read, reverse-complement and
    nesting laws) and specs/C13/AnnotMachine.tla (histories of up to Depth calls).
S2  every (case, result) pair dumped by TLC and every transition of the machine's state
    graph is executed against the real Location / Feature / Annotation / AnnotatedSequence.
S3  seeded random histories on longer sequences / negative positions / 1..4 locations are
    recorded and re-computed event by event by TLC (specs/C13/Trace.tla).
"""

from __future__ import annotations

import json
import os
import random

PROPERTY = "C13"
# letter of a symbol code of the specification (AnnotSliceOps "nucleotide symbols"): codes 0..3 are
# the unambiguous alphabet, 0..14 the ambiguous (IUPAC) one.  Sequences are always built from
# LETTERS with the constructor's default, so the alphabet is unambiguous iff all codes are <= 3.
SYM = "ACGTRYWSMKHBVDN"
NSYM = len(SYM)
_DEFECTS = ("ML", "MR", "BL", "BR", "UNK", "BTW")
_G = None


# --------------------------------------------------------------------------- real side
def _bs():
    import biotite.sequence as bs

    return bs


def _defect_map():
    D = _bs().Location.Defect
    return {"ML": D.MISS_LEFT, "MR": D.MISS_RIGHT, "BL": D.BEYOND_LEFT, "BR": D.BEYOND_RIGHT,
            "UNK": D.UNK_LOC, "BTW": D.BETWEEN}


def mk_loc(j):
    bs = _bs()
    d = bs.Location.Defect.NONE
    m = _defect_map()
    for name in j["defect"]:
        d |= m[name]
    strand = bs.Location.Strand.FORWARD if j["strand"] == "+" else bs.Location.Strand.REVERSE
    return bs.Location(int(j["first"]), int(j["last"]), strand, d)


def mk_feat(j):
    return _bs().Feature(j["key"], [mk_loc(x) for x in j["locs"]], {"note": j["key"]})


def mk_ann(js):
    return _bs().Annotation([mk_feat(j) for j in js])


def mk_seq(codes):
    return _bs().NucleotideSequence("".join(SYM[int(c)] for c in codes))


def mk_obj(kind, ann, seq, start):
    if kind == "annot":
        return mk_ann(ann)
    return _bs().AnnotatedSequence(mk_ann(ann), mk_seq(seq), int(start))


def proj_loc(loc):
    bs = _bs()
    m = _defect_map()
    return {"first": int(loc.first), "last": int(loc.last),
            "strand": "+" if loc.strand == bs.Location.Strand.FORWARD else "-",
            "defect": sorted(n for n, fl in m.items() if loc.defect & fl)}


def proj_feat(f):
    key = f.key if f.qual == {"note": f.key} else f"{f.key}?qual={f.qual!r}"
    return {"key": key, "locs": [proj_loc(x) for x in f.locs]}


def proj_seq(s):
    return [SYM.index(x) for x in s.symbols]


def project(kind, obj):
    if kind == "annot":
        return {"ann": [proj_feat(f) for f in obj], "seq": [], "start": 0}
    return {"ann": [proj_feat(f) for f in obj.annotation], "seq": proj_seq(obj.sequence),
            "start": int(obj.sequence_start)}


def canon_ann(js):
    return frozenset((f["key"], frozenset((x["first"], x["last"], x["strand"], frozenset(x["defect"]))
                                          for x in f["locs"])) for f in js)


class DriverError(Exception):
    """A bug of this driver (never an outcome of the library)."""


def _opt(o):
    return None if len(o) == 0 else int(o[0])


_POKE = {"key": "zz_poke", "locs": [{"first": 1, "last": 1, "strand": "+", "defect": []}]}


def apply_real(kind, obj, op, a, feat_obj=None):
    """Execute one call. Returns (obj', oc, out, detail); any exception -> "Rejected"."""
    bs = _bs()
    out, detail = [], None
    try:
        annot = None if obj is None else (obj if kind == "annot" else obj.annotation)
        if op == "construct":
            obj = mk_obj(kind, a[0], a[1], a[2])
        elif op == "slice":
            obj = obj[slice(_opt(a[0]), _opt(a[1]))]
        elif op == "getfeat":
            f = feat_obj if feat_obj is not None else mk_feat(a[0])
            out = proj_seq(obj[f])
        elif op == "setfeat":
            f = feat_obj if feat_obj is not None else mk_feat(a[0])
            obj[f] = mk_seq(a[1])
        elif op == "getint":
            out = SYM.index(obj[int(a[0])])
        elif op == "setint":
            obj[int(a[0])] = SYM[int(a[1])]
        elif op == "setslice":
            obj[slice(_opt(a[0]), _opt(a[1]))] = mk_seq(a[2])
        elif op == "revcomp":
            obj = obj.reverse_complement(sequence_start=int(a[0]))
        elif op == "copy":
            before = project(kind, obj)
            c = obj.copy()
            eq = bool(c == obj) and bool(obj == c) and c is not obj
            indep = False
            if kind == "annseq":
                detail = type(c.sequence).__name__
            try:
                if kind == "annot":
                    c.add_feature(mk_feat(_POKE))
                    poked = len(c) == len(obj) + 1
                else:
                    c.annotation.add_feature(mk_feat(_POKE))
                    poked = len(c.annotation) == len(obj.annotation) + 1
                    if len(obj.sequence) > 0:
                        p = int(obj.sequence_start)
                        c[p] = SYM[(SYM.index(obj[p]) + 1) % 4]
                        poked = poked and c[p] != obj[p]
                after = project(kind, obj)
                indep = bool(poked and canon_ann(after["ann"]) == canon_ann(before["ann"])
                             and after["seq"] == before["seq"] and after["start"] == before["start"])
            except Exception:
                indep = False
            out = {"eq": eq, "indep": indep}
        elif op == "add":
            f = mk_feat(a[0])
            if kind == "annot" and a[0]["locs"][0]["first"] % 2 == 0:
                obj += f
            else:
                annot.add_feature(f)
        elif op == "del":
            f = feat_obj if feat_obj is not None else mk_feat(a[0])
            if kind == "annot" and a[0]["locs"][0]["first"] % 2 == 0:
                del obj[f]
            else:
                annot.del_feature(f)
        elif op == "plus":
            other = a[0]
            obj = obj + (mk_feat(other[0]) if len(other) == 1 else mk_ann(other))
        elif op == "range":
            out = [int(x) for x in annot.get_location_range()]
        elif op == "contains":
            out = bool(mk_feat(a[0]) in annot)
        elif op == "len":
            out = int(len(annot))
        else:
            raise DriverError(f"driver: unknown op {op}")
        return obj, "ok", out, detail
    except DriverError:
        raise
    except Exception as e:
        return obj, "Rejected", [], f"{type(e).__name__}: {e}"[:200]


_HAS_OUT = ("getfeat", "getint", "copy", "range", "contains", "len")


def compare(op, exp, obs):
    """exp: spec result (to_py form), obs: {"oc","ann","seq","start","out"} -> list of bad fields."""
    bad = []
    if exp["oc"] != obs["oc"]:
        bad.append("oc")
    if canon_ann(exp["ann"]) != canon_ann(obs["ann"]) or len(canon_ann(obs["ann"])) != len(obs["ann"]):
        bad.append("ann")
    if list(exp["seq"]) != list(obs["seq"]):
        bad.append("seq")
    if exp["start"] != obs["start"]:
        bad.append("start")
    if exp["oc"] == "ok" and obs["oc"] == "ok" and op in _HAS_OUT and exp["out"] != obs["out"]:
        bad.append("out")
    return bad


def run_call(kind, pre, op, a, feat_by_key=None):
    """Build the object from the abstract pre-state, run one call, project."""
    obj = mk_obj(kind, pre["ann"], pre["seq"], pre["start"])
    return _observe(kind, obj, op, a)


def _observe(kind, obj, op, a, feat_obj=None):
    obj2, oc, out, detail = apply_real(kind, obj, op, a, feat_obj)
    try:
        st = project(kind, obj2)
    except Exception as e:  # the returned object cannot even be projected
        st = {"ann": [], "seq": [], "start": -999}
        detail = f"unprojectable result: {type(e).__name__}: {e}"[:200]
        oc = "Broken"
    obs = {"oc": oc, "ann": st["ann"], "seq": st["seq"], "start": st["start"], "out": out}
    if detail is not None:
        obs["detail"] = detail
    return obj2, obs


# --------------------------------------------------------------------------- S2 children
def warmup():
    import biotite.sequence  # noqa: F401

    if "C13_GRAPH" in os.environ:
        _graph()


def exec_cases(item):
    """One chunk of the TLC dump: parse the (c, r) states and execute each case."""
    from harness.tlabind.pool import progress
    from harness.tlabind.tlaval import parse_state, to_py

    with open(item["file"], "rb") as fh:
        fh.seek(item["beg"])
        text = fh.read(item["end"] - item["beg"]).decode()
    mism, n, ops, ocs, nontriv = [], 0, {}, {}, 0
    symcov = {"read_rev": set(), "written_rev": set(), "revcomp": set()}
    cur = []

    def flush():
        nonlocal n, nontriv
        t = "".join(cur).strip()
        cur.clear()
        if not t:
            return
        st = parse_state(t)
        c, r = to_py(st["c"]), to_py(st["r"])
        if c["op"] == "init":
            return
        n += 1
        key = c["kind"] + "." + c["op"]
        ops[key] = ops.get(key, 0) + 1
        ocs[r["oc"]] = ocs.get(r["oc"], 0) + 1
        pre = {"ann": c["ann"], "seq": c["seq"], "start": c["start"]}
        if (canon_ann(r["ann"]) != canon_ann(pre["ann"]) or r["seq"] != pre["seq"]
                or r["start"] != pre["start"] or r["out"] not in ([], {})):
            nontriv += 1
        _symbol_coverage(symcov, c["op"], c["a"], pre)
        progress({"op": c["op"], "a": c["a"], "pre": pre})
        _o, obs = run_call(c["kind"], pre, c["op"], c["a"])
        bad = compare(c["op"], r, obs)
        if bad:
            mism.append({"kind": "case", "okind": c["kind"], "op": c["op"], "a": c["a"], "pre": pre,
                         "bad": bad, "expected": r, "observed": obs})

    for line in text.splitlines(keepends=True):
        if line.startswith("State ") and line.rstrip().endswith(":"):
            flush()
        else:
            cur.append(line)
    flush()
    return {"mismatch": mism, "n": n, "ops": ops, "ocs": ocs, "nontrivial": nontriv,
            "symcov": {k: sorted(v) for k, v in symcov.items()}}


def _symbol_coverage(cov, op, a, pre):
    """Which symbol codes took part in a complement (measured, for the vacuity guard)."""
    if op == "revcomp":
        cov["revcomp"].update(pre["seq"])
    elif op in ("getfeat", "setfeat") and all(x["strand"] == "-" for x in a[0]["locs"]):
        if op == "getfeat":
            cov["read_rev"].update(pre["seq"][p - pre["start"]] for p in _bases(a[0]))
        else:
            cov["written_rev"].update(a[1])


def _graph():
    global _G
    if _G is None:
        with open(os.environ["C13_GRAPH"]) as f:
            _G = json.load(f)
    return _G


def _find_by_key(kind, obj, key):
    annot = obj if kind == "annot" else obj.annotation
    hits = [f for f in annot if f.key == key]
    if len(hits) != 1:
        raise DriverError(f"driver: {len(hits)} features with key {key}")
    return hits[0]


def concretize(kind, obj, op, a, exp):
    """Resolve the machine's state-relative calls on the REAL object (the feature objects used
    as indices are the ones the library itself produced). Values to write are published by the
    specification in the `out` of the target state."""
    if op == "getfeatk":
        f = _find_by_key(kind, obj, a[0])
        return "getfeat", [proj_feat(f)], f
    if op == "setfeatk":
        f = _find_by_key(kind, obj, a[0])
        return "setfeat", [proj_feat(f), exp["out"]], f
    if op == "delk":
        f = _find_by_key(kind, obj, a[0])
        return "del", [proj_feat(f)], f
    if op == "setintk":
        return "setint", [a[0], exp["out"]], None
    if op == "setslicek":
        return "setslice", [a[0], a[1], exp["out"]], None
    return op, a, None


def exec_paths(batch):
    """A batch of paths (one fork per batch)."""
    mism, steps = [], 0
    for item in batch["paths"]:
        r = exec_path(item)
        mism.extend(r["mismatch"])
        steps += r["steps"]
    return {"mismatch": mism, "steps": steps}


def exec_path(item):
    from harness.tlabind.pool import progress

    G = _graph()
    states, labels = G["states"], G["labels"]
    st = states[item["init"]]
    kind = st["kind"]
    obj = mk_obj(kind, st["ann"], st["seq"], st["start"])
    pre = st
    mism, nsteps, hist = [], 0, []
    for li, dst in item["steps"]:
        _k, mop, ma = labels[li]
        exp = states[dst]
        op, a, fobj = concretize(kind, obj, mop, ma, exp)
        hist.append([op, a])
        progress({"op": op, "a": a, "pre": {k: pre[k] for k in ("ann", "seq", "start")}})
        nsteps += 1
        obj2, obs = _observe(kind, obj, op, a, fobj)
        bad = compare(op, exp, obs)
        if bad:
            mism.append({"kind": "step", "okind": kind, "op": op, "a": a,
                         "pre": {k: pre[k] for k in ("ann", "seq", "start")}, "bad": bad,
                         "expected": {k: exp[k] for k in ("oc", "ann", "seq", "start", "out")},
                         "observed": obs, "history": list(hist),
                         "init": {k: st[k] for k in ("ann", "seq", "start")}})
            # resynchronise on the specification's state so that the rest of the path is
            # still executed (each later step is judged from the spec's own pre-state)
            obj2 = mk_obj(kind, exp["ann"], exp["seq"], exp["start"])
        obj = obj2
        pre = exp
    return {"mismatch": mism, "steps": nsteps}


# --------------------------------------------------------------------------- S3 child
def _rand_defect(rng):
    if rng.random() < 0.6:
        return []
    return sorted(rng.sample(_DEFECTS, rng.randint(1, 3)))


def _rand_feature(rng, lo, hi, key, nloc=None, disjoint=None):
    """Feature with 1..4 locations inside lo..hi (inclusive)."""
    nloc = nloc or rng.choice([1, 1, 2, 2, 3, 4])
    disjoint = rng.random() < 0.8 if disjoint is None else disjoint
    strand = rng.choice("+-")
    mixed = rng.random() < 0.08
    locs = []
    if disjoint:
        cuts = sorted(rng.sample(range(lo, hi + 2), min(2 * nloc, hi + 2 - lo)))
        for k in range(0, len(cuts) - 1, 2):
            locs.append([cuts[k], cuts[k + 1] - 1])
    else:
        for _ in range(nloc):
            f = rng.randint(lo, hi)
            locs.append([f, rng.randint(f, hi)])
    return {"key": key, "locs": [{"first": f, "last": l, "strand": (rng.choice("+-") if mixed else strand),
                                  "defect": _rand_defect(rng)} for f, l in locs]}


def _bases(f):
    s = []
    for x in f["locs"]:
        s.extend(range(x["first"], x["last"] + 1))
    return s


def _dom_index(f, lo, hi):
    b = _bases(f)
    keys = {(x["first"], x["last"], x["strand"], tuple(x["defect"])) for x in f["locs"]}
    return (len(keys) == len(f["locs"]) and len(set(b)) == len(b)
            and all(lo <= p <= hi for p in b))


def gen_trace(item):
    """Random history against the real classes; the log is validated by TLC afterwards.
    The generator only has to stay inside the Dom_* predicates of the specification (TLC
    re-checks them on every logged event)."""
    from harness.tlabind.pool import progress

    rng = random.Random(item["seed"])
    kind = item["kind"]
    nk = [0]

    def key():
        nk[0] += 1
        return f"f{nk[0]}"

    if kind == "annseq":
        n = rng.randint(0, item["maxlen"])
        start = rng.choice([1, 1, 2, 5, 17])
        lo, hi = start, start + n - 1
        # half of the histories run on the ambiguous (IUPAC) alphabet
        nsym = NSYM if rng.random() < 0.5 else 4
        seq = [rng.randrange(nsym) for _ in range(n)]
    else:
        n, start, seq = 0, 0, []
        lo, hi = -30, 60

    def wsym(cur):
        """a symbol that may be written into the current sequence (Dom_Write / Dom_WriteSym:
        ambiguous codes only where the sequence visibly has the ambiguous alphabet)"""
        return rng.randrange(NSYM if any(c > 3 for c in cur["seq"]) else 4)
    feats = [_rand_feature(rng, lo, hi, key()) for _ in range(rng.randint(0, 4))] if hi >= lo else []
    # "left overhang": an annotated sequence whose features begin upstream of the sequence (a gene that
    # starts before the sequenced region); they must not reach beyond its end (Dom_LeftOverhang), where
    # the omitted stop of the code and the unbounded stop of the specification would part
    overhang = kind == "annseq" and n >= 1 and rng.random() < item.get("p_overhang", 0.2)
    if overhang:
        feats = [_rand_feature(rng, lo - 6, hi, key()) for _ in range(rng.randint(1, 4))]
    events = []
    obj = None
    for _step in range(item["length"]):
        if obj is None:
            op, a = "construct", [feats, seq, start]
            cur = {"ann": [], "seq": [], "start": 0}
        else:
            cur = {k: events[-1][k] for k in ("ann", "seq", "start")}
            lo, hi = (cur["start"], cur["start"] + len(cur["seq"]) - 1) if kind == "annseq" else (-30, 60)
            cf = cur["ann"]
            if overhang:
                op = rng.choice(["slice"] * 6 + ["copy", "getint", "del"])
            elif kind == "annseq":
                op = rng.choice(["slice"] * 6 + ["getfeat"] * 3 + ["setfeat"] * 2 + ["revcomp"] * 2 +
                                ["copy", "getint", "setint", "setslice", "add", "add", "del"])
            else:
                op = rng.choice(["slice"] * 6 + ["add"] * 3 + ["del", "del", "plus", "plus", "range",
                                                                   "contains", "len", "copy"])
            if op == "slice":
                def bound(p):
                    return [] if rng.random() < 0.3 else [p]
                if kind == "annseq":
                    x, y = sorted([rng.randint(lo, hi + 1), rng.randint(lo, hi + 1)])
                    if rng.random() < 0.7:       # keep histories alive: mostly wide windows
                        x = rng.randint(lo, min(hi + 1, lo + 2))
                        y = rng.randint(max(x, hi - 2), hi + 1)
                    a = [bound(x), bound(y)]
                    if rng.random() < 0.04:
                        a = [[lo - 1], bound(y)]      # documented refusal
                else:
                    x, y = sorted([rng.randint(-35, 65), rng.randint(-35, 65)])
                    a = [bound(x), bound(y)]
            elif op in ("getfeat", "setfeat"):
                cand = [f for f in cf if _dom_index(f, lo, hi)]
                if cand and rng.random() < 0.8:
                    f = rng.choice(cand)
                elif hi >= lo:
                    f = _rand_feature(rng, lo, hi, key(), disjoint=True)
                    if not _dom_index(f, lo, hi):
                        continue
                else:
                    continue
                if op == "setfeat":
                    if len({x["strand"] for x in f["locs"]}) != 1:
                        continue
                    a = [f, [wsym(cur) for _ in _bases(f)]]
                else:
                    a = [f]
            elif op == "revcomp":
                a = [rng.choice([1, 1, 2, 9])]
            elif op in ("getint", "setint"):
                if hi < lo:
                    continue
                p = rng.randint(lo, hi)
                a = [p] if op == "getint" else [p, wsym(cur)]
            elif op == "setslice":
                x, y = sorted([rng.randint(lo, hi + 1), rng.randint(lo, hi + 1)])
                ox = [] if rng.random() < 0.3 else [x]
                oy = [] if rng.random() < 0.3 else [y]
                w = (y if oy else hi + 1) - (x if ox else lo)
                a = [ox, oy, [wsym(cur) for _ in range(w)]]
            elif op == "add":
                if hi < lo:
                    continue
                a = [_rand_feature(rng, lo, hi, key())]
            elif op in ("del", "contains"):
                if cf and rng.random() < 0.75:
                    a = [rng.choice(cf)]
                else:
                    a = [_rand_feature(rng, -3, 3, "absent")]
            elif op == "plus":
                a = [[_rand_feature(rng, lo, hi, key()) for _ in range(rng.randint(0, 3))]
                     + ([rng.choice(cf)] if cf and rng.random() < 0.5 else [])]
            elif op == "range":
                if not cf:
                    continue
                a = []
            else:
                a = []
        progress({"op": op, "a": a, "pre": cur})
        obj, obs = _observe(kind, obj, op, a)
        ev = {"kind": kind, "op": op, "a": a, "oc": obs["oc"], "ann": obs["ann"], "seq": obs["seq"],
              "start": obs["start"], "out": obs["out"], "pre": cur}
        if "detail" in obs:
            ev["detail"] = obs["detail"]
        events.append(ev)
        if obs["oc"] == "Broken":
            break
    return {"events": events}


# --------------------------------------------------------------------------- classification
def _recut(ann, last_kept):
    """Shape of the recorded defect C13-open-stop: the annotation cut once more at an
    inclusive last position (used only to recognise the known finding, never for a verdict)."""
    out = []
    for f in ann:
        locs = []
        for x in f["locs"]:
            if x["first"] > last_kept:
                continue
            y = dict(x)
            if x["last"] > last_kept:
                y["last"] = last_kept
                y["defect"] = sorted(set(x["defect"]) | {"MR"})
            locs.append(y)
        if locs:
            out.append({"key": f["key"], "locs": locs})
    return out


def classify(mm):
    if mm.get("kind") not in ("case", "step", "event"):
        return None
    op, a, pre = mm.get("op"), mm.get("a"), mm.get("pre")
    exp, obs, bad = mm.get("expected"), mm.get("observed"), mm.get("bad")
    if op is None or pre is None or exp is None or obs is None or bad is None:
        return None
    okind = mm.get("okind")
    locs = [x for f in pre["ann"] for x in f["locs"]]
    if op == "slice" and exp["oc"] == "ok":
        n = len(pre["seq"])
        # empty slice [a:a] strictly inside a location -> ValueError
        if (len(a[0]) == 1 and len(a[1]) == 1 and a[0][0] == a[1][0] and obs["oc"] == "Rejected"
                and any(x["first"] < a[0][0] <= x["last"] for x in locs)):
            return "C13-empty-slice-spanned"
        if okind == "annseq" and len(a[1]) == 0:
            # [a:] / [:] : the annotation is sliced with stop = len(sequence) (an index) instead of
            # the end position start+len
            if obs["oc"] == "ok" and bad == ["ann"]:
                if (canon_ann(obs["ann"]) == canon_ann(_recut(exp["ann"], n - 1))
                        and any(x["last"] >= n for x in locs)):
                    return "C13-open-stop-is-index"
            if (obs["oc"] == "Rejected" and len(a[0]) == 1 and a[0][0] >= n
                    and any(x["first"] <= n - 1 and x["last"] >= a[0][0] for x in locs)):
                return "C13-open-stop-is-index"
    if (op == "copy" and okind == "annseq" and bad == ["out"] and obs.get("detail") == "method"
            and isinstance(obs["out"], dict) and obs["out"].get("eq") is False):
        return "C13-copy-sequence-not-copied"
    if op == "setfeat" and bad == ["seq"] and exp["oc"] == "ok":
        f, x = a[0], a[1]
        fb = set(_bases(f))
        multi_or_rev = len(f["locs"]) >= 2 or any(l["strand"] == "-" for l in f["locs"])
        if multi_or_rev and len(obs["seq"]) == len(pre["seq"]):
            s0 = pre["start"]
            outside_same = all(obs["seq"][i] == pre["seq"][i] for i in range(len(pre["seq"]))
                               if (s0 + i) not in fb)
            written = sorted(obs["seq"][p - s0] for p in fb)
            if outside_same and written == sorted(x):
                return "C13-setitem-feature-order"
    return None


# --------------------------------------------------------------------------- orchestration
def _split_dump(path, per_item):
    """Byte ranges of the dump file, `per_item` states each (no parsing in the parent)."""
    offs = []
    pos = 0
    with open(path, "rb") as fh:
        for line in fh:
            if line.startswith(b"State ") and line.rstrip().endswith(b":"):
                offs.append(pos)
            pos += len(line)
    offs.append(pos)
    items = []
    for k in range(0, len(offs) - 1, per_item):
        items.append({"file": path, "beg": offs[k], "end": offs[min(k + per_item, len(offs) - 1)]})
    return items, len(offs) - 1


_OPS_SEQ = {"slice", "getfeat", "setfeat", "getint", "setint", "setslice", "revcomp", "copy"}
_OPS_BARE = {"slice", "add", "del", "plus", "range", "contains", "len", "copy"}


def run(ctx):
    from harness.tlabind import dot, helpers, pool, tlc
    from harness.tlabind.core import Vacuity
    from harness.tlabind.tlaval import to_py

    quick = ctx.quick
    ctx.assumptions += [
        "Dom_LocsInSeq: for annotated sequences every location lies within start..start+len-1 "
        "(open slice bounds then mean the same in position and in sequence coordinates)",
        "Dom_SliceInSeq: slice bounds lie in start..start+len and a <= b; a = start-1 is the documented refusal",
        "Dom_FeatIndex: a feature used as index has pairwise disjoint locations inside the sequence "
        "(biological order is undefined for overlapping locations); Dom_SetFeature: one strand, value of the covered length",
        "symbols: both NucleotideSequence alphabets (ACGT and the 15 IUPAC codes); the complement of a code "
        "is the code of the complemented base set; sequences are built from letters with the default "
        "alphabet choice (unambiguous iff only ACGT occur)",
        "Dom_Write: ambiguous symbols are only written into a sequence that currently contains an ambiguous "
        "symbol (Sequence.__setitem__ copies raw codes without an alphabet check)",
        "qualifiers are one note per feature",
        "cut marks are added to the defects a location already has (MISS_LEFT/MISS_RIGHT are never cleared)",
        "exhaustive model: sequence length <= 4, starts {1,3}, one feature with <= 3 locations or two "
        "one-location features; ambiguous symbols: every code alone and in windows of one fixed permutation "
        "of the 15 codes; longer inputs only through recorded traces",
        "trusted: TLC, the TLA+ value parser, the projection (iteration over Annotation, Feature.locs, "
        "Sequence.symbols, sequence_start)",
    ]
    ctx.cov["rule"] = ("non-trivial = the call changes the projected object or returns a value "
                       "(S2 cases); a path/trace with >= 2 accepted calls (machine paths, S3)")
    # ---- S1 + S2a: single-call universe ------------------------------------------------
    d = tlc.scratch_dir("c13")
    prefix = os.path.join(d, "cases")
    cfg = "MC.cfg" if quick else "MC_thorough.cfg"
    ctx.tlc("AnnotSlice", cfg, stage="S1", dump=prefix, timeout=1500)
    dump = prefix + ".dump" if os.path.exists(prefix + ".dump") else prefix
    items, nstates = _split_dump(dump, 400)
    ctx.log(f"S2a: {nstates} dumped states in {len(items)} items")
    res = helpers.run_pool(ctx, "harness.drivers.c13:exec_cases", items, stage="S2", item_timeout=120)
    ops, ocs, ncases, nontriv = {}, {}, 0, 0
    symcov = {"read_rev": set(), "written_rev": set(), "revcomp": set()}
    for r in res:
        if not r or "crash" in r:
            continue
        for k, v in r["symcov"].items():
            symcov[k].update(v)
        ncases += r["n"]
        nontriv += r["nontrivial"]
        for k, v in r["ops"].items():
            ops[k] = ops.get(k, 0) + v
        for k, v in r["ocs"].items():
            ocs[k] = ocs.get(k, 0) + v
    ctx.cov["s2_cases_per_op"] = ops
    ctx.cov["s2_cases_per_outcome"] = ocs
    need = {"annseq." + o for o in _OPS_SEQ} | {"annot." + o for o in _OPS_BARE}
    if need - set(ops):
        raise Vacuity(f"calls never enumerated: {sorted(need - set(ops))}")
    if not {"ok", "Rejected"} <= set(ocs):
        raise Vacuity(f"outcomes not all reached: {ocs}")
    # every symbol of both alphabets was read under a reverse-strand feature, written through one
    # and reverse-complemented as part of a whole sequence
    ctx.cov["s2_symbols_complemented"] = {k: len(v) for k, v in symcov.items()}
    for k, v in symcov.items():
        if v != set(range(NSYM)):
            raise Vacuity(f"symbol codes never complemented in role {k}: {sorted(set(range(NSYM)) - v)}")
    ctx.exhaustive = True
    ctx.traces_validated += ncases
    ctx.evaluations += ncases
    ctx.nontrivial += nontriv
    ctx.cov["s2_cases"] = ncases
    # ---- S1 + S2b: histories -------------------------------------------------------------
    mcfg = "MC_machine.cfg" if quick else "MC_machine_thorough.cfg"
    gcfg = "MC_machine_graph.cfg" if quick else "MC_machine_graph_thorough.cfg"
    ctx.tlc("AnnotMachine", mcfg, stage="S1-machine", timeout=1500)
    dotf = os.path.join(d, "g.dot")
    ctx.tlc("AnnotMachine", gcfg, stage="S1-graph", dump_dot=dotf, workers=1, timeout=1800, count=False)
    g = dot.load(dotf)
    if not g.edges:
        raise RuntimeError("empty state graph")
    labels, lab_ix, ops_seen = [], {}, {}
    for (_s, lab, _d) in g.edges:
        if lab not in lab_ix:
            _name, args = dot.parse_label(lab)
            lab_ix[lab] = len(labels)
            labels.append(to_py(args[0]))
        c = labels[lab_ix[lab]]
        ops_seen[c[0] + "." + c[1]] = ops_seen.get(c[0] + "." + c[1], 0) + 1
    ctx.cov["transitions_per_op"] = ops_seen
    needm = {"annseq.slice", "annseq.getfeatk", "annseq.setfeatk", "annseq.getfeat", "annseq.add",
             "annseq.delk", "annseq.revcomp", "annseq.copy", "annseq.getint", "annseq.setintk",
             "annseq.setslicek", "annot.slice", "annot.add", "annot.del", "annot.delk",
             "annot.contains", "annot.plus", "annot.range", "annot.len", "annot.copy"}
    if needm - set(ops_seen):
        raise Vacuity(f"machine calls never taken: {sorted(needm - set(ops_seen))}")
    ids = {nid: k for k, nid in enumerate(g.state_text)}
    states = [None] * len(ids)
    socs = {}
    for nid, k in ids.items():
        st = g.state(nid)
        states[k] = {"kind": st["kind"], "ann": to_py(st["ann"]), "seq": to_py(st["seq"]),
                     "start": st["start"], "oc": st["oc"], "out": to_py(st["out"])}
        socs[st["oc"]] = socs.get(st["oc"], 0) + 1
    if not {"ok", "Rejected"} <= set(socs):
        raise Vacuity(f"machine outcomes not all reached: {socs}")
    namb = sum(1 for st in states if any(c > 3 for c in st["seq"]))
    ctx.cov["machine_states_ambiguous_alphabet"] = namb
    if namb == 0:
        raise Vacuity("no machine state with a sequence over the ambiguous alphabet")
    ctx.cov["machine_states_per_outcome"] = socs
    paths, covered = dot.covering_paths(g, max_len=8, rng=ctx.rng)
    gfile = os.path.join(d, "graph.json")
    with open(gfile, "w") as f:
        json.dump({"states": states, "labels": labels}, f)
    pitems = [{"init": ids[root], "steps": [[lab_ix[lab], ids[dst]] for lab, dst in steps]}
              for root, steps in paths]
    ctx.log(f"S2b: {len(pitems)} paths covering {covered}/{len(g.edges)} transitions")
    if covered != len(g.edges):
        raise Vacuity(f"only {covered} of {len(g.edges)} transitions covered by paths")
    batches = [{"paths": b} for b in helpers.chunked(pitems, 250)]
    pres = helpers.run_pool(ctx, "harness.drivers.c13:exec_paths", batches, stage="S2",
                            env={"C13_GRAPH": gfile}, item_timeout=120)
    steps = sum((r or {}).get("steps", 0) for r in pres)
    ctx.log(f"S2b: {steps} steps executed")
    ctx.traces_validated += len(pitems)
    ctx.evaluations += steps
    ctx.nontrivial += sum(1 for it in pitems if len(it["steps"]) >= 2)
    ctx.cov.update({"s2_paths": len(pitems), "s2_steps_executed": steps,
                    "s2_transitions_covered": covered, "s2_transitions_total": len(g.edges)})
    for root, stp in paths[:2]:
        ctx.sample({"s2_path": [labels[lab_ix[lab]] for lab, _ in stp]})
    # ---- S3 ------------------------------------------------------------------------------
    ntr = 160 if quick else 2400
    length = 16 if quick else 24
    titems = [{"seed": ctx.rng.randrange(1 << 30), "length": length,
               "kind": "annot" if k % 4 == 3 else "annseq", "maxlen": 40 if k % 3 else 12}
              for k in range(ntr)]
    tres = pool.run_isolated("harness.drivers.c13:gen_trace", titems, item_timeout=120)
    traces = []
    for it, r in zip(titems, tres):
        if "driver_error" in r:
            raise RuntimeError(f"S3 driver error: {r['driver_error']}\n{r.get('tb', '')}")
        if "crash" in r:
            ctx.mismatch({"stage": "S3", "kind": "crash", "signal": r["crash"],
                          "progress": r.get("progress"), "item": it})
            continue
        if r["events"]:
            traces.append(r["events"])
    ctx.log(f"S3: {len(traces)} traces recorded")
    validate_traces(ctx, traces)

    def corrupt(tr):
        for e in tr[1:]:
            if e["oc"] == "ok" and e["ann"] and e["op"] in ("slice", "revcomp"):
                x = e["ann"][0]["locs"][0]
                x["defect"] = sorted(set(x["defect"]) ^ {"MR"})
                return True
        for e in tr[1:]:
            if e["oc"] == "ok" and e["seq"]:
                e["seq"][-1] = (e["seq"][-1] + 1) % NSYM
                return True
        return False

    helpers.binding_selftest(ctx, [[{k: e[k] for k in _KEEP} for e in t] for t in traces], corrupt,
                             max_traces=4)
    # outside the property statement: Feature inherits Copyable but cannot be copied
    try:
        r = pool.run_isolated("harness.drivers.c13:probe_feature_copy", [{}], item_timeout=30)[0]
        if r.get("raised"):
            ctx.note(f"diagnostic (not part of the property): Feature.copy() raises {r['raised']}")
    except Exception as e:  # diagnostics never decide anything
        ctx.note(f"feature-copy probe failed: {e!r}")


_KEEP = ("kind", "op", "a", "oc", "ann", "seq", "start", "out")


def probe_feature_copy(_item):
    try:
        mk_feat(_POKE).copy()
        return {"raised": None}
    except Exception as e:
        return {"raised": f"{type(e).__name__}: {e}"[:160]}


def validate_traces(ctx, traces):
    from harness.tlabind import helpers

    if not traces:
        raise RuntimeError("S3 produced no traces")
    mms = helpers.tlc_validate(ctx, traces, keep=_KEEP, timeout=1500)
    dom = [v for v in mms if v[3] == ["DOMAIN"]]
    if dom:
        bad = [[traces[v[1] - 1][v[2] - 1]["op"], traces[v[1] - 1][v[2] - 1]["a"]] for v in dom[:3]]
        raise RuntimeError(f"S3 generator left the specification's domain: {bad}")
    nev = sum(len(t) for t in traces)
    ctx.traces_validated += len(traces)
    ctx.evaluations += nev
    ctx.cov["s3_traces"] = len(traces)
    ctx.cov["s3_events"] = nev
    per = {}
    for t in traces:
        for e in t:
            per[e["kind"] + "." + e["op"]] = per.get(e["kind"] + "." + e["op"], 0) + 1
    ctx.cov["s3_events_per_op"] = per
    # recorded complements over the ambiguous alphabet (pre-state of the event has a code > 3)
    amb = {"revcomp": 0, "getfeat_rev": 0, "setfeat_rev": 0}
    for t in traces:
        for e in t:
            if e["oc"] != "ok" or not any(c > 3 for c in e["pre"]["seq"]):
                continue
            if e["op"] == "revcomp":
                amb["revcomp"] += 1
            elif e["op"] in ("getfeat", "setfeat") and all(x["strand"] == "-" for x in e["a"][0]["locs"]):
                amb[e["op"] + "_rev"] += 1
    ctx.cov["s3_ambiguous_alphabet_complements"] = amb
    if min(amb.values()) == 0:
        from harness.tlabind.core import Vacuity
        raise Vacuity(f"S3 never complemented a sequence over the ambiguous alphabet: {amb}")
    ctx.nontrivial += sum(1 for t in traces if sum(1 for e in t if e["oc"] == "ok") >= 3)
    ctx.sample({"s3_events": [{k: e[k] for k in _KEEP} for e in traces[0][:2]]})
    for v in mms:
        _tag, tid, l, flags, eoc, eann, eseq, estart, eout = v
        e = traces[tid - 1][l - 1]
        names = ("oc", "ann", "seq", "start", "out")
        obs = {k: e[k] for k in ("oc", "ann", "seq", "start", "out")}
        if "detail" in e:
            obs["detail"] = e["detail"]
        ctx.mismatch({"stage": "S3", "kind": "event", "okind": e["kind"], "op": e["op"], "a": e["a"],
                      "pre": e["pre"], "bad": [n for n, ok in zip(names, flags) if not ok],
                      "expected": {"oc": eoc, "ann": eann, "seq": eseq, "start": estart, "out": eout},
                      "observed": obs, "trace": tid, "event": l,
                      "history": [[x["op"], x["a"]] for x in traces[tid - 1][:l]]})
    return len(mms)


def replay(record):
    """Re-execute one stored mismatch (single call from its abstract pre-state)."""
    if record.get("kind") not in ("case", "step", "event"):
        return {"error": "record kind not replayable", "record": record}
    kind, pre = record["okind"], record["pre"]
    _obj, obs = run_call(kind, pre, record["op"], record["a"])
    bad = compare(record["op"], record["expected"], obs)
    return {"call": [record["op"], record["a"]], "pre": pre, "expected": record["expected"],
            "observed": obs, "bad": bad, "mismatch": bool(bad)}


MANIFEST = {
    "technique": "TLA+ per-base model of Location/Feature/Annotation/AnnotatedSequence (specs/C13) model-checked by TLC; every enumerated call and every transition of the history machine executed against the real classes; recorded random histories re-computed by TLC",
    "level_text": "TLC enumerates every single call (slice with all bound combinations incl. open and empty ones, feature read/write, reverse complement, copy, container calls) on all annotated sequences of length <=4 with starts 1 and 3 carrying one feature of <=3 locations (both strands, pre-existing defects) or two one-location features, and on bare annotations over positions -2..2; the symbols range over both nucleotide alphabets (every one of the 15 IUPAC codes alone and in windows of a permutation of all codes under forward and reverse features, in assignments and in reverse_complement), the complement of a code being defined in the specification as the code of the complemented base set; it proves on that universe that the code-shaped clipping / concatenation / mirror arithmetic equals the per-base definitions, that write-then-read returns the written bases, that reverse complement is an involution preserving feature sequences and that nested slices equal direct ones. Each enumerated (call, result) pair and every transition of a 3-call history machine is executed against the real classes; longer sequences (<=40), other starts, negative positions and 1..4 locations are covered by recorded histories that TLC re-computes event by event. Recorded histories include annotated sequences whose features begin upstream of the sequence (Dom_LeftOverhang), sliced with omitted and given bounds.",
    "level_note": "Bounded: exhaustive only for length <=4 / <=3 locations; beyond that recorded histories. Locations of annotated sequences are assumed to lie inside the sequence, indexed features to have disjoint locations; protein sequences, an ambiguous-alphabet sequence object holding only ACGT at construction, slice steps, integer indices outside the sequence and Feature ordering are not decided. Trusted: TLC, the TLA+ value parser, the projection through the public iteration/properties.",
}
