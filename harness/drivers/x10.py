"""X10: residue standardisation, structure -> sequence, residue information look-ups.

Specification: specs/X10/ResInfo.tla (dictionary table CCD, Op_* operators, Decl*/Impl* layers).
  S1  MCStd / MCSeq / MCInfo: TLC decides Impl = Decl and the laws on every bounded input.
  S2  the dumped (input, expected) states of the three models are executed against the real API
      (standardize_order, to_sequence, the info look-ups); the dictionary file the real code reads is
      written from the table TLC hands out (call "table" of MCInfo).
  S3  seeded histories of calls on larger random structures (all components, shuffled / omitted /
      foreign / duplicated atoms, several chains), recorded as JSON and re-computed by Trace.tla;
      binding self-test with corrupted events.
Python never decides what is correct: it executes biotite, projects the results to the abstract
values of the specification and compares canonical forms with what TLC printed.
"""
import os
import warnings

PROPERTY = "X10"
MANIFEST = {
    "technique": "explicit TLA+ specification (ResInfo.tla: dictionary table, declarative and implementation-shaped "
                 "operators for standardize_order / to_sequence / info look-ups) model-checked by TLC; TLC-dumped "
                 "input/expected pairs replayed into biotite (S2); recorded seeded call histories validated by "
                 "Trace.tla (S3); binding self-test; vacuity guards",
    "level_text": "bounded-exhaustive: all 1-residue arrays up to 4 (thorough 5) atoms over reference+foreign names, "
                  "2-3 residue arrays; all residue-name lists up to 3 over 9 names x 4 joins and of 4 (thorough 6) "
                  "over 4 names x 2 joins, with/without allow_hetero; 788 look-up calls; random beyond the bounds",
    "level_note": "synthetic dictionary written from the specification's table; duplicate foreign atoms, "
                  "insertion codes / sym_id and the numbers of the full mass / radius tables are not decided",
}

_CCD = {"path": None}
CCD_COPY = os.path.join(os.path.dirname(os.path.dirname(os.path.dirname(os.path.abspath(__file__)))),
                        "specs", "X10", "ccd_x10.bcif")


# ----------------------------------------------------------------------------- real-code side
def _setup(path):
    import biotite.structure.info as info

    if _CCD["path"] != path:
        info.set_ccd_path(path)
        _CCD["path"] = path


def warmup():
    """Once per pool child (before the fork per item): import biotite; when the dictionary file of this run
    exists already, install it and fill the caches."""
    import biotite.structure  # noqa: F401
    import biotite.structure.info as info
    import biotite.sequence  # noqa: F401

    path = os.environ.get("X10_CCD")
    if path and os.path.exists(path):
        _setup(path)
        info.amino_acid_names(), info.nucleotide_names(), info.carbohydrate_names()
        with warnings.catch_warnings():
            warnings.simplefilter("ignore")
            for name in info.all_residues():
                info.one_letter_code(name)


def write_ccd(item):
    """Write the dictionary table (as dumped by TLC) with biotite's BinaryCIF writer."""
    import numpy as np
    from biotite.structure.io.pdbx import BinaryCIFBlock, BinaryCIFCategory, BinaryCIFColumn, BinaryCIFFile

    table = item["table"]
    ids = [c["id"] for c in table]
    olc = [c["olc"][0] if c["olc"] else "" for c in table]
    mask = np.array([0 if c["olc"] else 2 for c in table], dtype=np.uint8)
    chem_comp = BinaryCIFCategory({
        "id": np.array(ids),
        "name": np.array([c["name"] for c in table]),
        "type": np.array([c["type"] for c in table]),
        "one_letter_code": BinaryCIFColumn(np.array(olc), mask),
        "formula_weight": np.array([float(c["w"]) for c in table]),
    })
    a_comp, a_id, a_el, a_ch, xs = [], [], [], [], []
    for c in table:
        for k, (aid, el, ch) in enumerate(c["atoms"]):
            a_comp.append(c["id"]); a_id.append(aid); a_el.append(el); a_ch.append(ch); xs.append(float(k))
    z = np.zeros(len(xs), dtype=np.float32)
    chem_comp_atom = BinaryCIFCategory({
        "comp_id": np.array(a_comp), "atom_id": np.array(a_id), "alt_atom_id": np.array(a_id),
        "type_symbol": np.array(a_el), "charge": np.array(a_ch, dtype=np.int32),
        "pdbx_model_Cartn_x_ideal": np.array(xs, dtype=np.float32),
        "pdbx_model_Cartn_y_ideal": z, "pdbx_model_Cartn_z_ideal": z,
        "model_Cartn_x": np.array(xs, dtype=np.float32), "model_Cartn_y": z, "model_Cartn_z": z,
        "pdbx_leaving_atom_flag": np.array(["N" for _ in a_id]),
    })
    b_comp, b1, b2, bo, ba = [], [], [], [], []
    for c in table:
        for (x, y, o, ar) in c["bonds"]:
            b_comp.append(c["id"]); b1.append(x); b2.append(y); bo.append(o); ba.append(ar)
    chem_comp_bond = BinaryCIFCategory({
        "comp_id": np.array(b_comp), "atom_id_1": np.array(b1), "atom_id_2": np.array(b2),
        "value_order": np.array(bo), "pdbx_aromatic_flag": np.array(ba),
    })
    f = BinaryCIFFile({"components": BinaryCIFBlock({
        "chem_comp": chem_comp, "chem_comp_atom": chem_comp_atom, "chem_comp_bond": chem_comp_bond})})
    f.write(item["path"])
    # a copy next to the specification, for replay() of stored mismatch records
    try:
        with open(item["path"], "rb") as g:
            data = g.read()
        old = None
        if os.path.exists(CCD_COPY):
            with open(CCD_COPY, "rb") as g:
                old = g.read()
        import biotite
        if old != data and os.path.abspath(biotite.__file__).startswith("/repo/"):   # never from a changed tree
            tmp = CCD_COPY + f".{os.getpid()}.tmp"
            with open(tmp, "wb") as g:
                g.write(data)
            os.replace(tmp, CCD_COPY)
    except OSError:
        pass
    return {"n": len(table)}


def _mk_atoms(rows, form):
    import numpy as np
    import biotite.structure as struc

    n = len(rows)
    a = struc.AtomArray(n)
    a.chain_id = np.array([r[0] for r in rows], dtype="U4")
    a.res_id = np.array([r[1] for r in rows], dtype=int)
    a.res_name = np.array([r[2] for r in rows], dtype="U5")
    a.atom_name = np.array([r[3] for r in rows], dtype="U6")
    a.coord = np.arange(3 * n, dtype=np.float32).reshape(n, 3)
    if form == "stack":
        return struc.stack([a, a.copy()])
    return a


def _snapshot(a):
    return (a.chain_id.tolist(), a.res_id.tolist(), a.res_name.tolist(), a.atom_name.tolist(), a.coord.tolist())


def _obs_std(rows, form):
    """-> (obs, app, same, problem)"""
    import numpy as np
    import biotite.structure.info as info

    atoms = _mk_atoms(rows, form)
    before = _snapshot(atoms)
    problem = None
    try:
        with warnings.catch_warnings():
            warnings.simplefilter("ignore")
            idx = info.standardize_order(atoms)
    except Exception:
        return ["Rejected", []], [], _snapshot(atoms) == before, None
    if not isinstance(idx, np.ndarray) or idx.ndim != 1 or idx.dtype.kind not in "iu":
        problem = f"result is not a 1-d integer array: {type(idx).__name__} {getattr(idx, 'dtype', None)}"
        return ["ok", []], [], _snapshot(atoms) == before, problem
    out = [int(v) for v in idx]
    app = []
    if sorted(out) == list(range(len(rows))):
        app = atoms[..., idx].atom_name.tolist()
    return ["ok", out], app, _snapshot(atoms) == before, None


def _obs_seq(rows, allow, form, default_arg=False):
    import biotite.structure as struc
    from biotite.sequence import NucleotideSequence, ProteinSequence

    atoms = _mk_atoms(rows, form)
    before = _snapshot(atoms)
    try:
        if default_arg:
            seqs, starts = struc.to_sequence(atoms)
        else:
            seqs, starts = struc.to_sequence(atoms, allow_hetero=allow)
    except Exception:
        return ["Rejected", [], []], _snapshot(atoms) == before
    out = []
    for s in seqs:
        kind = "protein" if isinstance(s, ProteinSequence) else "nucleotide" if isinstance(s, NucleotideSequence) \
            else type(s).__name__
        out.append([kind, list(str(s))])
    return ["ok", out, [int(v) for v in starts]], _snapshot(atoms) == before


def _opt(v):
    return [] if v is None else [v]


def _obs_info(c, els=None):
    """One look-up -> [outcome, value] in the specification's form."""
    import numpy as np
    import biotite.structure as struc
    import biotite.structure.info as info

    op, a = c[0], c[1]
    try:
        if op == "fn":
            return ["ok", _opt(info.full_name(a))]
        if op == "lt":
            return ["ok", _opt(info.link_type(a))]
        if op == "olc":
            return ["ok", _opt(info.one_letter_code(a))]
        if op == "group":
            f = {"amino": info.amino_acid_names, "nuc": info.nucleotide_names, "carb": info.carbohydrate_names,
                 "all": info.all_residues}[a]
            return ["ok", sorted(str(x) for x in f())]
        if op == "res":
            r = info.residue(a)
            bonds = sorted([int(min(i, j)), int(max(i, j)), struc.BondType(int(t)).name]
                           for i, j, t in r.bonds.as_array())
            het = r.hetero.tolist()
            return ["ok", {"names": r.atom_name.tolist(), "elements": r.element.tolist(),
                           "charges": [int(x) for x in r.charge], "resname": _one(r.res_name.tolist(), a),
                           "hetero": _one(het, None), "bonds": bonds}]
        if op == "bir":
            d = info.bonds_in_residue(a)
            return ["ok", sorted([str(k[0]), str(k[1]), struc.BondType(int(v)).name] for k, v in d.items())]
        if op == "bt":
            t = info.bond_type(a, c[2], c[3])
            return ["ok", _opt(None if t is None else struc.BondType(int(t)).name)]
        if op == "mass":
            kw = {} if c[2] == "none" else {"is_residue": c[2] == "true"}
            try:
                m = info.mass(a, **kw)
            except Exception:
                return ["unknown", 0]
            if m is None:
                return ["unknown", 0]
            return ["ok", int(round(float(m) * 1000))]
        if op == "rad":
            v = info.vdw_radius_single(a)
            return ["ok", _opt(None if v is None else int(round(float(v) * 100)))]
        if op == "protor":
            v = info.vdw_radius_protor(a, c[2])
            return ["ok", _opt(None if v is None else int(round(float(v) * 100)))]
        if op == "massarr":
            arr = struc.AtomArray(len(els))
            arr.element = np.array(els, dtype="U2")
            try:
                m = info.mass(arr)
            except Exception:
                return ["unknown", 0]
            return ["ok", int(round(float(m) * 1000))]
    except Exception:
        return ["Rejected", []]
    raise ValueError(op)


def _one(values, default):
    """All atoms of residue() carry the same value: project to it (a mixed column is reported)."""
    s = set(values)
    if len(s) == 1:
        return s.pop()
    return default if not s else "mixed"


# ----------------------------------------------------------------------------- S2 workers
def exec_std(item):
    from harness.tlabind import pool

    _setup(item["ccd"])
    mm, classes, n, nontrivial = [], {}, 0, 0
    for q, case in enumerate(item["cases"]):
        rows, exp, dom = case["rows"], case["exp"], case["dom"]
        pool.progress({"rows": rows})
        for form in ("array", "stack") if (item["k0"] + q) % 3 == 0 else ("array",):
            obs, app, same, problem = _obs_std(rows, form)
            n += 1
            if not dom:
                classes["outside-domain"] = classes.get("outside-domain", 0) + 1
                continue
            bad = problem or obs[0] != exp["oc"] or (exp["oc"] == "ok" and obs[1] != exp["out"]) or not same
            if exp["oc"] == "ok" and not bad:
                bad = app != [rows[i][3] for i in exp["out"]]
            cls = _std_class(rows, exp)
            for c in cls:
                classes[c] = classes.get(c, 0) + 1
            if exp["oc"] != "ok" or exp["out"] != list(range(len(rows))):
                nontrivial += 1
            if bad:
                mm.append({"kind": "standardize", "op": "std", "rows": rows, "form": form, "expected": exp,
                           "observed": obs, "same": same, "problem": problem})
    return {"mismatch": mm, "classes": classes, "n": n, "nontrivial": nontrivial}


def _std_class(rows, exp):
    cls = []
    if exp["oc"] == "Rejected":
        cls.append("duplicate-refused")
    else:
        cls.append("identity" if exp["out"] == list(range(len(rows))) else "reordered")
    names = {r[2] for r in rows}
    if "UNK" in names:
        cls.append("unknown-residue")
    if any(r[3] in ("H1", "H2") for r in rows):
        cls.append("foreign-atom")
    if len({(r[1], r[2]) for r in rows}) > 1:
        cls.append("several-residues")
    return cls


def exec_seq(item):
    from harness.tlabind import pool

    _setup(item["ccd"])
    mm, classes, n, nontrivial = [], {}, 0, 0
    for q, case in enumerate(item["cases"]):
        rows, allow, exp = case["rows"], case["allow"], case["exp"]
        pool.progress({"rows": rows, "allow": allow})
        forms = [("array", False)]
        if (item["k0"] + q) % 4 == 0:
            forms.append(("stack", False))
        if not allow and (item["k0"] + q) % 3 == 0:
            forms.append(("array", True))          # allow_hetero left at its default
        for form, default_arg in forms:
            obs, same = _obs_seq(rows, allow, form, default_arg)
            n += 1
            if exp["oc"] == "ok":
                bad = obs[0] != "ok" or obs[1] != exp["out"]["seqs"] or obs[2] != exp["out"]["starts"]
            else:
                bad = obs[0] != exp["oc"]
            bad = bad or not same
            if bad:
                mm.append({"kind": "to_sequence", "op": "seq", "rows": rows, "allow": allow, "form": form,
                           "default_arg": default_arg, "expected": exp, "observed": obs, "same": same})
        for c in _seq_class(exp, allow):
            classes[c] = classes.get(c, 0) + 1
        if exp["oc"] != "ok" or len(exp["out"]["seqs"]) > 1 or any(
                set(s[1]) & {"X", "N", "C", "K", "T"} for s in exp["out"]["seqs"]):
            nontrivial += 1
    return {"mismatch": mm, "classes": classes, "n": n, "nontrivial": nontrivial}


def _seq_class(exp, allow):
    if exp["oc"] != "ok":
        return ["refused"]
    cls = []
    seqs = exp["out"]["seqs"]
    if len(seqs) > 1:
        cls.append("several-chains")
    for kind, letters in seqs:
        cls.append(kind)
        if kind == "protein" and "X" in letters or kind == "nucleotide" and "N" in letters:
            cls.append("hetero-replaced")
        if kind == "protein" and ("C" in letters or "K" in letters):
            cls.append("sec-pyl-replaced")
        if kind == "nucleotide" and "T" in letters:
            cls.append("uracil-replaced")
    return sorted(set(cls))


def exec_info(item):
    from harness.tlabind import pool

    _setup(item["ccd"])
    mm, classes, n = [], {}, 0
    for case in item["cases"]:
        c, exp = case["c"], case["exp"]
        pool.progress({"c": c})
        for rep in range(2):                        # the second call is answered from the caches
            obs = _obs_info(c, case.get("els"))
            n += 1
            if exp["oc"] == "unknown" and c[0] == "protor":
                bad = obs not in (["ok", []], ["Rejected", []])     # None (documented) or KeyError (code)
            else:
                bad = obs[0] != exp["oc"] or (exp["oc"] == "ok" and obs[1] != exp["out"])
            if bad:
                mm.append({"kind": "info", "op": "info", "c": c, "repeat": rep, "expected": exp, "observed": obs})
        classes[c[0]] = classes.get(c[0], 0) + 1
        if exp["oc"] != "ok" or exp["out"] == []:
            classes["unknown:" + c[0]] = classes.get("unknown:" + c[0], 0) + 1
    return {"mismatch": mm, "classes": classes, "n": n}


# ----------------------------------------------------------------------------- S3 recording
_COMP_ATOMS = None


def record_histories(item):
    """Seeded histories of calls on inputs beyond the exhaustive bounds."""
    import random

    _setup(item["ccd"])
    table = item["table"]
    comp = {c["id"]: [a[0] for a in c["atoms"]] for c in table}
    els = {c["id"]: [a[1] for a in c["atoms"]] for c in table}
    ids = sorted(comp)
    rng = random.Random(item["seed"])
    traces = []
    for _t in range(item["traces"]):
        tr = []
        for _e in range(item["events"]):
            kind = rng.choice(["std", "std", "seq", "seq", "info"])
            if kind == "std":
                rows = _random_std_rows(rng, comp, ids)
                form = rng.choice(["array", "array", "stack"])
                obs, app, same, problem = _obs_std(rows, form)
                tr.append({"op": "std", "rows": rows, "form": form, "obs": obs, "app": app,
                           "same": bool(same and not problem)})
            elif kind == "seq":
                rows = _random_seq_rows(rng, ids)
                allow = rng.random() < 0.6
                form = rng.choice(["array", "array", "stack"])
                obs, same = _obs_seq(rows, allow, form)
                tr.append({"op": "seq", "rows": rows, "allow": allow, "form": form, "obs": obs, "same": bool(same)})
            else:
                c, e = _random_info_call(rng, comp, els, ids)
                ev = {"op": "info", "c": c, "obs": _obs_info(c, e)}
                if e is not None:
                    ev["els"] = e
                tr.append(ev)
        traces.append(tr)
    return {"traces": traces}


def _random_std_rows(rng, comp, ids):
    rows = []
    nres = rng.randint(1, 7)
    chain, rid = "A", rng.randint(1, 5)
    for _ in range(nres):
        name = rng.choice(ids + ["UNK"])
        ref = comp.get(name, ["N", "CA", "C1", "X1"])
        atoms = [a for a in ref if rng.random() < 0.8] or [ref[0]]
        u = rng.random()
        if u < 0.35:
            atoms += rng.sample(["H1", "H2", "HXT", "D1"], rng.randint(1, 3))   # foreign names, each once
        if u > 0.9 and name in comp:
            atoms.append(rng.choice(atoms))                                      # a duplicate
        if rng.random() < 0.8:
            rng.shuffle(atoms)
        for a in atoms:
            rows.append([chain, rid, name, a])
        v = rng.random()
        if v < 0.7:
            rid += 1
        elif v < 0.85:
            chain = chr(ord(chain) + 1) if chain < "Y" else "A"
        # else: the next residue keeps chain and residue id (distinguished by its name only)
    return rows


def _random_seq_rows(rng, ids):
    rows = []
    pool_names = rng.choice([
        ["ALA", "GLY", "SEC", "PYL"], ["DA", "DG", "U"], ["ALA", "GLY", "XAA", "LIG", "DA"],
        ["DA", "U", "ALA", "NPA", "HOH"], ids + ["UNK"], ["LIG", "HOH", "MAN", "UNK", "ALA"]])
    chain, rid = "A", rng.randint(1, 20)
    for _ in range(rng.randint(1, 10)):
        name = rng.choice(pool_names)
        for a in ["N", "CA", "C"][: rng.randint(1, 3)]:
            rows.append([chain, rid, name, a])
        v = rng.random()
        if v < 0.7:
            rid += 1
        elif v < 0.82:
            chain = chr(ord(chain) + 1) if chain < "Y" else "A"
            rid += 1
        elif v < 0.92:
            rid -= rng.randint(1, 3)
        # else: same chain and residue id
    return rows


def _random_info_call(rng, comp, els, ids):
    op = rng.choice(["fn", "lt", "olc", "group", "res", "bir", "bt", "mass", "rad", "massarr", "protor", "protor"])
    qn = ids + ["UNK", "ala", "Ala", "lig", "u", "unk"]
    en = ["H", "C", "N", "O", "U", "SE", "P", "NA", "c", "se", "Se", "u", "ALA", "ala", "LIG", "UNK", "XX", "xx", "DA", "HOH"]
    if op in ("fn", "lt", "olc"):
        return [op, rng.choice(qn), "", ""], None
    if op == "group":
        return [op, rng.choice(["amino", "nuc", "carb", "all"]), "", ""], None
    if op in ("res", "bir"):
        return [op, rng.choice(ids + ["UNK"]), "", ""], None
    if op == "bt":
        n = rng.choice(ids + ["UNK"])
        names = comp.get(n, ["N", "CA"]) + ["FOO"]
        return [op, n, rng.choice(names), rng.choice(names)], None
    if op == "protor":
        n = rng.choice([i for i in ids if i != "SEC"] + ["UNK", "ala", "lig"])
        names = comp.get(n.upper(), ["N", "CA"]) + ["FOO", "H", "HA2"]
        return [op, n, rng.choice(names), ""], None
    if op == "mass":
        return [op, rng.choice(en), rng.choice(["none", "true", "false"]), ""], None
    if op == "rad":
        return [op, rng.choice(en), "", ""], None
    e = [rng.choice(["H", "C", "N", "O", "SE", "P", "NA", "U"]) for _ in range(rng.randint(1, 12))]
    if rng.random() < 0.1:
        e.append("XX")
    return [op, "", "", ""], e


# ----------------------------------------------------------------------------- stages
def run(ctx):
    from harness.tlabind import helpers
    from harness.tlabind import tlc as T
    from harness.tlabind.core import Vacuity

    tier = "" if ctx.quick else "_thorough"
    ctx.assumptions += [
        "the Chemical Component Dictionary is the synthetic table CCD of ResInfo.tla (13 components), written as BinaryCIF "
        "by biotite's own writer and installed with set_ccd_path(); the BinaryCIF reader/writer is trusted here (C08/C10)",
        "Dom_Rows: at least one atom; rows <<chain_id, res_id, res_name, atom_name>>, no insertion codes, no sym_id",
        "Dom_Std: duplicate atom names that the reference residue does not list (or inside residues unknown to the "
        "dictionary) are outside the decided domain (documentation: BadStructureError; code: kept) - NOTES.md O1",
        "unknown residues keep their order (the code warns; the warning itself is not judged)",
        "to_sequence: a chain with as many nucleotides as amino acids is a nucleic acid (code; the documentation is silent)",
        "mass of an unknown name: None (documented Returns) and an exception (code: KeyError) are both accepted",
        "Dom_Element: masses / radii are compared on an excerpt of the element tables (H C N O U SE P NA) and on names "
        "that are no element; values in thousandths of u / hundredths of an Angstrom",
        "Dom_Protor: vdw_radius_protor on atoms whose one-letter element is the first character of the atom name "
        "(the code reads the element and the hydrogens off that character); unknown residue / atom without bonds: "
        "None (documented) and KeyError (code) are both accepted",
        "sets (group names, bonds) are compared as sets; the hetero flag of residue() follows the fixed list in info/atoms.py",
        "trusted: TLC, the TLA+ value parser, the projections of arrays / sequences to lists, numpy",
    ]
    ctx.cov["rule"] = ("non-trivial = standardize_order input whose answer is not the identity (or a refusal); "
                       "to_sequence input that is refused, has several chains or a replaced symbol (X N C K T)")

    # ------------------------------------------------------------ S1: the three models
    ires, istates = helpers.dump_states(ctx, "MCInfo", "MCInfo.cfg", stage="S1-info", workers=2, timeout=300)
    idone = [s for s in istates if s["phase"] == 1]
    table = [s["r"]["out"] for s in idone if s["c"][0] == "table"]
    if len(table) != 1 or len(table[0]) < 10:
        raise Vacuity("MCInfo did not hand out the dictionary table")
    table = table[0]
    ccd_dir = T.scratch_dir("x10ccd")
    ccd = os.path.join(ccd_dir, "ccd_x10.bcif")
    helpers.run_pool(ctx, "harness.drivers.x10:write_ccd", [{"table": table, "path": ccd}], stage="S2-table")
    if not os.path.exists(ccd):
        raise RuntimeError("dictionary file was not written")

    sres, sstates = helpers.dump_states(ctx, "MCStd", f"MCStd{tier}.cfg", stage="S1-std", workers=8, timeout=1500)
    qres, qstates = helpers.dump_states(ctx, "MCSeq", f"MCSeq{tier}.cfg", stage="S1-seq", workers=8, timeout=1500)
    ctx.exhaustive = True

    # ------------------------------------------------------------ S2: info
    icases = sorted(({"c": s["c"], "exp": s["r"]} for s in idone if s["c"][0] != "table"), key=lambda x: x["c"])
    for case in icases:
        if case["c"][0] == "massarr":
            case["els"] = [a[1] for c in table if c["id"] == case["c"][1] for a in c["atoms"]]
    ctx.rng.shuffle(icases)                          # the order of the calls is a seeded history
    items = [{"ccd": ccd, "cases": ch} for ch in helpers.chunked(icases, 200)]
    results = helpers.run_pool(ctx, "harness.drivers.x10:exec_info", items, stage="S2-info", env={"X10_CCD": ccd})
    iclasses = _merge(results)
    n_info = sum(r.get("n", 0) for r in results)
    need = ["protor", "unknown:protor", "fn", "lt", "olc", "group", "res", "bir", "bt", "mass", "rad", "massarr",
            "unknown:fn", "unknown:olc", "unknown:res", "unknown:mass", "unknown:rad", "unknown:bt"]
    missing = [c for c in need if not iclasses.get(c)]
    if missing or n_info != 2 * len(icases):
        raise Vacuity(f"S2-info: never exercised: {missing} ({n_info} calls for {len(icases)} cases)")
    ctx.cov["s2_info_classes"] = dict(sorted(iclasses.items()))
    ctx.traces_validated += len(icases)
    ctx.evaluations += n_info
    ctx.log(f"S2-info: {len(icases)} look-ups, each twice: {dict(sorted(iclasses.items()))}")

    # ------------------------------------------------------------ S2: standardize_order
    scases = sorted(({"rows": s["rows"], "exp": s["r"], "dom": s["dom"]} for s in sstates if s["phase"] == 1),
                    key=lambda x: repr(x["rows"]))
    items = [{"ccd": ccd, "cases": ch, "k0": k * 150} for k, ch in enumerate(helpers.chunked(scases, 150))]
    results = helpers.run_pool(ctx, "harness.drivers.x10:exec_std", items, stage="S2-std", item_timeout=120, env={"X10_CCD": ccd})
    sclasses = _merge(results)
    need = ["identity", "reordered", "duplicate-refused", "unknown-residue", "foreign-atom", "several-residues",
            "outside-domain"]
    missing = [c for c in need if not sclasses.get(c)]
    n_std = sum(r.get("n", 0) for r in results)
    if missing or n_std < len(scases):
        raise Vacuity(f"S2-std: classes never exercised: {missing} ({n_std} calls for {len(scases)} cases)")
    ctx.cov["s2_std_classes"] = dict(sorted(sclasses.items()))
    ctx.cov["s2_std_cases"] = len(scases)
    ctx.traces_validated += len(scases)
    ctx.evaluations += n_std
    ctx.nontrivial += sum(r.get("nontrivial", 0) for r in results)
    ctx.sample({"std": scases[len(scases) // 2]})
    ctx.log(f"S2-std: {len(scases)} arrays, {n_std} calls: {dict(sorted(sclasses.items()))}")

    # ------------------------------------------------------------ S2: to_sequence
    qcases = sorted(({"rows": s["rows"], "allow": s["allow"], "exp": s["r"]} for s in qstates if s["phase"] == 1),
                    key=lambda x: (repr(x["rows"]), x["allow"]))
    items = [{"ccd": ccd, "cases": ch, "k0": k * 200} for k, ch in enumerate(helpers.chunked(qcases, 200))]
    results = helpers.run_pool(ctx, "harness.drivers.x10:exec_seq", items, stage="S2-seq", item_timeout=120, env={"X10_CCD": ccd})
    qclasses = _merge(results)
    need = ["refused", "several-chains", "protein", "nucleotide", "hetero-replaced", "sec-pyl-replaced", "uracil-replaced"]
    missing = [c for c in need if not qclasses.get(c)]
    n_seq = sum(r.get("n", 0) for r in results)
    if missing or n_seq < len(qcases):
        raise Vacuity(f"S2-seq: classes never exercised: {missing} ({n_seq} calls for {len(qcases)} cases)")
    ctx.cov["s2_seq_classes"] = dict(sorted(qclasses.items()))
    ctx.cov["s2_seq_cases"] = len(qcases)
    ctx.traces_validated += len(qcases)
    ctx.evaluations += n_seq
    ctx.nontrivial += sum(r.get("nontrivial", 0) for r in results)
    ctx.sample({"seq": qcases[len(qcases) // 2]})
    ctx.log(f"S2-seq: {len(qcases)} structures, {n_seq} calls: {dict(sorted(qclasses.items()))}")

    # ------------------------------------------------------------ S3: recorded histories
    ntr, nev = (16, 40) if ctx.quick else (64, 150)
    items = [{"ccd": ccd, "table": table, "seed": ctx.seed * 1000 + k, "traces": 1, "events": nev} for k in range(ntr)]
    results = helpers.run_pool(ctx, "harness.drivers.x10:record_histories", items, stage="S3-record", item_timeout=300, env={"X10_CCD": ccd})
    traces = [tr for r in results for tr in r.get("traces", [])]
    ops = {}
    outcomes = {}
    for tr in traces:
        for e in tr:
            ops[e["op"]] = ops.get(e["op"], 0) + 1
            outcomes[e["op"] + ":" + e["obs"][0]] = outcomes.get(e["op"] + ":" + e["obs"][0], 0) + 1
    need = ["std:ok", "std:Rejected", "seq:ok", "seq:Rejected", "info:ok", "info:unknown"]
    missing = [c for c in need if not outcomes.get(c)]
    if missing and not ctx.violations:       # (observed outcomes: with violations at hand they are no machinery failure)
        raise Vacuity(f"S3: outcomes never recorded: {missing}")
    ctx.cov["s3_outcomes"] = dict(sorted(outcomes.items()))
    mms = helpers.tlc_validate(ctx, traces, timeout=900)
    for m in mms:
        tid, li = m[1], m[2]
        ev = traces[tid - 1][li - 1]
        ctx.mismatch({"stage": "S3", "kind": {"std": "standardize", "seq": "to_sequence", "info": "info"}[ev["op"]],
                      "event": ev, "flags": m[3], "expected": m[4] if len(m) > 4 else None})
    nev_total = sum(len(t) for t in traces)
    ctx.traces_validated += len(traces)
    ctx.evaluations += nev_total
    ctx.log(f"S3: {len(traces)} histories, {nev_total} events validated by Trace.tla: {dict(sorted(outcomes.items()))}")

    # ------------------------------------------------------------ binding self-test
    def corrupt(tr):
        changed = False
        for e in tr:
            if e["op"] == "std" and e["obs"][0] == "ok" and len(e["obs"][1]) >= 2 and not changed:
                e["obs"][1][0], e["obs"][1][1] = e["obs"][1][1], e["obs"][1][0]
                changed = True
            elif e["op"] == "seq" and e["obs"][0] == "ok" and e["obs"][1] and e["obs"][1][0][1]:
                e["obs"][1][0][1][0] = "G" if e["obs"][1][0][1][0] != "G" else "A"
                changed = True
                break
        return changed

    helpers.binding_selftest(ctx, traces, corrupt)


def _merge(results):
    out = {}
    for r in results:
        for c, k in r.get("classes", {}).items():
            out[c] = out.get(c, 0) + k
    return out


def _n_chains(rows):
    n = 1
    for a, b in zip(rows, rows[1:]):
        if a[0] != b[0] or b[1] < a[1]:
            n += 1
    return n


def classify(mm):
    """X10-to-sequence-stack-slices-models: to_sequence on an AtomArrayStack with >= 2 chains; observed a
    refusal or the same (whole-structure) sequence for every chain, chain starts as specified."""
    ev = mm.get("event", mm)
    if mm.get("kind") != "to_sequence" or ev.get("op") != "seq" or ev.get("form") != "stack":
        return None
    if ev.get("same") is False or _n_chains(ev.get("rows", [])) < 2:
        return None
    obs = ev.get("observed", ev.get("obs"))
    if not obs:
        return None
    if obs[0] == "Rejected":
        return "X10-to-sequence-stack-slices-models"
    exp = mm.get("expected") or {}
    seqs = obs[1]
    if obs[0] == "ok" and len(seqs) == _n_chains(ev["rows"]) and all(s == seqs[0] for s in seqs):
        if exp.get("oc") == "ok" and obs[2] != exp["out"]["starts"]:
            return None
        return "X10-to-sequence-stack-slices-models"
    return None


def replay(record):
    """Re-execute one stored mismatch record against the real code (needs the dictionary file: it is
    rebuilt from the table through TLC only in run(); here the record's own expected value is used)."""
    path = CCD_COPY
    if not os.path.exists(path):
        return {"mismatch": None, "note": "no dictionary file; run ./check X10 once on the unchanged tree"}
    _setup(path)
    ev = record.get("event", record)
    if ev.get("op") == "std":
        obs, app, same, problem = _obs_std(ev["rows"], ev.get("form", "array"))
        exp = record.get("expected") or {}
        return {"mismatch": bool(problem) or not same or obs[0] != exp.get("oc") or
                (exp.get("oc") == "ok" and obs[1] != exp.get("out")), "observed": obs}
    if ev.get("op") == "seq":
        obs, same = _obs_seq(ev["rows"], ev["allow"], ev.get("form", "array"))
        exp = record.get("expected") or {}
        return {"mismatch": not same or obs[0] != exp.get("oc"), "observed": obs}
    if ev.get("op") == "info":
        obs = _obs_info(ev["c"], ev.get("els"))
        exp = record.get("expected") or {}
        return {"mismatch": obs[0] != exp.get("oc") or (exp.get("oc") == "ok" and obs[1] != exp.get("out")),
                "observed": obs}
    return {"mismatch": None}
