"""C10 — k-mer indices find exactly the matching k-mers; selectors obey their definitions.

S1  TLC checks specs/C10/MCKmer.tla: rolling k-mer codes = definition, k-mer mask = overlap
    definition, branch-and-bound neighbourhood = score definition, every query on the bucket
    layer (buckets 1,2,3,7 and one-per-code, merged, pickled) = set comprehension on the abstract
    table, van Herk minimizer = leftmost window minimum, syncmer route = definition.
S2  every (input, expected) state of that model is executed against biotite: KmerAlphabet,
    KmerTable and BucketKmerTable built in six ways, match / match_table / match_kmer_selection /
    count / lookup / get_kmers / iteration / pickling, Minimizer / Syncmer / CachedSyncmer /
    Mincode selectors without and with FrequencyPermutation.  Families added by the
    strengthening round: "similar" (every symmetric score matrix over a value set x every
    threshold -> ScoreThresholdRule.similar_kmers of every k-mer, match / match_table on a table
    holding every k-mer once), table group 5 and "seltab" (reference ids, stored positions and
    given positions are uint32 labels at the limits of every width, 2^w - 1 / 2^w, 2^32 - 1).
    Family "forms" (specs/C10/ArrayForm.tla): the MEMORY FORM of every array argument - k-mer
    codes, positions, (n, 2) position arrays, reference ids, ignore / k-mer masks, sequence
    codes, spacing models, score matrices, selector keys and counts - is an input dimension: TLC
    lays each argument out as a view (buffer, offset, strides, dtype, read-only flag, list) in
    every named stride pattern (offset slice, steps, reversed, Fortran order, column / row slices
    of wider arrays), the driver builds exactly that memory, the answers are those of the value
    the view denotes, and the caller's buffers must be unchanged afterwards.
S3  seeded sessions on longer sequences, larger alphabets (incl. k-mer codes beyond 32 bit),
    more references, random masks, RandomPermutation orders are recorded and re-computed by TLC
    (specs/C10/Trace.tla).  Array arguments of the recorded calls are handed over in random
    memory forms (logged as views, TLC checks that a view denotes the logged argument), and tables
    are restored with KmerTable.from_positions from (n, 2) arrays in random forms / dtypes.
"""

from __future__ import annotations

import os
import pickle
import random

PROPERTY = "C10"
KF_SPACED_MASK = "C10-spaced-kmer-mask"
KF_LOOKUP32 = "C10-bucket-lookup-32bit"
KF_MINCODE_MASK = "C10-mincode-returns-mask"

BUCKETS = (1, 2, 3, 7)


# --------------------------------------------------------------------------- real side
def _np():
    import numpy as np

    return np


def _mods():
    import biotite.sequence as seq
    import biotite.sequence.align as align

    return seq, align


_ALPH = {}


def alphabet(A):
    """Base alphabet with A symbols; symbol code c is the specification's symbol c."""
    seq, _ = _mods()
    a = _ALPH.get(A)
    if a is None:
        if A <= 26:
            a = seq.LetterAlphabet([chr(ord("A") + i) for i in range(A)])
        else:
            a = seq.Alphabet(list(range(A)))
        _ALPH[A] = a
    return a


def mkseq(A, codes, dtype=None):
    seq, _ = _mods()
    np = _np()
    s = seq.GeneralSequence(alphabet(A))
    if dtype is None:
        dtype = np.uint8 if A <= 256 else (np.uint16 if A <= 65536 else np.uint32)
    s.code = np.array(codes, dtype=dtype)
    return s


def spacing_arg(sp):
    """None for continuous k-mers (the common call), the model otherwise."""
    return None if list(sp) == list(range(len(sp))) else [int(x) for x in sp]


def kmer_alphabet(A, sp):
    _, align = _mods()
    return align.KmerAlphabet(alphabet(A), len(sp), spacing_arg(sp))


def code_of(km, A):
    """Trusted concretisation: k-mer tuple -> k-mer code (KmerIndex!KmerCode, in Python ints)."""
    c = 0
    for x in km:
        c = c * A + int(x)
    return c


def kmer_of(code, A, k):
    out = []
    for _ in range(k):
        out.append(int(code % A))
        code //= A
    return out[::-1]


# ---- labels: reference ids / explicit positions are uint32 labels; the specification writes a
# label beyond TLC's integers as <<"u32", hi, lo>> (KmerIndex!U32).  Trusted concretisation,
# like code_of / kmer_of.
def is_label(x):
    return isinstance(x, (list, tuple)) and len(x) == 3 and x[0] == "u32"


def unlabel(x):
    """label or plain integer -> Python int"""
    return (int(x[1]) << 16) + int(x[2]) if is_label(x) else int(x)


def delabel(x):
    """Replace every label inside a parsed TLC value by its integer."""
    if is_label(x):
        return unlabel(x)
    if isinstance(x, dict):
        return {k: delabel(v) for k, v in x.items()}
    if isinstance(x, (list, tuple)):
        return [delabel(v) for v in x]
    return x


def enlabel(n):
    """Integer reported by the real code -> label.  A value outside 0..2^32-1 (which no correct
    table can report) becomes a label outside Dom_Label, different from every valid one."""
    n = int(n)
    if 0 <= n < 2 ** 32:
        return ["u32", n >> 16, n & 0xFFFF]
    return ["u32", 65536 + ((n >> 16) & 0xFFFF), n & 0xFFFF]


def _lab_cols(rows, cols):
    return [[enlabel(v) if i in cols else v for i, v in enumerate(r)] for r in rows]


def mask_arg(om, n=None):
    np = _np()
    if om is None or len(om) == 0:
        return None
    return np.array([bool(x) for x in om[0]], dtype=bool)


def rule_arg(rule, A):
    _, align = _mods()
    np = _np()
    if rule is None or len(rule) == 0:
        return None
    r = rule[0]
    n = len(r["M"])     # the matrix may be defined over a larger alphabet that extends the table's
    M = align.SubstitutionMatrix(alphabet(n), alphabet(n), np.array(r["M"], dtype=np.int32))
    return align.ScoreThresholdRule(M, int(r["t"]))


def _call(fn):
    try:
        return ["ok", fn()]
    except Exception as e:  # noqa: BLE001
        return ["Rejected", type(e).__name__]


def table_class(nb):
    _, align = _mods()
    return align.KmerTable if nb == 0 else align.BucketKmerTable


def build_from_sequences(A, sp, refs, nb):
    """nb = 0: KmerTable, else BucketKmerTable with nb buckets."""
    cls = table_class(nb)
    seqs = [mkseq(A, r["seq"]) for r in refs]
    ids = [unlabel(r["id"]) for r in refs]
    masks = [mask_arg(r["mask"]) for r in refs]
    kw = {"ref_ids": ids, "spacing": spacing_arg(sp), "alphabet": alphabet(A)}
    if any(m is not None for m in masks):
        kw["ignore_masks"] = masks
    if nb:
        kw["n_buckets"] = nb
    return cls.from_sequences(len(sp), seqs, **kw)


def build_from_kmers(A, sp, arrays, ids, keeps, nb):
    np = _np()
    cls = table_class(nb)
    ka = kmer_alphabet(A, sp)
    ks = [np.array([code_of(km, A) for km in arr], dtype=np.int64) for arr in arrays]
    ms = [np.array([bool(x) for x in k], dtype=bool) for k in keeps]
    kw = {"ref_ids": [int(i) for i in ids], "masks": ms}
    if nb:
        kw["n_buckets"] = nb
    return cls.from_kmers(ka, ks, **kw)


def build_from_selection(A, sp, arrays, ids, keeps, nb):
    np = _np()
    cls = table_class(nb)
    ka = kmer_alphabet(A, sp)
    pos, ks = [], []
    for arr, keep in zip(arrays, keeps):
        sel = [i for i, kp in enumerate(keep) if kp]
        pos.append(np.array(sel, dtype=np.uint32))
        ks.append(np.array([code_of(arr[i], A) for i in sel], dtype=np.int64))
    kw = {"ref_ids": [int(i) for i in ids]}
    if nb:
        kw["n_buckets"] = nb
    return cls.from_kmer_selection(ka, pos, ks, **kw)


def build_from_positions(A, sp, T):
    np = _np()
    _, align = _mods()
    ka = kmer_alphabet(A, sp)
    d = {}
    for km, ref, pos in T:
        d.setdefault(code_of(km, A), []).append([int(ref), int(pos)])
    return align.KmerTable.from_positions(ka, {c: np.array(v, dtype=np.uint32) for c, v in d.items()})


def build_from_tables(A, sp, refs, nb):
    cls = table_class(nb)
    parts = [build_from_sequences(A, sp, [r], nb) for r in refs]
    if not parts:
        parts = [build_from_sequences(A, sp, [], nb)]
    return cls.from_tables(parts)


def content(table, A, k):
    """Projection of a real table to the abstract T: sorted list of [kmer tuple, ref, pos],
    read with get_kmers() + match_kmer_selection (one probe per stored k-mer; this route does
    not use __getitem__, which is compared separately)."""
    np = _np()
    codes = table.get_kmers()
    rows = table.match_kmer_selection(np.arange(len(codes), dtype=np.uint32), codes.astype(np.int64))
    out = [[kmer_of(int(codes[int(i)]), A, k), int(ref), int(pos)] for i, ref, pos in rows.tolist()]
    return sorted(out)


def _rows(arr):
    return [[int(x) for x in row] for row in arr.tolist()]


# --------------------------------------------------------------------------- comparison helpers
def _canon(rows):
    return sorted(_deep_tuple(r) for r in rows)


def _deep_tuple(x):
    return tuple(_deep_tuple(y) for y in x) if isinstance(x, (list, tuple)) else x


def same_set(obs_rows, exp_rows):
    """Observed rows are exactly the expected set, without duplicates."""
    o = _canon(obs_rows)
    return o == _canon(exp_rows) and len(set(o)) == len(o)


def _mm(family, op, inp, args, exp, obs, **kw):
    d = {"kind": "case", "family": family, "op": op, "inp": inp, "args": args, "expected": exp, "observed": obs}
    d.update(kw)
    return d


# --------------------------------------------------------------------------- S2: one state
def run_kmers(inp, exp):
    np = _np()
    A, s, sp = inp["A"], inp["s"], inp["sp"]
    mism, calls = [], 0
    for dt in (np.uint8, np.uint16, np.uint32, np.uint64):
        ka = kmer_alphabet(A, sp)
        obs = _call(lambda: [int(x) for x in ka.create_kmers(np.array(s, dtype=dt)).tolist()])
        calls += 1
        e = exp["r"]
        ok = (obs[0] == "Rejected") if e["oc"] == "Rejected" else (obs[0] == "ok" and obs[1] == e["out"])
        if ok and e["oc"] == "ok":
            n = _call(lambda: int(ka.kmer_array_length(len(s))))
            calls += 1
            if n != ["ok", exp["n"]]:
                mism.append(_mm("kmers", "kmer_array_length", inp, {}, exp["n"], n))
        if not ok:
            mism.append(_mm("kmers", "create_kmers", inp, {"dtype": np.dtype(dt).name}, e, obs))
    return mism, calls


def run_mask(inp, exp):
    """The k-mer mask observed through from_sequences (table positions) and match (query positions)
    on a constant sequence."""
    m, sp = inp["m"], inp["sp"]
    n = len(m)
    refs_masked = [{"id": 0, "seq": [0] * n, "mask": [m]}]
    refs_plain = [{"id": 0, "seq": [0] * n, "mask": []}]
    mism, calls = [], 0
    spaced = spacing_arg(sp) is not None
    for nb in (0, 3):
        obs = _call(lambda: sorted(p for _km, _r, p in content(build_from_sequences(2, sp, refs_masked, nb), 2, len(sp))))
        calls += 1
        if obs != ["ok", exp["kept"]]:
            mism.append(_mm("mask", "from_sequences", inp, {"nb": nb}, exp["kept"], obs,
                            kb_spaced_mask=bool(spaced and exp["kb"])))
        obs = _call(lambda: sorted({int(r[0]) for r in build_from_sequences(2, sp, refs_plain, nb)
                                    .match(mkseq(2, [0] * n), ignore_mask=mask_arg([m])).tolist()}))
        calls += 1
        if obs != ["ok", exp["kept"]]:
            mism.append(_mm("mask", "match", inp, {"nb": nb}, exp["kept"], obs,
                            kb_spaced_mask=bool(spaced and exp["kb"])))
    return mism, calls


def _has_true(om):
    return bool(om) and any(om[0])


def _given(om):
    """An ignore mask is given (KB_SpacedMask does not ask for a True entry: the defect reads
    behind short masks)."""
    return bool(om)


def safe_content(t, A, k):
    """content() of a possibly corrupt table: an exception is an observation, not a driver error."""
    r = _call(lambda: content(t, A, k))
    return r[1] if r[0] == "ok" else ["unreadable", r[1]]


def build_table(A, sp, how, nb, refs=None, kb=None, T=None):
    """One of the six ways of making a table. `kb` = {"arrays","ids","keeps"} for the builders
    that take k-mer arrays (values from the specification)."""
    if how == "sequences":
        return build_from_sequences(A, sp, refs, nb)
    if how == "kmers":
        return build_from_kmers(A, sp, kb["arrays"], kb["ids"], kb["keeps"], nb)
    if how == "selection":
        return build_from_selection(A, sp, kb["arrays"], kb["ids"], kb["keeps"], nb)
    if how == "tables":
        return build_from_tables(A, sp, refs, nb)
    if how == "positions":
        return build_from_positions(A, sp, T)
    if how == "pickle":
        return pickle.loads(pickle.dumps(build_from_sequences(A, sp, refs, nb)))
    raise ValueError(how)


def table_query(t, A, sp, nb, op, args):
    """One query of a real table -> [oc, canonical value]."""
    np = _np()
    if op == "match":
        return _call(lambda: _rows(t.match(mkseq(A, args["q"]), similarity_rule=rule_arg(args["rule_spec"], A),
                                           ignore_mask=mask_arg(args["mask"]))))
    if op == "match_table":
        return _call(lambda: _rows(t.match_table(build_from_sequences(A, sp, args["other"], nb),
                                                 similarity_rule=rule_arg(args["rule_spec"], A))))
    if op == "match_kmer_selection":
        return _call(lambda: _rows(t.match_kmer_selection(
            np.array(args["pos"], dtype=np.uint32),
            np.array([code_of(km, A) for km in args["kmers"]], dtype=np.int64))))
    if op == "count":
        return _call(lambda: [int(x) for x in t.count(
            np.array([code_of(km, A) for km in args["kmers"]], dtype=np.int64)).tolist()])
    if op == "get_kmers":
        return _call(lambda: [int(x) for x in t.get_kmers().tolist()])
    if op == "lookup":
        return _call(lambda: _rows(t[code_of(args["kmer"], A)]))
    if op == "count_all/iter/contains/len":
        codes = [code_of(km, A) for km in args["kmers"]]
        return _call(lambda: [[int(x) for x in t.count().tolist()], [int(x) for x in t],
                              [c for c in codes if c in t], len(t)])
    raise ValueError(op)


def query_agrees(op, exp, obs):
    if op == "match" and isinstance(exp, dict) and exp.get("oc") == "RejectedOrEmpty":
        return obs[0] == "Rejected" or obs[1] == []
    want = exp["out"] if (op == "match" and isinstance(exp, dict)) else exp
    if obs[0] != "ok":
        return False
    if op in ("match", "match_table", "match_kmer_selection", "lookup"):
        return same_set(obs[1], want)
    return obs[1] == want


def run_table(inp, exp):
    A, sp, refs = inp["A"], inp["sp"], inp["refs"]
    k = exp["k"]
    T = sorted(exp["T"])
    spaced = exp["spaced"]
    mism, calls = [], 0
    long_refs = [r for r, pr in zip(refs, exp["perRef"]) if not pr["short"]]
    long_pr = [pr for pr in exp["perRef"] if not pr["short"]]
    kb = {"arrays": [pr["kmers"] for pr in long_pr], "keeps": [pr["keep"] for pr in long_pr],
          "ids": [r["id"] for r in long_refs]}
    kb_build = bool(spaced and any(pr["kb"] for pr in exp["perRef"]))
    all_kmers = [km for km, _c in exp["codes"]]
    present = sorted(code_of(km, A) for km in exp["present"])
    for nb in (0,) + BUCKETS:
        tabs, origin = {}, {}

        def made(how, built_refs, expect_reject_ok=False, kbflag=False):
            nonlocal calls
            if how == "pickle":     # pickle the table that was just verified (no second build)
                r = _call(lambda: pickle.loads(pickle.dumps(tabs["sequences"])))
            else:
                r = _call(lambda: build_table(A, sp, how, nb, refs=built_refs, kb=kb, T=T))
            calls += 1
            args = {"nb": nb, "built": how, "refs": built_refs, "kb": kb if how in ("kmers", "selection") else None}
            if r[0] != "ok":
                if not expect_reject_ok:
                    mism.append(_mm("table", "build", inp, args, T, r, kb_spaced_mask=kbflag))
                return
            c = safe_content(r[1], A, k)
            if c != T:
                mism.append(_mm("table", "build", inp, args, T, c, kb_spaced_mask=kbflag))
                return
            if how == "pickle" and not (r[1] == tabs["sequences"]):
                mism.append(_mm("table", "pickle_equal", inp, args, True, False))
            tabs[how] = r[1]
            origin[how] = args

        made("sequences", refs, expect_reject_ok=exp["build"]["oc"] == "RejectedOrEmpty", kbflag=kb_build)
        made("kmers", None)
        made("selection", None)
        if not kb_build:
            made("tables", long_refs)
        if nb == 0:
            made("positions", None)
        if "sequences" in tabs:
            made("pickle", refs, kbflag=kb_build)
        base_name = "sequences" if "sequences" in tabs else ("kmers" if "kmers" in tabs else None)
        if base_name is None:
            continue

        def ask(bname, op, args, want, **kw):
            nonlocal calls
            obs = table_query(tabs[bname], A, sp, nb, op, args)
            calls += 1
            if not query_agrees(op, want, obs):
                mism.append(_mm("table", op, inp, dict(args, table=origin[bname]), want, obs, **kw))

        # ---- counting / lookup / iteration: one table per origin ------------------------------
        for bname in tabs:
            if bname in ("kmers", "selection", "positions") and bname != base_name:
                continue
            ask(bname, "count", {"kmers": all_kmers}, exp["counts"])
            ask(bname, "get_kmers", {}, present)
            if nb == 0:
                ask(bname, "count_all/iter/contains/len", {"kmers": all_kmers},
                    [exp["counts"], present, present, len(all_kmers)])
            for km, want in zip(all_kmers, exp["lookups"]):
                ask(bname, "lookup", {"kmer": km}, want)
        # ---- matching ------------------------------------------------------------------------
        for bname in (base_name, "tables", "pickle"):
            if bname not in tabs:
                continue
            for qi, qq in enumerate(exp["queries"]):
                if bname != base_name and qq["rule"] != 2 and len(qq["mask"]) == 0 and qi % 3:
                    continue   # merged / unpickled tables: a third of the plain queries, all others
                ask(bname, "match", {"q": qq["q"], "mask": qq["mask"], "rule_spec": exp["rules"][qq["rule"] - 1]},
                    qq["res"], kb_spaced_mask=bool(spaced and _given(qq["mask"])))
            for ri, want in enumerate(exp["tmatch"]):
                ask(bname, "match_table", {"other": exp["other"], "rule_spec": exp["rules"][ri]}, want)
            ask(bname, "match_kmer_selection", {"pos": exp["sel"]["pos"], "kmers": exp["sel"]["kmers"]},
                exp["sel"]["out"])
    return mism, calls


def _sel_obs(res):
    """(positions, kmers) returned by a selector -> canonical dict; a boolean mask in place of
    the positions is reported as such."""
    np = _np()
    pos, kmers = res
    pos = np.asarray(pos)
    d = {"kmers": [int(x) for x in np.asarray(kmers).tolist()]}
    if pos.dtype == bool:
        d["mask"] = [bool(x) for x in pos.tolist()]
    else:
        d["pos"] = [int(x) for x in pos.tolist()]
    return d


def sel_agree(e, obs):
    if e["oc"] == "Rejected":
        return obs[0] == "Rejected"
    return obs[0] == "ok" and obs[1] == e["out"]


def _freq_perm(ka, counts):
    _, align = _mods()
    np = _np()
    return align.FrequencyPermutation(ka, np.array(counts, dtype=np.int64))


def run_mini(inp, exp):
    _, align = _mods()
    np = _np()
    row, w = inp["row"], inp["w"]
    ka = kmer_alphabet(2, [0, 1])
    mism, calls = [], 0
    for name, perm in (("plain", None), ("freq", _freq_perm(ka, exp["counts"]))):
        obs = _call(lambda: _sel_obs(align.MinimizerSelector(ka, w, perm).select_from_kmers(
            np.array(row, dtype=np.int64))))
        calls += 1
        if not sel_agree(exp[name], obs):
            mism.append(_mm("mini", "minimizer.select_from_kmers", inp, {"order": name}, exp[name], obs))
    return mism, calls


def run_select(inp, exp):
    _, align = _mods()
    np = _np()
    A, s = inp["A"], inp["s"]
    al = alphabet(A)
    q = mkseq(A, s)
    ka2 = kmer_alphabet(A, [0, 1])
    fperm = _freq_perm(ka2, exp["counts2"])
    mism, calls = [], 0

    def check(op, args, e, fn, **kw):
        nonlocal calls
        obs = _call(lambda: _sel_obs(fn()))
        calls += 1
        if not sel_agree(e, obs):
            mism.append(_mm("select", op, inp, args, e, obs, **kw))

    for m in exp["mini"]:
        w = m["w"]
        for name, perm in (("plain", None), ("freq", fperm)):
            check("minimizer.select", {"w": w, "order": name}, m[name],
                  lambda: align.MinimizerSelector(ka2, w, perm).select(q))
    for sy in exp["sync"]:
        o = tuple(sy["o"])
        for key, k, perm in (("k3", 3, None), ("k3f", 3, fperm), ("k4", 4, None)):
            e = sy[key]
            args = {"k": k, "s": 2, "offset": list(o), "order": "freq" if perm is not None else "plain"}
            check("syncmer.select", args, e, lambda: align.SyncmerSelector(al, k, 2, perm, o).select(q))
            check("cached_syncmer.select", args, e, lambda: align.CachedSyncmerSelector(al, k, 2, perm, o).select(q))
            if e["oc"] == "ok":
                kk = kmer_alphabet(A, list(range(k))).create_kmers(q.code)
                check("syncmer.select_from_kmers", args, e,
                      lambda: align.SyncmerSelector(al, k, 2, perm, o).select_from_kmers(kk))
    for ci, mc in enumerate(exp["minc"]):
        c = ci + 1
        for name, perm in (("plain", None), ("freq", fperm)):
            check("mincode.select", {"compression": c, "order": name}, mc[name],
                  lambda: align.MincodeSelector(ka2, c, perm).select(q))
    return mism, calls


def run_similar(inp, exp):
    """ScoreThresholdRule over an arbitrary symmetric matrix: similar_kmers of every k-mer, and
    match / match_table of a table that holds every k-mer exactly once."""
    _, align = _mods()
    A, k = inp["A"], inp["k"]
    sp = list(range(k))
    rule_spec = [{"M": inp["M"], "t": inp["t"]}]
    ka = kmer_alphabet(A, sp)
    mism, calls = [], 0
    made = _call(lambda: rule_arg(rule_spec, A))
    if made[0] != "ok":
        return [_mm("similar", "rule", inp, {}, "ok", made)], 1
    rule = made[1]
    for km, want in zip(exp["kmers"], exp["sim"]):
        wantc = sorted(code_of(b, A) for b in want)
        obs = _call(lambda: [int(x) for x in rule.similar_kmers(ka, code_of(km, A)).tolist()])
        calls += 1
        if not (obs[0] == "ok" and sorted(obs[1]) == wantc and len(set(obs[1])) == len(obs[1])):
            mism.append(_mm("similar", "similar_kmers", inp, {"kmer": km}, wantc, obs))
    for nb in (0, 3):
        t = _call(lambda: build_from_sequences(A, sp, exp["refs"], nb))
        calls += 1
        if t[0] != "ok":
            mism.append(_mm("similar", "build", inp, {"nb": nb}, "ok", t))
            continue
        for op, args, want in (("match", {"q": exp["refs"][0]["seq"], "mask": [], "rule_spec": rule_spec}, exp["match"]),
                               ("match_table", {"other": exp["other"], "rule_spec": rule_spec}, exp["tmatch"])):
            obs = table_query(t[1], A, sp, nb, op, args)
            calls += 1
            if not query_agrees(op, want, obs):
                mism.append(_mm("similar", op, inp, dict(args, nb=nb, refs=exp["refs"]), want, obs))
    return mism, calls


def build_sel(A, sp, positions, arrays, ids, nb):
    """from_kmer_selection with explicit positions (labels already turned into integers)."""
    np = _np()
    kw = {"ref_ids": [int(i) for i in ids]}
    if nb:
        kw["n_buckets"] = nb
    return table_class(nb).from_kmer_selection(
        kmer_alphabet(A, sp), [np.array(p, dtype=np.uint32) for p in positions],
        [np.array([code_of(km, A) for km in arr], dtype=np.int64) for arr in arrays], **kw)


def build_seltab(A, sp, how, nb, inp, T):
    if how == "selection":
        return build_sel(A, sp, inp["pos"], inp["arrays"], inp["ids"], nb)
    if how == "tables":
        return table_class(nb).from_tables([build_sel(A, sp, [p], [a], [i], nb)
                                            for p, a, i in zip(inp["pos"], inp["arrays"], inp["ids"])])
    if how == "positions":
        return build_from_positions(A, sp, T)
    if how == "pickle":
        return pickle.loads(pickle.dumps(build_sel(A, sp, inp["pos"], inp["arrays"], inp["ids"], nb)))
    raise ValueError(how)


def seltab_query(t, A, sp, nb, op, args):
    if op == "match_table":
        o = args["other"]
        return _call(lambda: _rows(t.match_table(build_sel(A, sp, o["pos"], o["arrays"], o["ids"], nb))))
    return table_query(t, A, sp, nb, op, args)


def run_seltab(inp, exp):
    """Tables made from k-mer selections / explicit positions whose ids and positions are labels."""
    A, k = inp["A"], inp["k"]
    sp = list(range(k))
    T = sorted(exp["T"])
    all_kmers = [km for km, _c in exp["codes"]]
    present = sorted(code_of(km, A) for km in exp["present"])
    mism, calls = [], 0
    for nb in (0,) + BUCKETS:
        for how in ("selection", "tables", "positions", "pickle"):
            if how == "positions" and nb:
                continue
            org = {"nb": nb, "built": how, "T": T if how == "positions" else None}
            r = _call(lambda: build_seltab(A, sp, how, nb, inp, T))
            calls += 1
            if r[0] != "ok":
                mism.append(_mm("seltab", "build", inp, org, T, r))
                continue
            t = r[1]
            c = safe_content(t, A, k)
            if c != T:
                mism.append(_mm("seltab", "build", inp, org, T, c))
            queries = [("count", {"kmers": all_kmers}, exp["counts"]), ("get_kmers", {}, present),
                       ("match_kmer_selection", {"pos": exp["sel"]["pos"], "kmers": exp["sel"]["kmers"]}, exp["sel"]["out"]),
                       ("match_table", {"other": exp["other"]}, exp["tmatch"])]
            queries += [("lookup", {"kmer": km}, want) for km, want in zip(all_kmers, exp["lookups"])]
            for op, args, want in queries:
                obs = seltab_query(t, A, sp, nb, op, args)
                calls += 1
                if not query_agrees(op, want, obs):
                    mism.append(_mm("seltab", op, inp, dict(args, table=org), want, obs))
    return mism, calls


# --------------------------------------------------------------------------- memory forms
# (specs/C10/ArrayForm.tla)  A view record [buf, off, shape, st, dt, ro, kind] printed by TLC is
# laid out in memory exactly as it says; the expected answers are TLC's, computed from the value
# the view denotes.
FORM_OPS = {
    "from_kmers": ("fk_kmers", "fk_masks", "ids"),
    "from_kmer_selection": ("fs_pos", "fs_kmers", "ids"),
    "from_positions": ("fp_pos",),
    "match_kmer_selection": ("ms_pos", "ms_kmers"),
    "count": ("count",),
    "from_sequences": ("code", "imask", "ids", "spacing"),
    "match": ("code", "imask"),
    "match_rule": ("code", "matrix"),
    "create_kmers": ("code", "spacing"),
    "similar_kmers": ("matrix",),
    "minimizer.select_from_kmers": ("sel_kmers",),
    "minimizer_freq.select_from_kmers": ("sel_kmers", "freq"),
    "syncmer.select_from_kmers": ("sel_kmers",),
    "mincode.select_from_kmers": ("sel_kmers", "freq"),
}
FORM_ROLES = sorted({r for rs in FORM_OPS.values() for r in rs} | {"all"})
FORM_TABLE_OPS = ("from_kmers", "from_kmer_selection", "match_kmer_selection", "count", "from_sequences",
                  "match", "match_rule")
FORM_SELECTOR_OPS = ("minimizer.select_from_kmers", "minimizer_freq.select_from_kmers",
                     "syncmer.select_from_kmers", "mincode.select_from_kmers")
# which entries of `views` an operation reads
FORM_VIEW_KEYS = {
    "from_kmers": ("fk_kmers", "fk_masks", "ids"), "from_kmer_selection": ("fs_pos", "fs_kmers", "ids"),
    "from_positions": ("fp_pos", "fp_kmers"), "match_kmer_selection": ("ms_pos", "ms_kmers"), "count": ("count",),
    "from_sequences": ("code", "imask", "ids", "spacing"), "match": ("qcode", "qmask"),
    "match_rule": ("qcode", "matrix"), "create_kmers": ("qcode", "spacing"), "similar_kmers": ("matrix",),
    "minimizer.select_from_kmers": ("sel_kmers",), "minimizer_freq.select_from_kmers": ("sel_kmers", "freq"),
    "syncmer.select_from_kmers": ("sel_kmers",), "mincode.select_from_kmers": ("sel_kmers", "freq"),
}


class Laid:
    """One argument laid out in memory: .arg is what is passed, .base the caller's buffer."""

    def __init__(self, v):
        np = _np()
        from numpy.lib.stride_tricks import as_strided

        self.view = v
        shape = [int(x) for x in v["shape"]]
        cells = [unlabel(c) if is_label(c) else (bool(c) if isinstance(c, bool) else int(c)) for c in v["buf"]]
        if v["kind"] in ("list", "tuple"):
            # Python sequences exist in the dense form only (ArrayForm: form "c", offset 0)
            if int(v["off"]) != 0 or not _dense(shape, v["st"]):
                raise RuntimeError(f"a {v['kind']} cannot have the form {v}")
            val = np.array(cells, dtype=object).reshape(shape).tolist() if cells else ([] if len(shape) == 1 else [])
            self.arg = tuple(val) if v["kind"] == "tuple" else val
            self.base = self.orig = None
            return
        base = np.array(cells, dtype=np.dtype(v["dt"]))
        if [int(x) for x in base.tolist()] != [int(c) for c in cells]:
            raise RuntimeError(f"buffer {cells} does not fit dtype {v['dt']}")
        off, st = int(v["off"]), [int(x) for x in v["st"]]
        # every addressed cell lies inside the buffer (ArrayForm!InBounds, re-checked before touching memory)
        lo = off + sum(min(0, (n - 1) * s_) for n, s_ in zip(shape, st))
        hi = off + sum(max(0, (n - 1) * s_) for n, s_ in zip(shape, st))
        if 0 not in shape and not (0 <= lo and hi < len(base)):
            raise RuntimeError(f"view outside its buffer: {v}")
        self.orig = base.copy()
        if v["ro"]:
            base.flags.writeable = False
        start = base[off:] if off < len(base) else base[:0]
        self.arg = as_strided(start, shape=shape, strides=[s_ * base.itemsize for s_ in st], writeable=not v["ro"])
        self.base = base

    def unchanged(self):
        np = _np()
        return self.base is None or bool(np.array_equal(self.base, self.orig))


def _dense(shape, st):
    st = [int(x) for x in st]
    return st == [1] if len(shape) == 1 else st == [int(shape[1]), 1]


def forms_subject(op, D, res, nb):
    """The table a query is asked of: built in the ordinary way from the specification's values."""
    A, sp = D["A"], D["sp"]
    if op in ("match_kmer_selection", "count"):
        ids = [r["id"] for r in D["refs"]]
        per = {i: sorted(e for e in res["Ts"] if e[1] == i) for i in ids}
        return build_sel(A, sp, [[e[2] for e in per[i]] for i in ids], [[e[0] for e in per[i]] for i in ids], ids, nb)
    return build_from_sequences(A, sp, D["refs"], nb)


def forms_call(op, D, V, res, nb, explicit_spacing=False):
    """Execute one operation with its array arguments laid out as the views say.
    -> ([oc, canonical observation], [Laid ...]).  The spacing model is handed over as the view
    says only when it is under test (otherwise: None for continuous k-mers, a list else)."""
    _, align = _mods()
    np = _np()
    A, sp = D["A"], D["sp"]
    k = len(sp)
    laid = []

    def L(v):
        x = Laid(v)
        laid.append(x)
        return x.arg

    def spacing():
        return L(V["spacing"][0]) if explicit_spacing else spacing_arg(sp)

    def seq_of(v):
        seq, _a = _mods()
        s_ = seq.GeneralSequence(alphabet(A))
        s_.code = L(v)
        return s_

    def table_kw():
        return {"n_buckets": nb} if nb else {}

    cls = table_class(nb)
    if op == "from_kmers":
        fn = lambda: safe_content(cls.from_kmers(  # noqa: E731
            kmer_alphabet(A, sp), [L(v) for v in V["fk_kmers"]], ref_ids=L(V["ids"][0]),
            masks=[L(v) for v in V["fk_masks"]], **table_kw()), A, k)
    elif op == "from_kmer_selection":
        fn = lambda: safe_content(cls.from_kmer_selection(  # noqa: E731
            kmer_alphabet(A, sp), [L(v) for v in V["fs_pos"]], [L(v) for v in V["fs_kmers"]],
            ref_ids=L(V["ids"][0]), **table_kw()), A, k)
    elif op == "from_positions":
        fn = lambda: safe_content(align.KmerTable.from_positions(  # noqa: E731
            kmer_alphabet(A, sp), {int(c): L(v) for c, v in zip(V["fp_kmers"], V["fp_pos"])}), A, k)
    elif op == "match_kmer_selection":
        fn = lambda: _rows(forms_subject(op, D, res, nb).match_kmer_selection(  # noqa: E731
            L(V["ms_pos"][0]), L(V["ms_kmers"][0])))
    elif op == "count":
        fn = lambda: [int(x) for x in forms_subject(op, D, res, nb).count(L(V["count"][0])).tolist()]  # noqa: E731
    elif op == "from_sequences":
        def fn():
            kw = {"ref_ids": L(V["ids"][0]), "spacing": spacing(), "alphabet": alphabet(A)}
            if any(V["imask"]):
                kw["ignore_masks"] = [L(m[0]) if m else None for m in V["imask"]]
            kw.update(table_kw())
            return safe_content(cls.from_sequences(k, [seq_of(v) for v in V["code"]], **kw), A, k)
    elif op == "match":
        fn = lambda: _rows(forms_subject(op, D, res, nb).match(  # noqa: E731
            seq_of(V["qcode"][0]), ignore_mask=L(V["qmask"][0]) if V["qmask"] else None))
    elif op == "match_rule":
        def fn():
            M = V["matrix"][0]
            n = int(M["shape"][0])
            rule = align.ScoreThresholdRule(align.SubstitutionMatrix(alphabet(n), alphabet(n), L(M)), int(D["t"]))
            return _rows(forms_subject(op, D, res, nb).match(seq_of(V["qcode"][0]), similarity_rule=rule))
    elif op == "create_kmers":
        fn = lambda: [int(x) for x in align.KmerAlphabet(alphabet(A), k, spacing()).create_kmers(  # noqa: E731
            L(V["qcode"][0])).tolist()]
    elif op == "similar_kmers":
        def fn():
            M = V["matrix"][0]
            n = int(M["shape"][0])
            rule = align.ScoreThresholdRule(align.SubstitutionMatrix(alphabet(n), alphabet(n), L(M)), int(D["t"]))
            ka = kmer_alphabet(A, list(range(k)))
            return [[int(x) for x in rule.similar_kmers(ka, c).tolist()] for c in range(A ** k)]
    elif op in FORM_SELECTOR_OPS:
        ka2 = kmer_alphabet(A, [0, 1])
        x2, x3 = V["sel_kmers"]
        if op == "minimizer.select_from_kmers":
            fn = lambda: _sel_obs(align.MinimizerSelector(ka2, 2).select_from_kmers(L(x2)))  # noqa: E731
        elif op == "minimizer_freq.select_from_kmers":
            fn = lambda: _sel_obs(align.MinimizerSelector(  # noqa: E731
                ka2, 3, align.FrequencyPermutation(ka2, L(V["freq"][0]))).select_from_kmers(L(x2)))
        elif op == "syncmer.select_from_kmers":
            fn = lambda: _sel_obs(align.SyncmerSelector(alphabet(A), 3, 2, None, (0,)).select_from_kmers(L(x3)))  # noqa: E731
        else:
            fn = lambda: _sel_obs(align.MincodeSelector(  # noqa: E731
                ka2, 2, align.FrequencyPermutation(ka2, L(V["freq"][0]))).select_from_kmers(L(x2)))
    else:
        raise ValueError(op)
    return _call(fn), laid


def forms_expected(op, res):
    return {"from_kmers": "Tk", "from_kmer_selection": "Ts", "from_positions": "Tp", "match_kmer_selection": "sel",
            "count": "counts", "from_sequences": "Tq", "match": "match", "match_rule": "matchr",
            "create_kmers": "kmers", "similar_kmers": "sim", "minimizer.select_from_kmers": "mini",
            "minimizer_freq.select_from_kmers": "minif", "syncmer.select_from_kmers": "sync",
            "mincode.select_from_kmers": "minc"}[op]


def forms_agree(op, oc, want, obs):
    """oc "ok": the call must return the specification's answer; "OkOrRejected": it may raise,
    but an answer it returns must be the specification's."""
    if obs[0] != "ok":
        return oc == "OkOrRejected"
    got = obs[1]
    if op in ("from_kmers", "from_kmer_selection", "from_positions", "from_sequences"):
        return got == sorted(want)
    if op in ("match_kmer_selection", "match", "match_rule"):
        return same_set(got, want)
    if op == "similar_kmers":
        return len(got) == len(want) and all(sorted(g) == sorted(w) and len(set(g)) == len(g) for g, w in zip(got, want))
    if op in FORM_SELECTOR_OPS:
        return sel_agree(want, obs)
    return got == want


def run_forms(inp, exp):
    D, V, res, role = exp["data"], exp["views"], exp["res"], inp["role"]
    mism, calls = [], 0
    for op, roles in FORM_OPS.items():
        if not (role == "all" or role in roles):
            continue
        if op in FORM_SELECTOR_OPS and not D["sel"]:
            continue
        if op in ("match",) and role == "imask" and not V["qmask"]:
            continue
        for nb in ((0,) + BUCKETS if op in FORM_TABLE_OPS else (0,)):
            obs, laid = forms_call(op, D, V, res, nb, explicit_spacing=role in ("spacing", "all"))
            calls += 1
            want = res[forms_expected(op, res)]
            args = {"nb": nb, "views": {key: V[key] for key in FORM_VIEW_KEYS[op]},
                    "explicit_spacing": role in ("spacing", "all"),
                    "Ts": res["Ts"] if op in ("match_kmer_selection", "count") else None}
            small = {"d": inp["d"], "role": role, "w": inp["w"], "data": D}
            if not forms_agree(op, exp["oc"], want, obs):
                # a spacing model handed over explicitly (even the continuous one) together with an
                # ignore mask is the input class of the known defect KmerIndex!KB_SpacedMask
                kb = bool(op == "from_sequences" and args["explicit_spacing"] and any(V["imask"]))
                mism.append(_mm("forms", op, small, args, {"oc": exp["oc"], "out": want}, obs, kb_spaced_mask=kb))
            # the caller's buffers hold what they held before the call (ArrayForm!Frame)
            changed = [x.view for x in laid if not x.unchanged()]
            if changed:
                mism.append(_mm("forms", op + ":argument_unchanged", small, args,
                                [v["buf"] for v in changed], [x.base.tolist() for x in laid if not x.unchanged()]))
    return mism, calls


RUNNERS = {"forms": run_forms, "similar": run_similar, "seltab": run_seltab, "kmers": run_kmers, "mask": run_mask, "table": run_table, "mini": run_mini, "select": run_select}


def warmup():
    import biotite.sequence.align  # noqa: F401


def _blocks(text):
    cur = []
    for line in text.splitlines(keepends=True):
        if line.startswith("State ") and line.rstrip().endswith(":"):
            if cur and "".join(cur).strip():
                yield "".join(cur)
            cur = []
        else:
            cur.append(line)
    if cur and "".join(cur).strip():
        yield "".join(cur)


def _nontrivial(kind, inp, exp):
    if kind == "table":
        return int(len(exp["T"]) >= 2 and len(exp["present"]) < len(exp["T"]))
    if kind == "mini":
        return int(exp["plain"]["oc"] == "ok" and 1 < len(exp["plain"]["out"]["pos"]) < len(inp["row"]) - inp["w"] + 1)
    if kind == "kmers":
        return int(exp["r"]["oc"] == "ok" and exp["n"] >= 2)
    if kind == "similar":
        return int(exp["proper"])
    if kind == "seltab":
        return int(len(exp["present"]) < len(exp["T"]))
    if kind == "forms":
        return int(exp["disc"])
    if kind == "mask":
        return int(0 < len(exp["kept"]) < exp["n"])
    return int(not exp["short3"])


def exec_states(item):
    from harness.tlabind.pool import progress
    from harness.tlabind.tlaval import parse_state, to_py

    with open(item["path"], "rb") as fh:
        fh.seek(item["start"])
        text = fh.read(item["end"] - item["start"]).decode()
    mism, counts = [], {}
    calls = nontriv = nstates = 0
    for block in _blocks(text):
        if 'kind = "root"' in block or 'kind = "chunk"' in block:
            continue
        st = {k: to_py(v) for k, v in parse_state(block).items()}
        kind, inp, exp = st["kind"], delabel(st["inp"]), delabel(st["exp"])
        nstates += 1
        counts[kind] = counts.get(kind, 0) + 1
        if kind == "similar" and exp["wild"] and exp["proper"]:
            counts["similar:wildcard"] = counts.get("similar:wildcard", 0) + 1
        if kind == "seltab" or (kind == "table" and inp.get("lab")):
            ids = inp["ids"] if kind == "seltab" else [r["id"] for r in inp["refs"]]
            if max(ids) >= 2 ** 31:
                counts["label>=2^31"] = counts.get("label>=2^31", 0) + 1
        if kind == "forms" and exp["disc"]:
            key = "forms:disc:" + inp["role"]
            counts[key] = counts.get(key, 0) + 1
        nontriv += _nontrivial(kind, inp, exp)
        progress({"family": kind, "inp": inp})
        mm, c = RUNNERS[kind](inp, exp)
        mism.extend(mm)
        calls += c
    return {"mismatch": mism, "states": nstates, "calls": calls, "kinds": counts, "nontrivial": nontriv}


# --------------------------------------------------------------------------- S3 child
def _rand_spacing(rng, k):
    if rng.random() < 0.5:
        return list(range(k))
    offs = sorted(rng.sample(range(0, k + 3), k))
    return offs


def _rand_mask(rng, n):
    if rng.random() < 0.5 or n == 0:
        return []
    p = rng.choice([0.1, 0.3])
    return [[rng.random() < p for _ in range(n)]]


def _rand_rule(rng, A):
    """Symmetric integer matrix.  Half of the rules are diagonally dominant (the usual shape of a
    substitution matrix), the other half are arbitrary: a symbol may score higher with another
    symbol than with itself (wildcard-like rows), diagonal entries may be negative; sometimes the
    matrix is defined over a larger alphabet than the table's."""
    if A > 5:
        return []
    n = A + 1 if rng.random() < 0.2 else A
    free = rng.random() < 0.5
    M = [[0] * n for _ in range(n)]
    for i in range(n):
        for j in range(i, n):
            if free:
                M[i][j] = M[j][i] = rng.randint(-3, 5)
            else:
                M[i][j] = M[j][i] = rng.randint(2, 5) if i == j else rng.randint(-3, 2)
    return [{"M": M, "t": rng.randint(-2, 9) if free else rng.randint(0, 9)}]


# uint32 labels at the limits of every width (KmerIndex!BoundaryLabels)
LABEL_LIMITS = [0, 127, 128, 255, 256, 32767, 32768, 65535, 65536, 2 ** 31 - 1, 2 ** 31, 2 ** 32 - 1]


def _rand_label(rng):
    x = rng.random()
    if x < 0.35:
        return rng.randrange(40)
    if x < 0.8:
        return rng.choice(LABEL_LIMITS)
    return rng.randrange(2 ** 32)


def _rand_labels(rng, m):
    """m distinct labels"""
    out = []
    while len(out) < m:
        v = _rand_label(rng)
        if v not in out:
            out.append(v)
    return out


# ---- S3: the driver hands array arguments over in random memory forms; the view is logged with
# abstract cells (k-mer tuples, labels, symbols, booleans) and TLC checks that it denotes the
# logged argument (Trace!ViewsOk)
def _rand_view(rng, value, fill, arg):
    """Random layout of a row (list of cells; arg != "rows") or of an (n, 2) matrix (list of
    2-lists; arg == "rows") in a buffer whose other cells hold fillers."""
    n = len(value)
    if arg != "rows":
        st = rng.choice([1, 1, 2, 3, -1, -2])
        addr = [i * st for i in range(n)]
        shape, strides, flat = [n], [st], list(value)
    else:
        m = max(n, 1)
        # C order, Fortran order, row / column steps, reversed rows / columns, Fortran order with gaps
        s1, s2 = rng.choice([(2, 1), (2, 1), (1, m), (4, 1), (4, 2), (3, 1), (-2, 1), (2, -1), (2, 2 * m + 1)])
        addr = [i * s1 + j * s2 for i in range(n) for j in range(2)]
        shape, strides, flat = [n, 2], [s1, s2], [c for row in value for c in row]
    off = -min(addr + [0]) + rng.randint(0, 2)
    L = off + max(addr + [0]) + 1 + rng.randint(0, 2)
    buf = [fill() for _ in range(L)]
    for a, c in zip(addr, flat):
        buf[off + a] = c
    return {"arg": arg, "buf": buf, "off": off, "shape": shape, "st": strides}


def _lay(view, dt, conc):
    """Logged view (abstract cells) -> Laid argument with concrete cells of dtype dt."""
    return Laid(dict(view, buf=[conc(c) for c in view["buf"]], dt=dt, ro=False, kind="ndarray"))


def _code_dtype(A):
    return "uint8" if A <= 256 else ("uint16" if A <= 65536 else "uint32")


def s3_args(e, A):
    """The array arguments of a recorded call, laid out as its logged views say
    (plain fresh arrays for arguments without a view)."""
    np = _np()
    views = {v["arg"]: v for v in e.get("views", []) if "arg" in v}
    out = {}
    if "pos" in e:
        out["pos"] = (_lay(views["pos"], "uint32", unlabel).arg if "pos" in views
                      else np.array([unlabel(x) for x in e["pos"]], dtype=np.uint32))
    if "kmers" in e:
        out["kmers"] = (_lay(views["kmers"], "int64", lambda km: code_of(km, A)).arg if "kmers" in views
                        else np.array([code_of(km, A) for km in e["kmers"]], dtype=np.int64))
    if "q" in e:
        if "q" in views:
            seq, _ = _mods()
            sq = seq.GeneralSequence(alphabet(A))
            sq.code = _lay(views["q"], _code_dtype(A), int).arg
            out["q"] = sq
        else:
            out["q"] = mkseq(A, e["q"])
    if e.get("mask"):
        out["mask"] = _lay(views["mask"], "bool", bool).arg if "mask" in views else mask_arg(e["mask"])
    else:
        out["mask"] = None
    return out


def s3_from_positions(e, A, sp):
    _, align = _mods()
    laid = [_lay(v, e["dt"], unlabel) for v in e["views"]]
    t2 = align.KmerTable.from_positions(kmer_alphabet(A, sp), {code_of(en[0], A): x.arg for en, x in zip(e["entries"], laid)})
    return _lab_cols(safe_content(t2, A, len(sp)), (1,))


def gen_trace(item):
    from harness.tlabind.pool import progress

    _, align = _mods()
    np = _np()
    rng = random.Random(item["seed"])
    ev = []
    if item["what"] == "table":
        big = item.get("big", False)
        A = rng.choice([2000, 3000, 70000]) if big else rng.choice([2, 3, 4, 4, 5])
        k = rng.choice([3, 4]) if big else rng.choice([2, 2, 3, 4])
        if big and A == 70000:
            k = 2
        sp = _rand_spacing(rng, k)
        span = sp[-1] + 1
        nb = rng.choice([1, 2, 3, 7, 11, 50]) if (big or rng.random() < 0.6) else 0
        nref = rng.randint(1, 4)
        ids = _rand_labels(rng, nref)     # reference ids are free uint32 labels
        sym = (lambda: rng.choice([0, 1, A - 1, A - 2, rng.randrange(A)])) if big else (lambda: rng.randrange(A))
        refs = []
        for i in range(nref):
            n = rng.randint(span, span + rng.choice([0, 1, 3, 8, 14]))
            s = [sym() for _ in range(n)]
            if rng.random() < 0.4 and n > 3:      # repeats
                s[n // 2:] = s[: n - n // 2]
            refs.append({"id": enlabel(ids[i]), "seq": s, "mask": _rand_mask(rng, n)})
        subject = {"op": "table", "A": A, "sp": sp, "refs": refs, "nb": nb, "spaced": spacing_arg(sp) is not None}
        progress({"family": "s3", "op": "table", "inp": subject})
        b = _call(lambda: build_from_sequences(A, sp, refs, nb))
        if b[0] != "ok":
            subject.update(oc=b[0], out=[])
            return {"events": [subject]}
        t = b[1]
        c = safe_content(t, A, k)
        if c and c[0] == "unreadable":
            subject.update(oc="Unreadable", out=[])
            return {"events": [subject]}
        c = _lab_cols(c, (1,))
        subject.update(oc="ok", out=c)
        ev.append(subject)
        # (with spaced k-mers and a mask the table may be wrong through the known spaced-mask
        #  defect; the queries below are judged against what the table really holds: the trace
        #  specification resynchronises on `out`)
        pool_kmers = [e[0] for e in subject["out"]] or [[sym() for _ in range(k)]]
        for _ in range(item["length"]):
            op = rng.choice(["match", "match", "match", "count", "lookup", "lookup", "get_kmers", "match_table",
                             "match_sel", "match_sel" if big else "from_positions"])
            e = {"op": op}
            formed = rng.random() < 0.7      # array arguments in a random memory form / as fresh arrays
            if op == "match":
                src = rng.choice(refs)["seq"]
                n = rng.randint(max(1, span - 1), span + 10)
                q = [sym() for _ in range(n)]
                if rng.random() < 0.7 and len(src) >= 2:
                    a = rng.randrange(len(src))
                    piece = src[a:a + rng.randint(2, 8)]
                    at = rng.randint(0, max(0, n - len(piece)))
                    q[at:at + len(piece)] = piece
                    q = q[:n]
                e.update(q=q, mask=_rand_mask(rng, len(q)), rule=_rand_rule(rng, A) if rng.random() < 0.4 else [])
                # (a boolean mask only in contiguous forms: ArrayForm!MustAccept)
                e["views"] = [_rand_view(rng, q, lambda: sym(), "q")] if formed else []
                progress({"family": "s3", "op": op, "inp": subject, "args": e})
                r = _call(lambda: (lambda a: _lab_cols(_rows(t.match(a["q"], similarity_rule=rule_arg(e["rule"], A),
                                                                     ignore_mask=a["mask"])), (1,)))(s3_args(e, A)))
            elif op == "count":
                kms = [rng.choice(pool_kmers) if rng.random() < 0.7 else [sym() for _ in range(k)]
                       for _ in range(rng.randint(0, 5))]
                e.update(kmers=kms)
                e["views"] = [_rand_view(rng, kms, lambda: rng.choice(pool_kmers), "kmers")] if formed else []
                r = _call(lambda: [int(x) for x in t.count(s3_args(e, A)["kmers"]).tolist()])
            elif op == "lookup":
                km = rng.choice(pool_kmers) if rng.random() < 0.8 else [sym() for _ in range(k)]
                e.update(kmer=km, big=bool(code_of(km, A) >= 2 ** 32), bucketed=bool(nb))
                progress({"family": "s3", "op": op, "inp": subject, "args": e})
                r = _call(lambda: _lab_cols(_rows(t[code_of(km, A)]), (0,)))
            elif op == "get_kmers":
                r = _call(lambda: [kmer_of(int(c), A, k) for c in t.get_kmers().tolist()])
            elif op == "from_positions":
                # a direct table restored from the explicit positions of (part of) this table, each
                # (n, 2) array in a random memory form and one of the integer dtypes
                kept = [km for km in sorted({tuple(x[0]) for x in subject["out"]}) if rng.random() < 0.8]
                entries = [[list(km), [[x[1], x[2]] for x in subject["out"] if tuple(x[0]) == km]] for km in kept]
                for en in entries:
                    rng.shuffle(en[1])
                e.update(entries=entries, dt=rng.choice(["uint32", "uint32", "int64", "uint64"]))
                e["views"] = [(_rand_view(rng, en[1], lambda: rng.choice([enlabel(_rand_label(rng)), rng.randrange(40)]), "rows")
                               if formed else {"arg": "rows", "buf": [c for row in en[1] for c in row], "off": 0,
                                               "shape": [len(en[1]), 2], "st": [2, 1]}) for en in entries]
                progress({"family": "s3", "op": op, "inp": subject, "args": e})
                r = _call(lambda: s3_from_positions(e, A, sp))
            elif op == "match_table":
                n = rng.randint(span, span + 6)
                src = rng.choice(refs)["seq"]
                o = [{"id": enlabel(_rand_label(rng)), "seq": (src[:n] if rng.random() < 0.5 and len(src) >= span else [sym() for _ in range(n)]),
                      "mask": []}]
                if len(o[0]["seq"]) < span:
                    continue
                e.update(other=o, rule=_rand_rule(rng, A) if rng.random() < 0.4 else [])
                r = _call(lambda: _lab_cols(_rows(t.match_table(build_from_sequences(A, sp, o, nb),
                                                                similarity_rule=rule_arg(e["rule"], A))), (0, 2)))
            else:
                m = rng.randint(0, 5)
                kms = [rng.choice(pool_kmers) if rng.random() < 0.7 else [sym() for _ in range(k)] for _ in range(m)]
                pos = _rand_labels(rng, m)    # the given positions are free uint32 labels as well
                e.update(pos=[enlabel(x) for x in pos], kmers=kms)
                e["views"] = ([_rand_view(rng, e["pos"], lambda: enlabel(_rand_label(rng)), "pos"),
                               _rand_view(rng, kms, lambda: rng.choice(pool_kmers), "kmers")] if formed else [])
                r = _call(lambda: (lambda a: _lab_cols(_rows(t.match_kmer_selection(a["pos"], a["kmers"])), (0, 1)))(s3_args(e, A)))
            e["oc"] = r[0]
            e["out"] = r[1] if r[0] == "ok" else []
            ev.append(e)
        return {"events": ev}
    # ---- selector sessions: keys are logged, TLC recomputes the positions from the keys -------
    A = rng.choice([2, 3, 4, 4])
    n = rng.randint(4, item.get("nmax", 30))
    s = [rng.randrange(A) for _ in range(n)]
    if rng.random() < 0.4:
        s[n // 2:] = s[: n - n // 2]
    ev.append({"op": "sequence", "A": A, "s": s})
    q = mkseq(A, s)
    al = alphabet(A)

    def keys(perm, codes):
        """Sort keys a permutation assigns, reduced to their ranks (order-isomorphic small ints)."""
        if perm is None:
            return [int(x) for x in codes]
        v = [int(x) for x in perm.permute(np.array(codes, dtype=np.int64)).tolist()]
        rank = {x: i for i, x in enumerate(sorted(set(v)))}
        return [rank[x] for x in v]

    for _ in range(item["length"]):
        op = rng.choice(["minimizers", "minimizers", "syncmers", "syncmers", "mincode"])
        k = rng.choice([2, 3, 4])
        if n < k + 1:
            continue
        ka = kmer_alphabet(A, list(range(k)))
        codes = [int(x) for x in ka.create_kmers(q.code).tolist()]
        pk = rng.choice(["none", "random", "freq"])
        e = {"op": op, "k": k, "perm": pk}
        if op == "minimizers":
            w = rng.randint(2, 9)
            perm = None if pk == "none" else (align.RandomPermutation() if pk == "random" else
                                              _freq_perm(ka, [rng.randint(0, 4) for _ in range(A ** k)]))
            e.update(w=w, kmers=codes, ord=keys(perm, codes))
            r = _call(lambda: _sel_obs(align.MinimizerSelector(ka, w, perm).select(q)))
        elif op == "syncmers":
            sm = rng.randint(2, k - 1) if k > 2 else None
            if sm is None:
                continue
            sa = kmer_alphabet(A, list(range(sm)))
            scodes = [int(x) for x in sa.create_kmers(q.code).tolist()]
            perm = None if pk == "none" else (align.RandomPermutation() if pk == "random" else
                                              _freq_perm(sa, [rng.randint(0, 4) for _ in range(A ** sm)]))
            win = k - sm + 1
            offs = rng.sample(range(-win, win), rng.randint(1, 2))
            if len({o % win for o in offs}) != len(offs):
                offs = offs[:1]
            cached = rng.random() < 0.4
            e.update(s=sm, offsets=offs, kmers=codes, sord=keys(perm, scodes), cached=cached)
            cls = align.CachedSyncmerSelector if cached else align.SyncmerSelector
            r = _call(lambda: _sel_obs(cls(al, k, sm, perm, tuple(offs)).select(q)))
        else:
            c = rng.randint(1, 5)
            if pk == "random":
                pk = e["perm"] = "freq"   # the 64-bit keys of RandomPermutation are outside the model
            perm = None if pk == "none" else _freq_perm(ka, [rng.randint(0, 4) for _ in range(A ** k)])
            # the threshold applies to the key values themselves (0 .. A^k-1 here), not to ranks
            real_keys = codes if perm is None else [int(x) for x in perm.permute(np.array(codes, dtype=np.int64)).tolist()]
            e.update(c=c, kmers=codes, ord=real_keys, lo=0, range=A ** k)
            r = _call(lambda: _sel_obs(align.MincodeSelector(ka, c, perm).select(q)))
        e["oc"] = r[0]
        if r[0] == "ok":
            o = r[1]
            e["out"] = {"pos": o.get("pos", []), "kmers": o["kmers"]}
            e["mask"] = o.get("mask", [])
            e["is_mask"] = "mask" in o
        else:
            e["out"] = {"pos": [], "kmers": []}
            e["mask"] = []
            e["is_mask"] = False
        ev.append(e)
    return {"events": ev}


# --------------------------------------------------------------------------- classification
def classify(mm):
    if mm.get("kind") == "case":
        fam, op = mm.get("family"), mm.get("op")
        # (1) ignore masks with spaced k-mers
        if mm.get("kb_spaced_mask") and ((fam == "mask" and op in ("from_sequences", "match"))
                                         or (fam == "table" and op in ("build", "match"))
                                         or (fam == "forms" and op == "from_sequences")):
            if fam in ("mask", "forms") or op == "match" or mm.get("args", {}).get("built") == "sequences":
                return KF_SPACED_MASK
        # (3) MincodeSelector returns a boolean mask in place of the positions; the mask marks
        #     exactly the expected positions and the k-mers are right
        if (fam == "select" and op == "mincode.select") or (fam == "forms" and op == "mincode.select_from_kmers"):
            e, o = mm.get("expected", {}), mm.get("observed", [None, None])
            if fam == "forms":      # {"oc": must-accept class, "out": the selector's answer}
                e = e.get("out", {})
            if (e.get("oc") == "ok" and o[0] == "ok" and isinstance(o[1], dict) and "mask" in o[1]
                    and [i for i, b in enumerate(o[1]["mask"]) if b] == e["out"]["pos"]
                    and o[1]["kmers"] == e["out"]["kmers"]):
                return KF_MINCODE_MASK
    if mm.get("kind") == "event":
        e = mm.get("call", {})
        subj = mm.get("subject", {})
        if e.get("op") == "lookup" and e.get("bucketed") and e.get("big") and e.get("oc") == "ok" \
                and e.get("out") == [] and mm.get("expected_out"):
            return KF_LOOKUP32
        if e.get("op") == "mincode" and e.get("is_mask") and mm.get("expected_oc") == "ok" \
                and [i for i, b in enumerate(e.get("mask", [])) if b] == mm.get("expected_out", {}).get("pos") \
                and e.get("out", {}).get("kmers") == mm.get("expected_out", {}).get("kmers"):
            return KF_MINCODE_MASK
        if subj.get("spaced") and ((e.get("op") == "table" and any(_given(r["mask"]) for r in e.get("refs", [])))
                                   or (e.get("op") == "match" and _given(e.get("mask")))):
            return KF_SPACED_MASK
    return None


# --------------------------------------------------------------------------- orchestration
def _split_dump(path, nitems):
    size = os.path.getsize(path)
    marks = []
    with open(path, "rb") as fh:
        pos = 0
        for line in fh:
            if line.startswith(b"State ") and line.rstrip().endswith(b":"):
                marks.append(pos)
            pos += len(line)
    if not marks:
        return [], 0
    # table states are ~50x larger than the others: split by bytes, not by count
    target = max(1, size // nitems)
    items, start = [], marks[0]
    for m in marks[1:]:
        if m - start >= target:
            items.append({"path": path, "start": start, "end": m})
            start = m
    items.append({"path": path, "start": start, "end": size})
    return items, len(marks)


def run(ctx):
    from harness.tlabind import helpers, pool, tlc
    from harness.tlabind.core import Vacuity

    quick = ctx.quick
    ctx.assumptions += [
        "Dom_Refs: reference ids of one table are distinct (the table is a set of (k-mer, ref, pos), results are compared as sets without duplicates)",
        "Dom_Mask: an ignore mask has the length of its sequence; Dom_Spacing: strictly increasing non-negative offsets, k >= 2",
        "Dom_Rule: ScoreThresholdRule over a symmetric integer matrix on the table's alphabet or on a larger alphabet that extends it (no assumption on the entries: the row maximum may lie off the diagonal); other SimilarityRule classes are not modelled",
        "Dom_Label: reference ids, positions stored through from_kmer_selection / from_positions and positions given to match_kmer_selection are integers 0..2^32-1 (the documented uint32); positions of k-mers taken from sequences are small",
        "Dom_Selection: (position, k-mer) pairs given to match_kmer_selection are distinct",
        "ArrayForm!MustAccept: an ndarray argument of a documented dtype that is writable has to be accepted whatever its strides / offset / order; for read-only buffers, dtypes the documentation does not name, Python lists where an ndarray is documented and non-contiguous boolean masks (the code hands masks over as bytes through the buffer protocol) an exception is accepted, a returned answer must still be the right one (OkOrRejected); reference ids and spacing models are 'iterables of int' (any sequence kind / integer dtype must be accepted)",
        "memory forms: the views are those named in ArrayForm (offset slice, steps 2 / 3, reversed, reversed with step, Fortran order, row / column steps, reversed rows / columns, block of a wider array) with legal filler values in the unaddressed cells; no overlapping (stride 0 / broadcast) views",
        "sequences shorter than the k-mer span: an exception or an empty result are both accepted",
        "row order of match results is not compared (the property speaks of the set of triples)",
        "table equality (==) is only required after pickling; it is order-sensitive in the code and not part of the property",
        "selectors: integer compression factors for MincodeSelector; RandomPermutation only through the order of the keys it returns (its 64-bit arithmetic is not modelled)",
        "exhaustive model: alphabets of 2-3 symbols, k in {2,3}, spans <= 5, references <= 5 symbols, buckets {1,2,3,7}, score matrices with entries from small value sets, the 12 labels 0, 2^w-1, 2^w (w = 7, 8, 15, 16, 31), 2^32-1; larger cases only through recorded sessions",
        "trusted: TLC, the TLA+ value parser, numpy, the mapping k-mer tuple <-> k-mer code (radix A), construction of sequences from symbol codes",
    ]
    ctx.cov["rule"] = ("non-trivial = table with >= 2 entries and a repeated k-mer; minimizer row where some but not "
                       "all windows share their minimizer; mask that drops some but not all k-mers; sequence with >= 2 k-mers; "
                       "score rule under which some k-mer has a proper non-empty neighbourhood; forms case in which "
                       "a varied view tells its value from a dense read of its cells (ArrayForm!Discriminates)")
    d = tlc.scratch_dir("c10")
    prefix = os.path.join(d, "states")
    cfg = "MC.cfg" if quick else "MC_thorough.cfg"
    res = ctx.tlc("MCKmer", cfg, stage="S1", dump=prefix, workers=8 if quick else 16,
                  timeout=900 if quick else 3000)
    ctx.exhaustive = True
    path = prefix + ".dump" if os.path.exists(prefix + ".dump") else prefix
    items, nstates = _split_dump(path, 400 if quick else 2000)
    if nstates != res.distinct:
        raise RuntimeError(f"dump holds {nstates} states, TLC reported {res.distinct}")
    results = helpers.run_pool(ctx, "harness.drivers.c10:exec_states", items, stage="S2", item_timeout=300)
    kinds, calls, done = {}, 0, 0
    for r in results:
        if not r or "crash" in r:
            continue
        done += r.get("states", 0)
        calls += r.get("calls", 0)
        ctx.nontrivial += r.get("nontrivial", 0)
        for k, v in r.get("kinds", {}).items():
            kinds[k] = kinds.get(k, 0) + v
    disc = {k[len("forms:disc:"):]: kinds.pop(k) for k in sorted(kinds) if k.startswith("forms:disc:")}
    ctx.cov["s2_forms_states_discriminating_per_parameter"] = disc
    quiet = sorted(set(FORM_ROLES) - set(disc))
    if quiet:
        raise Vacuity(f"forms family: no view that tells its value from a dense read of its cells was executed for {quiet}")
    wild = kinds.pop("similar:wildcard", 0)
    biglab = kinds.pop("label>=2^31", 0)
    ctx.cov["s2_states_per_family"] = kinds
    ctx.cov["s2_similar_states_row_maximum_off_diagonal"] = wild
    ctx.cov["s2_label_states_with_id_ge_2^31"] = biglab
    if not wild:
        raise Vacuity("similar family: no score matrix whose row maximum lies off the diagonal (with a proper neighbourhood) was executed")
    if not biglab:
        raise Vacuity("label families: no table with a reference id >= 2^31 was executed")
    ctx.cov["s2_real_calls"] = calls
    ctx.traces_validated += done
    ctx.evaluations += calls
    missing = set(RUNNERS) - set(kinds)
    if missing:
        raise Vacuity(f"input families never executed: {sorted(missing)}")
    ctx.log(f"S2: {done} input states, {calls} real calls, families {kinds}")
    # ---- S3 -------------------------------------------------------------------------------
    ntr = 60 if quick else 1200
    titems = []
    for i in range(ntr):
        what = "select" if i % 3 == 2 else "table"
        titems.append({"seed": ctx.rng.randrange(1 << 30), "what": what, "length": 10 if quick else 12,
                       "big": what == "table" and i % 6 == 0, "nmax": 30})
    tres = pool.run_isolated("harness.drivers.c10:gen_trace", titems, item_timeout=120)
    traces = []
    for it, r in zip(titems, tres):
        if "driver_error" in r:
            raise RuntimeError(f"S3 driver error: {r['driver_error']}\n{r.get('tb', '')}")
        if "crash" in r:
            ctx.mismatch({"stage": "S3", "kind": "crash", "signal": r["crash"],
                          "progress": r.get("progress"), "item": it})
            continue
        if r["events"]:
            traces.append(r["events"])
    try:
        mms = helpers.tlc_validate(ctx, traces, timeout=1800)
    except (tlc.TLCFailure, RuntimeError) as e:
        if not ctx.violations:
            raise
        ctx.note(f"S3 trace validation not completed after S2 violations: {str(e)[:300]}")
        return
    nev = sum(len(t) for t in traces)
    ctx.traces_validated += len(traces)
    ctx.evaluations += nev
    ctx.cov["s3_traces"] = len(traces)
    ctx.cov["s3_events"] = nev
    ops = {}
    for t in traces:
        for e in t:
            ops[e["op"]] = ops.get(e["op"], 0) + 1
    ctx.cov["s3_events_per_op"] = ops
    ctx.cov["s3_calls_with_arrays_in_a_strided_or_offset_form"] = sum(
        1 for t in traces for e in t
        if any(v["off"] != 0 or not _dense(v["shape"], v["st"]) for v in e.get("views", [])))
    ctx.cov["s3_from_positions_calls"] = ops.get("from_positions", 0)
    if not ctx.cov["s3_calls_with_arrays_in_a_strided_or_offset_form"]:
        raise Vacuity("S3: no recorded call received an array in a non-contiguous or offset memory form")
    ctx.cov["s3_big_alphabet_lookups"] = sum(1 for t in traces for e in t if e["op"] == "lookup" and e.get("big"))
    ctx.cov["s3_tables_with_id_ge_2^31"] = sum(1 for t in traces if t[0]["op"] == "table"
                                               and any(unlabel(r["id"]) >= 2 ** 31 for r in t[0]["refs"]))
    ctx.cov["s3_rules_row_maximum_off_diagonal"] = sum(
        1 for t in traces for e in t
        if e.get("rule") and any(max(row) > row[i] for i, row in enumerate(e["rule"][0]["M"])))
    ctx.sample({"s3_events": traces[0][:2]})
    for m in mms:
        tid, l = m[1], m[2]
        e = traces[tid - 1][l - 1]
        ctx.mismatch({"stage": "S3", "kind": "event", "trace": tid, "event": l, "op": e["op"],
                      "subject": {k: v for k, v in traces[tid - 1][0].items() if k != "out"},
                      "call": e, "expected_oc": m[3], "expected_out": m[4]})

    def corrupt(tr):
        for e in tr[1:]:
            if e.get("oc") != "ok":
                continue
            o = e.get("out")
            if isinstance(o, dict) and o.get("pos"):
                o["pos"][0] += 1
                return True
            if isinstance(o, list) and o and isinstance(o[0], list) and o[0] and isinstance(o[0][-1], int):
                o[0][-1] += 1
                return True
            if isinstance(o, list) and o and isinstance(o[0], int):
                o[0] += 1
                return True
        return False

    helpers.binding_selftest(ctx, traces, corrupt, max_traces=8)


def replay(record):
    """Re-execute one stored mismatch against the current code."""
    kind = record.get("kind")
    if kind == "case":
        fam, op, inp, args = record["family"], record["op"], record["inp"], record.get("args", {})
        exp = record["expected"]
        if fam == "table":
            A, sp = inp["A"], inp["sp"]
            k = len(sp)
            org = args if op in ("build", "pickle_equal") else args["table"]
            t = _call(lambda: build_table(A, sp, org["built"], org["nb"], refs=org.get("refs"), kb=org.get("kb"),
                                          T=exp if op == "build" else None))
            if op == "build":
                obs = safe_content(t[1], A, k) if t[0] == "ok" else t
                return {"observed": obs, "expected": exp, "mismatch": obs != sorted(exp)}
            if t[0] != "ok":
                return {"error": f"table cannot be built any more: {t}", "mismatch": True}
            if op == "pickle_equal":
                same = t[1] == build_from_sequences(A, sp, org["refs"], org["nb"])
                return {"observed": bool(same), "expected": True, "mismatch": not same}
            obs = table_query(t[1], A, sp, org["nb"], op, args)
            return {"observed": obs, "expected": exp, "mismatch": not query_agrees(op, exp, obs)}
        if fam == "kmers":
            mm, _ = run_kmers(inp, {"r": exp if isinstance(exp, dict) else {"oc": "ok", "out": []},
                                    "n": exp if isinstance(exp, int) else -1})
            mm = [m for m in mm if m["op"] == op]
            return {"mismatch": bool(mm), "details": mm[:2]}
        if fam == "mask":
            mm, _ = run_mask(inp, {"kept": exp, "kb": True, "n": 0})
            return {"mismatch": bool(mm), "details": mm[:2]}
        if fam == "mini":
            e = {"plain": exp, "freq": exp, "counts": [5, 0, 5, 1]}
            mm, _ = run_mini(inp, e)
            mm = [m for m in mm if m["args"] == args]
            return {"mismatch": bool(mm), "details": mm[:1]}
        if fam == "select":
            return _replay_select(inp, op, args, exp)
        if fam == "similar":
            A, k = inp["A"], inp["k"]
            sp = list(range(k))
            rule_spec = [{"M": inp["M"], "t": inp["t"]}]
            if op == "rule":
                obs = _call(lambda: rule_arg(rule_spec, A))
                return {"observed": obs[0], "expected": exp, "mismatch": obs[0] != "ok"}
            if op == "similar_kmers":
                obs = _call(lambda: [int(x) for x in rule_arg(rule_spec, A).similar_kmers(
                    kmer_alphabet(A, sp), code_of(args["kmer"], A)).tolist()])
                bad = not (obs[0] == "ok" and sorted(obs[1]) == exp and len(set(obs[1])) == len(obs[1]))
                return {"observed": obs, "expected": exp, "mismatch": bad}
            t = _call(lambda: build_from_sequences(A, sp, args.get("refs", []), args["nb"]))
            if op == "build" or t[0] != "ok":
                return {"observed": t[0], "expected": "ok", "mismatch": t[0] != "ok"}
            obs = table_query(t[1], A, sp, args["nb"], op, args)
            return {"observed": obs, "expected": exp, "mismatch": not query_agrees(op, exp, obs)}
        if fam == "forms":
            D = inp["data"]
            real_op = op.split(":")[0]
            V = dict(args["views"])
            obs, laid = forms_call(real_op, D, V, {"Ts": args.get("Ts")}, args["nb"],
                                   explicit_spacing=args.get("explicit_spacing", False))
            if op.endswith(":argument_unchanged"):
                changed = [x.base.tolist() for x in laid if not x.unchanged()]
                return {"observed": changed, "expected": "buffers unchanged", "mismatch": bool(changed)}
            return {"observed": obs, "expected": exp,
                    "mismatch": not forms_agree(real_op, exp["oc"], delabel(exp["out"]), obs)}
        if fam == "seltab":
            A, k = inp["A"], inp["k"]
            sp = list(range(k))
            org = args if op == "build" else args["table"]
            t = _call(lambda: build_seltab(A, sp, org["built"], org["nb"], inp, org.get("T")))
            if op == "build":
                obs = safe_content(t[1], A, k) if t[0] == "ok" else t
                return {"observed": obs, "expected": exp, "mismatch": obs != sorted(exp)}
            if t[0] != "ok":
                return {"error": f"table cannot be built any more: {t}", "mismatch": True}
            obs = seltab_query(t[1], A, sp, org["nb"], op, args)
            return {"observed": obs, "expected": exp, "mismatch": not query_agrees(op, exp, obs)}
    if kind == "event":
        return _replay_event(record)
    return {"error": "unknown record", "record": record}


def _replay_select(inp, op, args, exp):
    _, align = _mods()
    A = inp["A"]
    q = mkseq(A, inp["s"])
    al = alphabet(A)
    ka2 = kmer_alphabet(A, [0, 1])
    perm = None
    if args.get("order") == "freq":
        perm = _freq_perm(ka2, [(c * 7) % 5 for c in range(1, A ** 2 + 1)])   # MCKmer!SelCounts
    if op == "minimizer.select":
        fn = lambda: align.MinimizerSelector(ka2, args["w"], perm).select(q)  # noqa: E731
    elif op in ("syncmer.select", "cached_syncmer.select", "syncmer.select_from_kmers"):
        cls = align.CachedSyncmerSelector if op.startswith("cached") else align.SyncmerSelector
        sel = lambda: cls(al, args["k"], args["s"], perm, tuple(args["offset"]))  # noqa: E731
        if op.endswith("from_kmers"):
            fn = lambda: sel().select_from_kmers(kmer_alphabet(A, list(range(args["k"]))).create_kmers(q.code))  # noqa: E731
        else:
            fn = lambda: sel().select(q)  # noqa: E731
    elif op == "mincode.select":
        fn = lambda: align.MincodeSelector(ka2, args["compression"], perm).select(q)  # noqa: E731
    else:
        return {"error": f"unknown selector op {op}", "mismatch": True}
    obs = _call(lambda: _sel_obs(fn()))
    return {"observed": obs, "expected": exp, "mismatch": not sel_agree(exp, obs)}


def _replay_event(record):
    """Recorded call: execute it again on the recorded subject and compare with TLC's value."""
    _, align = _mods()
    np = _np()
    # labels (["u32", hi, lo]) of the recorded call and of TLC's value -> integers
    e, subj = delabel(record["call"]), delabel(record["subject"])
    eoc, eout = record.get("expected_oc"), delabel(record.get("expected_out"))
    if subj["op"] == "table":
        A, sp, nb = subj["A"], subj["sp"], subj["nb"]
        k = len(sp)
        t = _call(lambda: build_from_sequences(A, sp, subj["refs"], nb))
        if e["op"] == "table":
            obs = safe_content(t[1], A, k) if t[0] == "ok" else t
            return {"observed": obs, "expected": eout, "mismatch": obs != sorted(eout)}
        if t[0] != "ok":
            return {"error": f"table cannot be built: {t}", "mismatch": True}
        op = {"match_sel": "match_kmer_selection"}.get(e["op"], e["op"])
        if op == "from_positions":
            obs = _call(lambda: delabel(s3_from_positions(e, A, sp)))
            return {"observed": obs, "expected": eout, "mismatch": obs[0] != "ok" or obs[1] != sorted(eout)}
        if e.get("views") and op in ("match", "count", "match_kmer_selection"):
            # the arguments in the recorded memory form
            if op == "match":
                obs = _call(lambda: (lambda a: _rows(t[1].match(a["q"], similarity_rule=rule_arg(e.get("rule", []), A),
                                                                ignore_mask=a["mask"])))(s3_args(e, A)))
            elif op == "count":
                obs = _call(lambda: [int(x) for x in t[1].count(s3_args(e, A)["kmers"]).tolist()])
            else:
                obs = _call(lambda: (lambda a: _rows(t[1].match_kmer_selection(a["pos"], a["kmers"])))(s3_args(e, A)))
            bad = (not (obs[0] == "Rejected" or obs[1] == [])) if eoc == "RejectedOrEmpty" else not query_agrees(op, eout, obs)
            return {"observed": obs, "expected": [eoc, eout], "mismatch": bad}
        args = dict(e, rule_spec=e.get("rule", []))
        if op == "get_kmers":
            obs = _call(lambda: [kmer_of(int(c), A, k) for c in t[1].get_kmers().tolist()])
            return {"observed": obs, "expected": eout, "mismatch": obs[0] != "ok" or not same_set(obs[1], eout)}
        obs = table_query(t[1], A, sp, nb, op, args)
        if eoc == "RejectedOrEmpty":
            bad = not (obs[0] == "Rejected" or obs[1] == [])
        else:
            bad = not query_agrees(op, eout, obs)
        return {"observed": obs, "expected": [eoc, eout], "mismatch": bad,
                "note": "queries are judged against the specification's table here; the recorded run judged them against the logged content"}
    # selector events carry the keys; the call is repeated only where the keys can be rebuilt
    if e.get("perm") == "none":
        A = subj["A"]
        q = mkseq(A, subj["s"])
        ka = kmer_alphabet(A, list(range(e["k"])))
        if e["op"] == "minimizers":
            fn = lambda: align.MinimizerSelector(ka, e["w"]).select(q)  # noqa: E731
        elif e["op"] == "syncmers":
            cls = align.CachedSyncmerSelector if e.get("cached") else align.SyncmerSelector
            fn = lambda: cls(alphabet(A), e["k"], e["s"], None, tuple(e["offsets"])).select(q)  # noqa: E731
        else:
            fn = lambda: align.MincodeSelector(ka, e["c"]).select(q)  # noqa: E731
        obs = _call(lambda: _sel_obs(fn()))
        return {"observed": obs, "expected": [eoc, eout],
                "mismatch": not sel_agree({"oc": eoc, "out": eout}, obs)}
    return {"error": "selector call with a seeded permutation: replay through ./check C10 with the same VERIF_SEED",
            "record": record, "mismatch": True}


MANIFEST = {
    "technique": "TLA+ specification of k-mer decomposition, the abstract k-mer table with its bucket/merge/pickle refinement, similarity neighbourhoods (exact for every symmetric score matrix), uint32 label transparency of ids/positions, the memory form of array arguments (views: buffer, offset, strides, dtype, flags - the answer is a function of the value a view denotes), and the minimizer/syncmer/mincode selectors (specs/C10), model-checked by TLC; every TLC state (input, expected) executed against KmerAlphabet/KmerTable/BucketKmerTable/selectors; recorded sessions re-computed by TLC",
    "level_text": "TLC enumerates all sequences over 2-3 symbols (length <=6/4) under 8 spacing models, all ignore masks up to length 6, ~1,300 small reference sets (with masks, two references, k=2/3, spaced models) each with ~40 queries (masks, two score-threshold rules), all key rows of length <=5 (7 thorough) over 4 values with windows 2-4 and all short sequences for the selectors; every symmetric score matrix over small value sets (incl. rows whose maximum lies off the diagonal, matrices over a larger alphabet) with every threshold, and tables whose reference ids / stored positions / given positions are the uint32 labels at the limits of every width (0, 2^w-1, 2^w for w=7,8,15,16,31, 2^32-1), and every array parameter of the API in every named memory form (offset / stepped / reversed / Fortran-ordered / row- and column-sliced views, other integer dtypes, read-only buffers, lists), singly and all at once; it checks rolling codes, k-mer masks, branch-and-bound neighbourhoods, every query on bucketed/merged/pickled layouts against the set definition, van Herk = leftmost window minimum and the syncmer route. Every state is then run against the real classes: six builders x direct and 1/2/3/7 buckets, match/match_table/match_kmer_selection/count/lookup/get_kmers/iteration/pickle, four selectors with and without FrequencyPermutation. Longer sequences, 2-5 symbol and 2000-70000 symbol alphabets (k-mer codes beyond 2^32), up to 4 references with random uint32 ids, random masks/rules (also not diagonally dominant)/buckets and RandomPermutation orders, array arguments in random strided layouts and tables restored by from_positions from (n,2) arrays in random layouts are covered by recorded sessions validated by TLC.",
    "level_note": "Bounded model checking plus conformance on recorded executions, not proof. Similarity rules other than ScoreThresholdRule, non-integer compression factors, the 64-bit LCG of RandomPermutation (only the order it yields), row order of matches and table equality beyond pickling are not decided. Tables with repeated reference ids (bags) are outside the domain. Three defects in .pyx files are listed known findings (Cython is unavailable).",
}
