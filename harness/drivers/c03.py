"""C03 — symbol encoding is a bijection and sequences behave like their strings.

S1  TLC checks specs/C03/SeqCodec.tla (every single call of the bounded universe: byte table
    = encoder on all 256 bytes, code/symbol round trips, mapper, IUPAC complement involution,
    codon radix numbers, per-frame ORF scan = declarative ORFs, rolling k-mer code = positional
    radix - as integers for small k, on base-b digits for every k up to the int64 limit -,
    derive/write/read histories: a new sequence is independent of its source) and
    specs/C03/SeqMachine.tla (histories of a Sequence object and the sequence it was made from).
S2  every (case, result) pair dumped by TLC and every transition of the machine's state graph
    is executed against the real classes; indices are handed over in every form the
    specification enumerates (Python int, numpy scalars of all widths, lists, ndarrays).
S3  seeded random histories (random alphabets of hashables / letters, longer sequences, code
    arrays of several dtypes with out-of-range entries, random codon tables, any k with random
    spacings, random index forms) are recorded and re-computed event by event by TLC
    (specs/C03/Trace.tla).
"""

from __future__ import annotations

import json
import os
import random
import zlib

PROPERTY = "C03"
_G = None

HASHABLES = ["foo", 42, (1, 2, 3), 3.5, b"x", frozenset({9}), None, "bar", ("a",), -7, "B", 2.25]
PROT = "ACDEFGHIKLMNPQRSTVWYBZX*"
NUC_UNAMB = [65, 67, 71, 84]
NUC_AMB = [65, 67, 71, 84, 82, 89, 87, 83, 77, 75, 72, 66, 86, 68, 78]
PROT_ALPH = [ord(ch) for ch in PROT]


class DriverError(Exception):
    """A bug of this driver (never an outcome of the library)."""


def _np():
    import numpy as np

    return np


def _bs():
    import biotite.sequence as bs

    return bs


# --------------------------------------------------------------------------- symbols / alphabets
def sym_obj(kind, s):
    """spec symbol (int) -> real symbol."""
    if kind == "generic":
        return HASHABLES[s]
    return chr(s) if s < 128 else bytes([s])


def sym_int(kind, o):
    if kind == "wide":
        return int(o)
    if kind == "generic":
        for i, h in enumerate(HASHABLES):
            if type(h) is type(o) and h == o:
                return i
        raise DriverError(f"unknown symbol object {o!r}")
    if isinstance(o, bytes):
        return o[0]
    return ord(str(o))


def mk_alph(kind, syms):
    bs = _bs()
    if kind == "generic":
        return bs.Alphabet([HASHABLES[s] for s in syms])
    if kind == "wide":          # symbols are the Python ints themselves (alphabets beyond 256 symbols)
        return bs.Alphabet([int(s) for s in syms])
    return bs.LetterAlphabet([chr(s) for s in syms])


def akind(alph_syms, hint=None):
    """letter or generic? generic symbols are small ints (< 32), letters are bytes >= 33."""
    if hint in ("letter", "generic"):
        return hint
    if len(alph_syms) and max(alph_syms) >= 1000:
        return "wide"
    return "generic" if (len(alph_syms) == 0 or max(alph_syms) < 32) else "letter"


_NPT = {"i8": "int8", "i16": "int16", "i32": "int32", "i64": "int64",
        "u8": "uint8", "u16": "uint16", "u32": "uint32", "u64": "uint64"}
INT_FORMS = ("py",) + tuple(_NPT)
ARR_FORMS = ("list",) + tuple(_NPT)


def int_form(k, form):
    """An integer index in one of the forms numpy accepts (SeqCodecOps.IntForms)."""
    np = _np()
    k = int(k)
    if form == "py":
        return k
    if form not in _NPT:
        raise DriverError(f"unknown integer form {form!r}")
    if form[0] == "u" and k < 0:
        raise DriverError(f"negative index {k} in unsigned form {form} (outside Dom_Form)")
    return getattr(np, _NPT[form])(k)


def to_index(x):
    """Index object <<kind, payload, form>> of the specification -> the real index."""
    np = _np()
    kind, p = x[0], x[1]
    form = x[2] if len(x) > 2 else None
    if kind == "int":
        return int_form(p[0], form or "py")
    if kind == "slice":
        if form not in (None, "py", "np"):
            raise DriverError(f"unknown slice form {form!r}")
        conv = np.int64 if form == "np" else int
        a, b, c = [None if len(o) == 0 else conv(int(o[0])) for o in p]
        return slice(a, b, c)
    if kind == "mask":
        if form == "list":
            if not p:
                raise DriverError("empty list as a mask (outside Dom_Form)")
            return [bool(v) for v in p]
        if form not in (None, "np"):
            raise DriverError(f"unknown mask form {form!r}")
        return np.array([bool(v) for v in p], dtype=bool)
    if kind == "arr":
        if form == "list":
            if not p:
                raise DriverError("empty list as an index array (outside Dom_Form)")
            return [int(v) for v in p]
        if form is not None and form not in _NPT:
            raise DriverError(f"unknown array form {form!r}")
        if form is not None and form[0] == "u" and any(int(v) < 0 for v in p):
            raise DriverError("negative index in an unsigned index array (outside Dom_Form)")
        return np.array([int(v) for v in p], dtype=_NPT[form or "i64"])
    raise DriverError(kind)


def to_digits(v, b, k):
    """An integer as its base-b digits, most significant first, at least k of them; a negative
    value gets a leading -1 (the specification never expects one)."""
    v, b = int(v), int(b)
    if v < 0:
        return [-1] + to_digits(-v, b, k)
    d = []
    while v:
        d.append(v % b)
        v //= b
    d += [0] * (int(k) - len(d))
    return d[::-1]


def from_digits(d, b):
    v = 0
    for x in d:
        v = v * int(b) + int(x)
    return v


# --------------------------------------------------------------------------- sequence objects
def mk_seq_syms(kind, alph, syms):
    """Construct through the public constructor from symbols."""
    bs = _bs()
    if kind == "nuc":
        text = "".join(chr(s) for s in syms)
        if list(alph) == NUC_AMB and all(s in NUC_UNAMB for s in syms):
            return bs.NucleotideSequence(text, ambiguous=True)
        return bs.NucleotideSequence(text)
    if kind == "prot":
        return bs.ProteinSequence("".join(chr(s) for s in syms))
    ak = akind(alph)
    return bs.GeneralSequence(mk_alph(ak, alph), [sym_obj(ak, s) for s in syms])


def mk_seq(kind, alph, codes):
    if kind == "none":
        return None
    return mk_seq_syms(kind, alph, [alph[c] for c in codes])


def seq_kind(obj):
    bs = _bs()
    if isinstance(obj, bs.NucleotideSequence):
        return "nuc"
    if isinstance(obj, bs.ProteinSequence):
        return "prot"
    if isinstance(obj, bs.GeneralSequence):
        return "general"
    raise DriverError(f"unexpected sequence type {type(obj).__name__}")


def proj_alph(alph):
    bs = _bs()
    syms = alph.get_symbols()
    ak = "letter" if isinstance(alph, bs.LetterAlphabet) else "generic"
    return [sym_int(ak, s) for s in syms]


def project(obj):
    if obj is None:
        return {"kind": "none", "alph": [], "codes": []}
    return {"kind": seq_kind(obj), "alph": proj_alph(obj.get_alphabet()),
            "codes": [int(x) for x in obj.code.tolist()]}


def _symbols_of(obj):
    """The object's string as spec symbols, through the most direct public view."""
    k = seq_kind(obj)
    if k == "general":
        ak = akind(proj_alph(obj.get_alphabet()))
        return [sym_int(ak, s) for s in obj.symbols]
    return [ord(ch) for ch in str(obj)]


# --------------------------------------------------------------------------- codon / k-mer helpers
def mk_table(aa, starts):
    bs = _bs()
    d = {}
    for n, code in enumerate(aa):
        d["ACGT"[n // 16] + "ACGT"[(n % 16) // 4] + "ACGT"[n % 4]] = PROT[code]
    st = ["ACGT"[n // 16] + "ACGT"[(n % 16) // 4] + "ACGT"[n % 4] for n in starts]
    return bs.CodonTable(d, st)


_BIG = {}
_BASE = {}


def _big_alph(n):
    bs = _bs()
    if n not in _BIG:
        _BIG[n] = bs.Alphabet(range(n))
    return _BIG[n]


def base_alph(b):
    bs = _bs()
    if b == 4:
        return bs.NucleotideSequence.alphabet_unamb
    if b not in _BASE:
        _BASE[b] = (bs.LetterAlphabet([chr(33 + i) for i in range(b)]) if b <= 94
                    else bs.Alphabet(list(range(b))))
    return _BASE[b]


def mk_kmer_alph(b, k, sp, variant=0):
    from biotite.sequence.align import KmerAlphabet

    if len(sp) == 0:
        return KmerAlphabet(base_alph(b), int(k))
    off = [int(x) for x in sp[0]]
    if variant % 2 == 0:
        model = "".join("1" if i in off else "0" for i in range(max(off) + 1))
        return KmerAlphabet(base_alph(b), int(k), spacing=model)
    return KmerAlphabet(base_alph(b), int(k), spacing=list(reversed(off)))


_DT = ("uint8", "uint16", "uint32", "uint64")


# --------------------------------------------------------------------------- one call
def apply_real(obj, op, a, tables=None, variant=0):
    """Returns (obj', oc, out, detail)."""
    np = _np()
    bs = _bs()
    out, detail = [], None
    try:
        if op == "construct":
            obj = mk_seq_syms(a[0], a[1], a[2])
        elif op == "str":
            out = _symbols_of(obj)
        elif op == "len":
            out = int(len(obj))
        elif op == "get":
            r = obj[to_index(a[0])]
            if isinstance(r, bs.Sequence):
                obj = r
            else:
                k = seq_kind(obj)
                out = sym_int("generic" if k == "general" else "letter", r)
        elif op == "setsym":
            k = seq_kind(obj)
            obj[int_form(a[0], a[2] if len(a) > 2 else "py")] = sym_obj("generic" if k == "general" else "letter", a[1])
        elif op == "indep":
            # a history of three calls: derive a new sequence, write into one of the objects, read both
            dop, da, side, w = a
            k = seq_kind(obj)
            symk = "generic" if k == "general" else "letter"
            other = None
            if dop == "copy":
                res = obj.copy()
            elif dop == "reverse":
                res = obj.reverse()
            elif dop == "complement":
                res = obj.complement()
            elif dop == "add":
                other = mk_seq_syms(k, da[0], da[1])
                res = obj + other
            else:
                raise DriverError(f"unknown derive operation {dop}")
            if res is obj or (other is not None and res is other):
                detail = f"{dop} returned one of its operands"
            target = {"res": res, "src": obj, "other": other}[side]
            if target is None:
                raise DriverError("side 'other' without another operand (outside Dom_Indep)")
            target[int_form(w[0], w[2] if len(w) > 2 else "py")] = sym_obj(symk, w[1])
            out = {"src": _symbols_of(obj), "res": _symbols_of(res)}
        elif op == "setmany":
            k = seq_kind(obj)
            al = proj_alph(obj.get_alphabet())
            if variant % 3 == 0 and all(s in al for s in a[1]):
                val = mk_seq_syms(k, al, a[1])
                if proj_alph(val.get_alphabet()) != al:      # e.g. unambiguous value for an ambiguous target
                    val = [sym_obj("generic" if k == "general" else "letter", s) for s in a[1]]
            elif variant % 3 == 1 and k != "general":
                val = "".join(chr(s) for s in a[1])
            else:
                val = [sym_obj("generic" if k == "general" else "letter", s) for s in a[1]]
            obj[to_index(a[0])] = val
        elif op == "add":
            obj = obj + mk_seq_syms(seq_kind(obj), a[0], a[1])
        elif op == "reverse":
            obj = obj.reverse()
        elif op == "eq":
            other = mk_seq_syms(seq_kind(obj), proj_alph(obj.get_alphabet()), a[0])
            out = bool(obj == other) and bool(other == obj)
            if bool(obj == other) != bool(other == obj):
                detail = "asymmetric =="
                out = "asymmetric"
        elif op == "copy":
            before = project(obj)
            c = obj.copy()
            eq = bool(c == obj) and c is not obj and project(c) == before
            indep = True
            if len(obj) > 0:
                c.code[0] = (int(c.code[0]) + 1) % len(obj.get_alphabet())
                indep = project(obj) == before
            out = {"eq": eq, "indep": bool(indep)}
        elif op == "isvalid":
            out = bool(obj.is_valid())
        elif op == "complement":
            obj = obj.complement()
        elif op == "setcode":
            obj.code = np.array([int(x) for x in a[0]], dtype=_DT[variant % 4] if variant % 5 else np.int64)
        elif op == "encode":
            ak = akind(a[0])
            sym = a[1]
            if ak == "letter" and variant % 2 == 1:
                sym_o = bytes([sym])
            else:
                sym_o = sym_obj(ak, sym)
            out = int(mk_alph(ak, a[0]).encode(sym_o))
        elif op == "decode":
            ak = akind(a[0])
            out = sym_int(ak, mk_alph(ak, a[0]).decode(int(a[1])))
        elif op == "encode_multiple":
            ak = akind(a[0])
            al = mk_alph(ak, a[0])
            if ak == "letter":
                v = variant % 4
                if v == 0 or any(s >= 128 for s in a[1]):
                    arg = bytes(a[1])
                elif v == 1:
                    arg = "".join(chr(s) for s in a[1])
                elif v == 2:
                    arg = [chr(s) for s in a[1]]
                else:
                    arg = np.array([chr(s) for s in a[1]], dtype="U1")
            else:
                arg = [HASHABLES[s] for s in a[1]]
            out = [int(x) for x in al.encode_multiple(arg).tolist()]
        elif op == "decode_multiple":
            ak = akind(a[0])
            al = mk_alph(ak, a[0])
            vals = [int(x) for x in a[1]]
            if all(0 <= x <= 255 for x in vals) and variant % 3 == 0:
                arg = vals if variant % 2 == 0 else np.array(vals, dtype=np.uint8)
            elif all(x >= 0 for x in vals) and variant % 3 == 1:
                arg = np.array(vals, dtype=_DT[1 + variant % 3])
            else:
                arg = np.array(vals, dtype=np.int64)
            out = [sym_int(ak, s) for s in al.decode_multiple(arg)]
        elif op == "extends":
            ak = akind(list(a[0]) + list(a[1]))
            out = bool(mk_alph(ak, a[0]).extends(mk_alph(ak, a[1])))
        elif op == "map":
            ak = akind(list(a[0]) + list(a[1]))
            m = bs.AlphabetMapper(mk_alph(ak, a[0]), mk_alph(ak, a[1]))
            if variant % 3 == 0:
                out = [int(m[int(x)]) for x in a[2]]
            elif variant % 3 == 1:
                out = [int(x) for x in m[[int(x) for x in a[2]]]] if len(a[2]) else []
            else:
                # the array form must be able to hold the codes (codes >= 256 of a wide source alphabet
                # do not fit uint8: that would be an error of this driver, not of the mapper)
                k = variant % 4 if max([int(x) for x in a[2]] + [0]) < 256 else 1 + variant % 3
                out = [int(x) for x in m[np.array([int(x) for x in a[2]], dtype=_DT[k])]]
        elif op == "translate":
            codes, tbl, complete, starts, met = a
            if isinstance(tbl, str):
                tbl, starts = tables["tables"][tbl], tables["starts"][starts]
            seq = bs.NucleotideSequence("".join("ACGT"[x] for x in codes))
            ct = mk_table(tbl, starts)
            if complete:
                p = seq.translate(complete=True, codon_table=ct, met_start=bool(met))
                out = [PROT.index(ch) for ch in str(p)]
            else:
                ps, pos = seq.translate(complete=False, codon_table=ct, met_start=bool(met))
                out = [[int(s), int(e), [PROT.index(ch) for ch in str(p)]] for p, (s, e) in zip(ps, pos)]
        elif op == "table":
            tbl, starts = a
            if isinstance(tbl, str):
                tbl, starts = tables["tables"][tbl], tables["starts"][starts]
            ct = mk_table(tbl, starts)
            d = ct.codon_dict(code=True)
            aa = [None] * 64
            for cod, code in d.items():
                aa[16 * int(cod[0]) + 4 * int(cod[1]) + int(cod[2])] = int(code)
            byname = [PROT.index(ct["ACGT"[n // 16] + "ACGT"[(n % 16) // 4] + "ACGT"[n % 4]]) for n in range(64)]
            if byname != aa:
                detail = "table[codon] disagrees with codon_dict()"
                aa = byname
            st = sorted(16 * int(c[0]) + 4 * int(c[1]) + int(c[2]) for c in ct.start_codons(code=True))

            def report(t):
                return [PROT.index(t["ACGT"[n // 16] + "ACGT"[(n % 16) // 4] + "ACGT"[n % 4]]) for n in range(64)]

            def starts_of(t):
                return sorted(16 * int(c[0]) + 4 * int(c[1]) + int(c[2]) for c in t.start_codons(code=True))

            # tables derived from this one must not change it (the translation of every other
            # sequence is a lookup in "the chosen codon table")
            d1 = ct.with_codon_mappings({"AAA": PROT[(aa[0] + 1) % 23]})
            d2 = ct.with_start_codons(["AAA"])
            out = {"aa": aa, "starts": st, "derived": report(d1), "derivedStarts": starts_of(d2),
                   "aaAfter": report(ct), "startsAfter": starts_of(ct)}
        elif op == "big_seq":
            n, syms = a
            alph = _big_alph(int(n))
            seq = bs.GeneralSequence(alph, [int(x) for x in syms])
            out = {"codes": [int(x) for x in seq.code.tolist()], "symbols": [int(x) for x in seq.symbols]}
        elif op == "fuse":
            b, k, km = a
            ka = mk_kmer_alph(b, k, [])
            out = int(ka.fuse(np.array([int(x) for x in km], dtype=np.int64)))
        elif op == "split":
            b, k, n = a
            ka = mk_kmer_alph(b, k, [])
            out = [int(x) for x in np.asarray(ka.split(int(n))).tolist()]
        elif op == "kencode":
            from biotite.sequence.align import KmerAlphabet

            al, k, syms = a
            ka = KmerAlphabet(mk_alph("letter", al), int(k))
            chars = [chr(x) for x in syms]
            out = int(ka.encode("".join(chars) if variant % 2 == 0 else chars))
        elif op == "kdecode":
            from biotite.sequence.align import KmerAlphabet

            al, k, n = a
            ka = KmerAlphabet(mk_alph("letter", al), int(k))
            out = [sym_int("letter", x) for x in ka.decode(int(n))]
        elif op == "fuse_d":
            b, k, km = a
            ka = mk_kmer_alph(b, k, [])
            out = to_digits(ka.fuse(np.array([int(x) for x in km], dtype=np.int64)), b, k)
        elif op == "split_d":
            b, k, dg = a
            ka = mk_kmer_alph(b, k, [])
            n = from_digits(dg, b)
            out = [int(x) for x in np.asarray(ka.split(np.int64(n) if variant % 2 else n)).tolist()]
        elif op == "kencode_d":
            from biotite.sequence.align import KmerAlphabet

            al, k, syms = a
            ka = KmerAlphabet(mk_alph("letter", al), int(k))
            chars = [chr(x) for x in syms]
            out = to_digits(ka.encode("".join(chars) if variant % 2 == 0 else chars), len(al), k)
        elif op == "kdecode_d":
            from biotite.sequence.align import KmerAlphabet

            al, k, dg = a
            ka = KmerAlphabet(mk_alph("letter", al), int(k))
            out = [sym_int("letter", x) for x in ka.decode(from_digits(dg, len(al)))]
        elif op == "kmers_d":
            b, k, sp, codes = a
            ka = mk_kmer_alph(b, k, sp, variant)
            mx = max([int(x) for x in codes], default=0)
            dts = [d for d, lim in zip(_DT, (255, 65535, 2 ** 32 - 1, 2 ** 63)) if mx <= lim]
            arr = np.array([int(x) for x in codes], dtype=dts[variant % len(dts)])
            out = [to_digits(x, b, k) for x in ka.create_kmers(arr).tolist()]
        elif op == "kmers":
            b, k, sp, codes = a
            ka = mk_kmer_alph(b, k, sp, variant)
            mx = max([int(x) for x in codes], default=0)
            dts = [d for d, lim in zip(_DT, (255, 65535, 2 ** 32 - 1, 2 ** 63)) if mx <= lim]
            arr = np.array([int(x) for x in codes], dtype=dts[variant % len(dts)])
            out = [int(x) for x in ka.create_kmers(arr).tolist()]
        else:
            raise DriverError(f"unknown op {op}")
        return obj, "ok", out, detail
    except DriverError:
        raise
    except bs.AlphabetError as e:
        return obj, "AlphabetError", [], f"AlphabetError: {e}"[:160]
    except IndexError as e:
        return obj, "IndexError", [], f"IndexError: {e}"[:160]
    except Exception as e:
        return obj, "Rejected", [], f"{type(e).__name__}: {e}"[:160]


_HAS_OUT = {"str", "len", "eq", "copy", "isvalid", "encode", "decode", "encode_multiple", "decode_multiple",
            "extends", "map", "translate", "fuse", "split", "kmers", "table", "kencode", "kdecode", "big_seq",
            "indep", "fuse_d", "split_d", "kencode_d", "kdecode_d", "kmers_d"}


def oc_ok(exp, obs):
    return exp == obs or (exp == "Rejected" and obs in ("AlphabetError", "IndexError"))


def compare(op, a, exp, obs):
    bad = []
    if not oc_ok(exp["oc"], obs["oc"]):
        bad.append("oc")
    if exp["kind"] != obs["kind"] or list(exp["alph"]) != list(obs["alph"]):
        bad.append("alph")
    if list(exp["codes"]) != list(obs["codes"]):
        bad.append("codes")
    if exp["oc"] == "ok" and obs["oc"] == "ok":
        has = op in _HAS_OUT or (op == "get" and a[0][0] == "int")
        if has:
            e, o = exp["out"], obs["out"]
            if op == "table":
                ok = (e["aa"] == o["aa"] and sorted(e["starts"]) == sorted(o["starts"])
                      and list(e["derived"]) == list(o["derived"])
                      and sorted(e["derivedStarts"]) == sorted(o["derivedStarts"])
                      and list(e["aaAfter"]) == list(o["aaAfter"])
                      and sorted(e["startsAfter"]) == sorted(o["startsAfter"]))
            elif op == "big_seq":
                ok = list(e["codes"]) == list(o["codes"]) and list(e["symbols"]) == list(o["symbols"])
            elif op == "translate" and not a[2]:
                ok = [list(x) for x in e] == [list(x) for x in o]
            else:
                ok = e == o
            if not ok:
                bad.append("out")
    return bad


def _observe(obj, op, a, tables=None, variant=0):
    obj2, oc, out, detail = apply_real(obj, op, a, tables, variant)
    try:
        st = project(obj2)
    except DriverError:
        raise
    except Exception as e:
        st = {"kind": "broken", "alph": [], "codes": []}
        detail = f"unprojectable: {type(e).__name__}: {e}"[:160]
        oc = "Broken"
    obs = {"oc": oc, "kind": st["kind"], "alph": st["alph"], "codes": st["codes"], "out": out}
    if detail:
        obs["detail"] = detail
    return obj2, obs


# --------------------------------------------------------------------------- S2 children
def warmup():
    import biotite.sequence  # noqa: F401
    import biotite.sequence.align  # noqa: F401

    if "C03_GRAPH" in os.environ:
        _graph()


def _graph():
    global _G
    if _G is None:
        with open(os.environ["C03_GRAPH"]) as f:
            _G = json.load(f)
    return _G


def exec_cases(item):
    from harness.tlabind.pool import progress
    from harness.tlabind.tlaval import parse_state, to_py

    with open(item["file"], "rb") as fh:
        fh.seek(item["beg"])
        text = fh.read(item["end"] - item["beg"]).decode()
    tables = item["tables"]
    mism, n, ops, ocs, nontriv = [], 0, {}, {}, 0
    cur = []

    def flush():
        nonlocal n, nontriv
        t = "".join(cur).strip()
        cur.clear()
        if not t:
            return
        st = parse_state(t)
        c, r = to_py(st["c"]), to_py(st["r"])
        if c["op"] == "init":
            return
        n += 1
        ops[c["op"]] = ops.get(c["op"], 0) + 1
        ocs[r["oc"]] = ocs.get(r["oc"], 0) + 1
        pre = {"kind": c["kind"], "alph": c["alph"], "codes": c["codes"]}
        if c["fam"] != "obj":
            pre = {"kind": "none", "alph": [], "codes": []}
        exp = dict(r)
        if c["fam"] != "obj":
            exp.update(pre)
        if r["out"] not in ([], {}) or r["oc"] != "ok" or r["codes"] != c["codes"]:
            nontriv += 1
        # which of the equivalent argument shapes (str/bytes/list/ndarray, dtypes) the case is run with:
        # a function of the case itself, not of its position in the dump (the dump order depends on
        # TLC's worker scheduling)
        variant = zlib.crc32(json.dumps([c["op"], c["a"], pre], sort_keys=True).encode()) % 60
        progress({"op": c["op"], "a": c["a"], "pre": pre})
        obj = mk_seq(pre["kind"], pre["alph"], pre["codes"])
        _o, obs = _observe(obj, c["op"], c["a"], tables, variant)
        bad = compare(c["op"], c["a"], exp, obs)
        if bad:
            mism.append({"kind": "case", "op": c["op"], "a": c["a"], "pre": pre, "bad": bad,
                         "variant": variant, "expected": {k: exp[k] for k in ("oc", "kind", "alph", "codes", "out")},
                         "observed": obs})

    for line in text.splitlines(keepends=True):
        if line.startswith("State ") and line.rstrip().endswith(":"):
            flush()
        else:
            cur.append(line)
    flush()
    return {"mismatch": mism, "n": n, "ops": ops, "ocs": ocs, "nontrivial": nontriv}


def exec_paths(batch):
    mism, steps = [], 0
    for item in batch["paths"]:
        r = exec_path(item)
        mism.extend(r["mismatch"])
        steps += r["steps"]
    return {"mismatch": mism, "steps": steps}


_FRESH = ("reverse", "complement", "add")      # SeqMachine.Fresh: calls that return a new sequence


def _proj_held(held):
    if held is None:
        return []
    try:
        p = project(held)
    except DriverError:
        raise
    except Exception as e:
        return [{"alph": [], "codes": [], "broken": f"{type(e).__name__}: {e}"[:120]}]
    return [{"alph": p["alph"], "codes": p["codes"]}]


def _machine_step(obj, held, op, a, variant):
    """One call of SeqMachine on the two live objects -> (object at hand, held object, observation)."""
    if op == "swap":
        if held is None:
            raise DriverError("swap without a held sequence")
        obj2, held2 = held, obj
        _x, obs = _observe(obj2, "len", [], None, variant)
        obs["out"] = []
    elif op == "takecopy":
        held2 = obj
        obj2, obs = _observe(obj.copy(), "len", [], None, variant)
        obs["out"] = []
    else:
        obj2, obs = _observe(obj, op, a, None, variant)
        held2 = obj if (op in _FRESH and obs["oc"] == "ok") else held
    obs["held"] = _proj_held(held2)
    return obj2, held2, obs


def exec_path(item):
    from harness.tlabind.pool import progress

    G = _graph()
    states, labels = G["states"], G["labels"]
    st = states[item["init"]]
    obj = mk_seq(st["kind"], st["alph"], st["codes"])
    held = None                     # the sequence the one at hand was derived from (SeqMachine.held)
    pre = st
    mism, nsteps, hist = [], 0, []
    for li, dst in item["steps"]:
        _k, op, a = labels[li]
        exp = states[dst]
        hist.append([op, a])
        p3 = {k: pre[k] for k in ("kind", "alph", "codes")}
        progress({"op": op, "a": a, "pre": p3})
        nsteps += 1
        variant = (li + nsteps) % 60
        obj2, held2, obs = _machine_step(obj, held, op, a, variant)
        bad = compare(op, a, exp, obs)
        if obs["held"] != exp["held"]:
            bad.append("held")
        if bad:
            mism.append({"kind": "step", "op": op, "a": a, "pre": p3, "bad": bad, "variant": variant,
                         "expected": {k: exp[k] for k in ("oc", "kind", "alph", "codes", "out", "held")},
                         "observed": obs, "history": list(hist),
                         "init": {k: st[k] for k in ("kind", "alph", "codes")}})
            obj2 = mk_seq(exp["kind"], exp["alph"], exp["codes"])       # resynchronise
            held2 = mk_seq(exp["kind"], exp["held"][0]["alph"], exp["held"][0]["codes"]) if exp["held"] else None
        obj, held = obj2, held2
        pre = exp
    return {"mismatch": mism, "steps": nsteps}


# --------------------------------------------------------------------------- S3 child
def _rand_alph(rng, kind):
    if kind == "generic":
        n = rng.randint(1, len(HASHABLES) - 1)
        return rng.sample(range(len(HASHABLES)), n)
    n = rng.choice([1, 2, 4, 7, 20, 60, 94])
    return rng.sample(range(33, 127), n)


def _rand_int_form(rng, k):
    """A form admissible for the integer k (SeqCodecOps.Dom_Form): unsigned forms hold no negative value."""
    return rng.choice([f for f in INT_FORMS if k >= 0 or f[0] != "u"])


def _rand_index(rng, n):
    k = rng.random()
    if k < 0.3:
        v = rng.randint(-n - 2, n + 1)
        return ["int", [v], _rand_int_form(rng, v)]
    if k < 0.6:
        def c():
            return [] if rng.random() < 0.3 else [rng.randint(-n - 2, n + 2)]
        step = [] if rng.random() < 0.5 else [rng.choice([-3, -2, -1, 1, 2, 3])]
        return ["slice", [c(), c(), step], rng.choice(["py", "np"])]
    if k < 0.8:
        return ["mask", [rng.random() < 0.5 for _ in range(n)], rng.choice(["np", "list"] if n else ["np"])]
    m = rng.randint(0, min(n, 6)) if n else 0
    arr = [rng.randint(-n, n - 1) for _ in range(m)] if n else []
    if rng.random() < 0.15:
        arr.append(n + rng.randint(0, 2))
    forms = [f for f in ARR_FORMS if (f != "list" or arr) and (f[0] != "u" or all(v >= 0 for v in arr))]
    return ["arr", arr, rng.choice(forms)]


def _kmer_bits(b):
    """SeqCodecOps.Bits: the smallest t with 2^t >= b."""
    t = 1
    while 2 ** t < b:
        t += 1
    return t


def _resolve_len(idx, n):
    """Number of selected positions (and whether they are distinct) via numpy itself."""
    np = _np()
    try:
        sel = np.arange(n)[to_index(idx)]
    except Exception:
        return None, False
    if not hasattr(sel, "__len__"):
        return None, False
    return len(sel), len(set(sel.tolist())) == len(sel)


def gen_trace(item):
    from harness.tlabind.pool import progress

    rng = random.Random(item["seed"])
    kind = item["kind"]
    maxlen = item["maxlen"]
    if kind == "general":
        alph = _rand_alph(rng, "generic")
    elif kind == "nuc":
        alph = NUC_AMB if rng.random() < 0.4 else NUC_UNAMB
    else:
        alph = PROT_ALPH
    n0 = rng.randint(0, maxlen)
    syms = [rng.choice(alph) for _ in range(n0)]
    if kind == "nuc" and alph is NUC_AMB and n0 > 0:
        syms[rng.randrange(n0)] = rng.choice(NUC_AMB[4:])
    events = []
    obj = None
    for step in range(item["length"]):
        if obj is None:
            op, a = "construct", [kind, alph if kind == "general" else [], syms]
            cur = {"kind": "general", "alph": [0], "codes": []}
        else:
            cur = {k: events[-1][k] for k in ("kind", "alph", "codes")}
            al, n = cur["alph"], len(cur["codes"])
            symk = "generic" if kind == "general" else "letter"
            bad_sym = (next((i for i in range(len(HASHABLES)) if i not in al), None) if kind == "general"
                       else rng.choice([s for s in (64, 35, 94, 49) if s not in al]))
            if bad_sym is None:        # the alphabet holds every hashable we have: no foreign symbol left
                bad_sym = al[0]
            op = rng.choice(["str", "len", "get", "get", "get", "setsym", "setsym", "setmany", "add", "reverse",
                             "eq", "copy", "isvalid", "setcode", "construct", "indep", "indep"]
                            + (["complement"] * 2 if kind == "nuc" else [])
                            + ["encode_multiple", "decode_multiple", "decode", "encode", "extends", "map",
                               "translate", "translate", "table", "fuse", "split", "kmers", "kmers",
                               "kencode", "kdecode", "kmers_d", "kmers_d", "fuse_d", "split_d", "kencode_d",
                               "kdecode_d"])
            if op in ("str", "len", "reverse", "copy", "isvalid", "complement"):
                a = []
            elif op == "get":
                a = [_rand_index(rng, n)]
            elif op == "setsym":
                v = rng.randint(-n - 1, n)
                a = [v, bad_sym if rng.random() < 0.15 else rng.choice(al), _rand_int_form(rng, v)]
            elif op == "indep":
                # derive a new sequence, write into one of the objects, read both (SeqCodecOps.Indep)
                dop = rng.choice(["copy", "reverse", "add"] + (["complement"] * 2 if kind == "nuc" else []))
                da, wal, olen = [], al, 0
                if dop == "add":
                    if n > 3 * maxlen:
                        continue
                    r = rng.random()
                    if kind == "general" and r < 0.3 and bad_sym not in al:
                        al2 = al + [bad_sym]
                    elif kind == "general" and r < 0.5 and len(al) > 1:
                        al2 = al[:-1]
                    elif kind == "nuc" and r < 0.4:
                        al2 = NUC_AMB if al == NUC_UNAMB else NUC_UNAMB
                    else:
                        al2 = al
                    olen = rng.choice([0, 0, 1, 2, rng.randint(0, 5)])
                    da = [al2, [rng.choice(al2) for _ in range(olen)]]
                side = rng.choice(["res", "res", "src"] + (["other"] if dop == "add" else []))
                if side == "res":
                    wlen = n + olen
                    wal = al if len(al) >= len(da[0] if da else al) else da[0]
                elif side == "other":
                    wlen, wal = olen, da[0]
                else:
                    wlen = n
                v = rng.randint(-wlen, wlen)            # wlen itself: refused (IndexError)
                a = [dop, da, side, [v, bad_sym if rng.random() < 0.08 else rng.choice(wal), _rand_int_form(rng, v)]]
            elif op == "setmany":
                idx = _rand_index(rng, n)
                if idx[0] == "int":
                    continue
                m, distinct = _resolve_len(idx, n)
                if m is None or not distinct:
                    continue
                a = [idx, [rng.choice(al) for _ in range(m)]]
                if m and rng.random() < 0.1:
                    a[1][rng.randrange(m)] = bad_sym
            elif op == "add":
                if n > 3 * maxlen:
                    continue
                r = rng.random()
                if kind == "general" and r < 0.25 and bad_sym not in al:
                    al2 = al + [bad_sym]                  # an alphabet that extends ours
                elif kind == "general" and r < 0.4 and len(al) > 1:
                    al2 = al[:-1]                         # an alphabet we extend
                elif kind == "general" and r < 0.5:
                    al2 = list(reversed(al)) if len(al) > 1 else [bad_sym]   # incompatible (or equal)
                elif kind == "nuc" and r < 0.4:
                    al2 = NUC_AMB if al == NUC_UNAMB else NUC_UNAMB
                else:
                    al2 = al
                a = [al2, [rng.choice(al2) for _ in range(rng.randint(0, 5))]]
            elif op == "eq":
                s = [al[c] for c in cur["codes"]]
                if rng.random() < 0.5 and s:
                    s[rng.randrange(len(s))] = rng.choice(al)
                elif rng.random() < 0.3:
                    s = s + [al[0]]
                a = [s]
            elif op == "setcode":
                a = [[rng.randrange(len(al)) for _ in range(rng.randint(0, maxlen))]]
            elif op == "construct":
                s = [rng.choice(al) for _ in range(rng.randint(0, maxlen))]
                if rng.random() < 0.2:
                    s.insert(rng.randint(0, len(s)), bad_sym)
                a = [kind, al if kind == "general" else [], s]
            elif op in ("encode_multiple", "decode_multiple", "decode", "encode", "extends", "map"):
                ak = rng.choice(["generic", "letter"])
                pal = _rand_alph(rng, ak)
                universe = list(range(len(HASHABLES))) if ak == "generic" else list(range(0, 256))
                if op == "encode":
                    a = [pal, rng.choice(pal) if rng.random() < 0.6 else rng.choice(universe)]
                elif op == "decode":
                    a = [pal, rng.choice([rng.randrange(len(pal)), -1, len(pal), rng.randint(-300, 600)])]
                elif op == "encode_multiple":
                    s = [rng.choice(pal) for _ in range(rng.randint(0, 30))]
                    if rng.random() < 0.3:
                        s.insert(rng.randint(0, len(s)), rng.choice(universe))
                    a = [pal, s]
                elif op == "decode_multiple":
                    k = [rng.randrange(len(pal)) for _ in range(rng.randint(0, 30))]
                    if rng.random() < 0.35:
                        k.insert(rng.randint(0, len(k)), rng.choice([len(pal), -1, rng.randint(-300, 600)]))
                    a = [pal, k]
                elif op == "extends":
                    r = rng.random()
                    other = pal[:rng.randint(1, len(pal))] if r < 0.5 else _rand_alph(rng, ak)
                    if r > 0.8 and len(pal) > 1:
                        other = list(pal)
                        other[0], other[-1] = other[-1], other[0]
                    a = [pal, other] if rng.random() < 0.7 else [other, pal]
                elif rng.random() < 0.3:
                    # "wide" alphabets of Python ints: the target has more than 256 symbols (its codes
                    # need 16 bits) while the source is small, and the shared symbols sit at high codes
                    nt = rng.randint(257, 330)
                    tgt = rng.sample(range(1000, 1600), nt)
                    ns = rng.randint(1, 40)
                    pal = rng.sample(tgt[200:], min(ns, nt - 200)) + rng.sample(tgt[:200], rng.randint(0, 3))
                    if rng.random() < 0.3:       # the wide alphabet as the source instead
                        pal, tgt = list(tgt), list(tgt) + [1700, 1701][:rng.randint(0, 2)]
                        if rng.random() < 0.5:
                            tgt.reverse()
                    a = [pal, tgt, [rng.randrange(len(pal)) for _ in range(rng.randint(1, 20))]]
                else:
                    extra = [s for s in (universe if ak == "generic" else range(33, 127)) if s not in pal]
                    rng.shuffle(extra)
                    tgt = list(pal) + extra[:rng.randint(0, 3)]
                    if rng.random() < 0.6:
                        rng.shuffle(tgt)
                    a = [pal, tgt, [rng.randrange(len(pal)) for _ in range(rng.randint(0, 20))]]
            elif op in ("translate", "table"):
                tbl = [rng.randrange(24) for _ in range(64)]
                for _ in range(rng.randint(0, 6)):
                    tbl[rng.randrange(64)] = 23
                starts = sorted(rng.sample(range(64), rng.randint(1, 5)))
                if op == "table":
                    a = [tbl, starts]
                else:
                    dna = [rng.randrange(4) for _ in range(rng.randint(0, 60))]
                    complete = rng.random() < 0.3
                    if complete and rng.random() < 0.8:
                        dna = dna[:len(dna) // 3 * 3]
                    a = [dna, tbl, complete, starts, (not complete) and rng.random() < 0.5]
            elif op in ("kencode", "kdecode"):
                pal = _rand_alph(rng, "letter")
                if len(pal) > 24:
                    pal = pal[:rng.choice([2, 4, 20, 24])]
                k = rng.randint(2, 5)
                while len(pal) ** k >= 10 ** 8:
                    k -= 1
                if op == "kencode":
                    s = [rng.choice(pal) for _ in range(k)]
                    r = rng.random()
                    if r < 0.15:
                        s[rng.randrange(k)] = rng.choice([x for x in range(33, 127) if x not in pal] or [pal[0]])
                    elif r < 0.25:
                        s = s + [pal[0]]
                    a = [pal, k, s]
                else:
                    a = [pal, k, rng.choice([rng.randrange(len(pal) ** k), len(pal) ** k - 1, len(pal) ** k, -1])]
            elif op in ("kencode_d", "kdecode_d"):
                pal = _rand_alph(rng, "letter")
                k = rng.randint(2, 62 // _kmer_bits(len(pal))) if len(pal) > 1 else rng.randint(2, 40)
                if len(pal) == 1:
                    pal = pal + [x for x in range(33, 127) if x not in pal][:1]
                    k = rng.randint(2, 62)
                if op == "kencode_d":
                    s = [rng.choice(pal) for _ in range(k)]
                    r = rng.random()
                    if r < 0.15:
                        s[rng.randrange(k)] = rng.choice([x for x in range(33, 127) if x not in pal] or [pal[0]])
                    elif r < 0.25:
                        s = s + [pal[0]]
                    a = [pal, k, s]
                else:
                    dg = [rng.randrange(len(pal)) for _ in range(k)]
                    if rng.random() < 0.15:
                        dg = [1] + [0] * k
                    a = [pal, k, dg]
            elif op in ("fuse_d", "split_d", "kmers_d"):
                b = rng.choice([2, 3, 4, 4, 5, 20, 24, 24, 94, 300])
                k = rng.randint(2, 62 // _kmer_bits(b))
                if op == "fuse_d":
                    km = [rng.randrange(b) for _ in range(k)]
                    r = rng.random()
                    if r < 0.15:
                        km[rng.randrange(k)] = rng.choice([b + 1, b + 2])    # code b itself: the known finding of fuse
                    elif r < 0.25:
                        km = km[:-1]
                    a = [b, k, km]
                elif op == "split_d":
                    dg = [rng.randrange(b) for _ in range(k)]
                    r = rng.random()
                    if r < 0.15:
                        dg = [1] + [0] * k
                    elif r < 0.3:
                        dg = [b - 1] * k
                    a = [b, k, dg]
                else:
                    if rng.random() < 0.6:
                        sp = []
                        span = k
                    else:
                        span = k + rng.randint(1, 4)
                        off = sorted(rng.sample(range(span), k))
                        sp = [off]
                        span = off[-1] + 1
                    codes = [rng.randrange(b) for _ in range(rng.randint(max(0, span - 1), span + 12))]
                    offs = sp[0] if sp else list(range(k))
                    read = sorted({i + o for i in range(len(codes) - span + 1) for o in offs})
                    if read and rng.random() < 0.15:
                        codes[rng.choice(read)] = rng.choice([b, b + 3])
                    a = [b, k, sp, codes]
            elif op in ("fuse", "split", "kmers"):
                b = rng.choice([2, 3, 4, 4, 5, 20, 24])
                k = rng.randint(2, 6)
                while b ** k >= 10 ** 8:
                    k -= 1
                if op == "fuse":
                    km = [rng.randrange(b) for _ in range(k)]
                    r = rng.random()
                    if r < 0.2:
                        km[rng.randrange(k)] = rng.choice([b, b + 1, -1])
                    elif r < 0.3:
                        km = km[:-1]
                    a = [b, k, km]
                elif op == "split":
                    a = [b, k, rng.choice([rng.randrange(b ** k), b ** k - 1, b ** k, -1, 0])]
                else:
                    if rng.random() < 0.5:
                        sp = []
                        span = k
                    else:
                        span = k + rng.randint(1, 4)
                        off = sorted(rng.sample(range(span), k))
                        sp = [off]
                        span = off[-1] + 1
                    codes = [rng.randrange(b) for _ in range(rng.randint(max(0, span - 2), span + 25))]
                    offs = sp[0] if sp else list(range(k))
                    read = sorted({i + o for i in range(len(codes) - span + 1) for o in offs})
                    if read and rng.random() < 0.2:      # Dom_Kmers: invalid codes only where a k-mer reads
                        codes[rng.choice(read)] = rng.choice([b, b + 3, 200])
                    a = [b, k, sp, codes]
            else:
                raise DriverError(op)
        variant = rng.randrange(60)
        progress({"op": op, "a": a, "pre": cur})
        obj, obs = _observe(obj, op, a, None, variant)
        ev = {"op": op, "a": a, "oc": obs["oc"], "kind": obs["kind"], "alph": obs["alph"],
              "codes": obs["codes"], "out": obs["out"], "pre": cur, "variant": variant}
        if "detail" in obs:
            ev["detail"] = obs["detail"]
        events.append(ev)
        if obs["oc"] == "Broken" or (obj is None):
            break
        if any(not 0 <= c < len(obs["alph"]) for c in obs["codes"]):
            break      # the object is no longer a sequence over its alphabet: the event is judged, the history ends
    return {"events": events}


# --------------------------------------------------------------------------- classification
def classify(mm):
    if mm.get("kind") not in ("case", "step", "event"):
        return None
    op, a, exp, obs, bad = mm.get("op"), mm.get("a"), mm.get("expected"), mm.get("observed"), mm.get("bad")
    if op is None or exp is None or obs is None or bad is None:
        return None
    if op == "decode_multiple" and exp["oc"] == "AlphabetError" and akind(a[0]) == "letter":
        # LetterAlphabet.decode_multiple casts the codes to uint8 before the range check
        n = len(a[0])
        wrapped = [int(x) % 256 for x in a[1]]
        outside = [x for x in a[1] if not 0 <= x <= 255]
        if outside and all(w < n for w in wrapped) and obs["oc"] == "ok" and bad == ["oc"]:
            if obs["out"] == [a[0][w] for w in wrapped]:
                return "C03-letter-decode-uint8-wrap"
    if op == "fuse" and exp["oc"] == "AlphabetError" and obs["oc"] == "ok" and bad == ["oc"]:
        b, k, km = a
        if len(km) == k and all(x <= b for x in km) and any(x == b or x < 0 for x in km):
            val = 0
            for x in km:
                val = val * b + x
            if obs["out"] == val:
                return "C03-kmer-fuse-range"
    return None


# --------------------------------------------------------------------------- orchestration
def _split_dump(path, per_item):
    offs, pos = [], 0
    with open(path, "rb") as fh:
        for line in fh:
            if line.startswith(b"State ") and line.rstrip().endswith(b":"):
                offs.append(pos)
            pos += len(line)
    offs.append(pos)
    items = []
    for k in range(0, len(offs) - 1, per_item):
        items.append({"file": path, "beg": offs[k], "end": offs[min(k + per_item, len(offs) - 1)]})
    return items, len(offs) - 1


def _read_tables(path):
    """The root state "tables" publishes the codon tables / start sets used by name in the cases."""
    from harness.tlabind.tlaval import parse_value, to_py

    with open(path) as fh:
        text = fh.read()
    i = text.find('fam |-> "tables"')
    while i >= 0:
        j = text.rfind("State ", 0, i)
        k = text.find("State ", i)
        block = text[j:k if k > 0 else len(text)]
        if 'op |-> "init"' in block:
            r = block[block.index("/\\ r = ") + 7:].strip()
            out = to_py(parse_value(r))["out"]
            return {"tables": out["tables"], "starts": {k: sorted(v) for k, v in out["starts"].items()}}
        i = text.find('fam |-> "tables"', i + 1)
    raise RuntimeError("tables root not found in the dump")


_KEEP = ("op", "a", "oc", "kind", "alph", "codes", "out")
_NEED_OPS = {"construct", "str", "len", "get", "setsym", "setmany", "add", "reverse", "eq", "copy", "isvalid",
             "complement", "setcode", "encode", "decode", "encode_multiple", "decode_multiple", "extends",
             "map", "translate", "table", "fuse", "split", "kmers", "kencode", "kdecode", "big_seq",
             "indep", "fuse_d", "split_d", "kencode_d", "kdecode_d", "kmers_d"}


def run(ctx):
    from harness.tlabind import dot, helpers, pool, tlc
    from harness.tlabind.core import Vacuity
    from harness.tlabind.tlaval import to_py

    quick = ctx.quick
    ctx.assumptions += [
        "Dom_Alphabet: alphabets hold pairwise distinct symbols (>= 1)",
        "symbols of letter alphabets are the 94 printable ASCII characters; encoder inputs are all byte values 0..255 "
        "(bytes >= 128 are passed as bytes objects); generic alphabets use 12 hashable objects of different types",
        "Dom_Mapper: the target alphabet contains every source symbol; only valid codes are mapped",
        "code arrays for decode_multiple are ndarrays when they hold values outside 0..255 (numpy rejects such "
        "Python lists with OverflowError before biotite sees them)",
        "== and + operands are sequences of the same class; == operands have the same alphabet",
        "assignment through a slice/mask uses a value of exactly the selected length",
        "codon tables are total functions 64 codons -> 24 amino-acid codes given explicitly with >= 1 start codon "
        "(the default table's content is not part of the property); DNA is over the unambiguous alphabet",
        "k-mer codes as integers only where len(base)^k < 10^8 (TLC integers are 32 bit); beyond that codes are "
        "compared through their base-b digits (digit form), for every k with k * bitlength(len(base)) <= 62 "
        "(Dom_KmerWidth: the codes are int64); spaced models are sorted distinct offsets",
        "Dom_Form: an index is handed over as a Python int / numpy integer scalar (int8..int64, uint8..uint64; "
        "unsigned forms for non-negative values), a non-empty Python list or an integer ndarray of those dtypes, "
        "a bool ndarray or a non-empty list of bools, a slice with Python or numpy integer bounds",
        "independence under later writes is asserted for copy(), reverse(), complement() and + (and the other "
        "operand of +); whether a sub-sequence obtained by indexing shares memory with its source is left open",
        "create_kmers must raise AlphabetError only for invalid codes at positions that are read by some k-mer",
        "exhaustive model: DNA strings <= 5 (quick) / 7 (thorough) through translate and create_kmers, objects of "
        "length <= 3, alphabets of 1, 2, 4, 15, 24 and 94 letters; beyond that only recorded traces",
        "trusted: TLC, the TLA+ value parser, numpy, the projection (get_alphabet().get_symbols(), .code)",
    ]
    ctx.cov["rule"] = ("non-trivial = the call returns a value, is refused or changes the object (S2 cases); "
                       "a path/trace with >= 2 accepted calls (machine paths, S3)")
    # ---- S1 + S2a ---------------------------------------------------------------------
    d = tlc.scratch_dir("c03")
    prefix = os.path.join(d, "cases")
    ctx.tlc("SeqCodec", "MC.cfg" if quick else "MC_thorough.cfg", stage="S1", dump=prefix, timeout=2400)
    dump = prefix + ".dump" if os.path.exists(prefix + ".dump") else prefix
    tables = _read_tables(dump)
    items, nstates = _split_dump(dump, 400)
    for it in items:
        it["tables"] = tables
    ctx.log(f"S2a: {nstates} dumped states in {len(items)} items")
    res = helpers.run_pool(ctx, "harness.drivers.c03:exec_cases", items, stage="S2", item_timeout=180)
    ops, ocs, ncases, nontriv = {}, {}, 0, 0
    for r in res:
        if not r or "crash" in r:
            continue
        ncases += r["n"]
        nontriv += r["nontrivial"]
        for k, v in r["ops"].items():
            ops[k] = ops.get(k, 0) + v
        for k, v in r["ocs"].items():
            ocs[k] = ocs.get(k, 0) + v
    ctx.cov["s2_cases_per_op"] = ops
    ctx.cov["s2_cases_per_outcome"] = ocs
    if _NEED_OPS - set(ops):
        raise Vacuity(f"calls never enumerated: {sorted(_NEED_OPS - set(ops))}")
    if not {"ok", "AlphabetError", "IndexError", "Rejected"} <= set(ocs):
        raise Vacuity(f"outcomes not all reached: {ocs}")
    ctx.exhaustive = True
    ctx.traces_validated += ncases
    ctx.evaluations += ncases
    ctx.nontrivial += nontriv
    ctx.cov["s2_cases"] = ncases
    # ---- S1 + S2b: object histories -----------------------------------------------------
    dotf = os.path.join(d, "g.dot")
    ctx.tlc("SeqMachine", "MC_machine.cfg" if quick else "MC_machine_thorough.cfg", stage="S1-machine",
            dump_dot=dotf, workers=1, timeout=1800)
    g = dot.load(dotf)
    if not g.edges:
        raise RuntimeError("empty state graph")
    labels, lab_ix, ops_seen = [], {}, {}
    for (_s, lab, _d) in g.edges:
        if lab not in lab_ix:
            _name, args = dot.parse_label(lab)
            lab_ix[lab] = len(labels)
            labels.append(to_py(args[0]))
        c = labels[lab_ix[lab]]
        ops_seen[c[1]] = ops_seen.get(c[1], 0) + 1
    ctx.cov["transitions_per_op"] = ops_seen
    needm = {"str", "len", "reverse", "copy", "isvalid", "get", "setsym", "setmany", "add", "eq", "complement",
             "takecopy", "swap"}
    if needm - set(ops_seen):
        raise Vacuity(f"machine calls never taken: {sorted(needm - set(ops_seen))}")
    ids = {nid: k for k, nid in enumerate(g.state_text)}
    states = [None] * len(ids)
    socs = {}
    for nid, k in ids.items():
        st = g.state(nid)
        states[k] = {"kind": st["kind"], "alph": to_py(st["alph"]), "codes": to_py(st["codes"]),
                     "oc": st["oc"], "out": to_py(st["out"]), "held": to_py(st["held"])}
        socs[st["oc"]] = socs.get(st["oc"], 0) + 1
    if not {"ok", "AlphabetError", "IndexError"} <= set(socs):
        raise Vacuity(f"machine outcomes not all reached: {socs}")
    ctx.cov["machine_states_per_outcome"] = socs
    paths, covered = dot.covering_paths(g, max_len=8, rng=ctx.rng)
    if covered != len(g.edges):
        raise Vacuity(f"only {covered} of {len(g.edges)} transitions covered by paths")
    gfile = os.path.join(d, "graph.json")
    with open(gfile, "w") as f:
        json.dump({"states": states, "labels": labels}, f)
    pitems = [{"init": ids[root], "steps": [[lab_ix[lab], ids[dst]] for lab, dst in steps]}
              for root, steps in paths]
    ctx.log(f"S2b: {len(pitems)} paths covering {covered}/{len(g.edges)} transitions")
    batches = [{"paths": b} for b in helpers.chunked(pitems, 250)]
    pres = helpers.run_pool(ctx, "harness.drivers.c03:exec_paths", batches, stage="S2",
                            env={"C03_GRAPH": gfile}, item_timeout=120)
    steps = sum((r or {}).get("steps", 0) for r in pres)
    ctx.log(f"S2b: {steps} steps executed")
    ctx.traces_validated += len(pitems)
    ctx.evaluations += steps
    ctx.nontrivial += sum(1 for it in pitems if len(it["steps"]) >= 2)
    ctx.cov.update({"s2_paths": len(pitems), "s2_steps_executed": steps,
                    "s2_transitions_covered": covered, "s2_transitions_total": len(g.edges)})
    for root, stp in paths[:2]:
        ctx.sample({"s2_path": [labels[lab_ix[lab]] for lab, _ in stp]})
    # ---- S3 -----------------------------------------------------------------------------
    ntr = 200 if quick else 2500
    length = 14 if quick else 22
    titems = [{"seed": ctx.rng.randrange(1 << 30), "length": length,
               "kind": ("general", "nuc", "prot", "general")[k % 4], "maxlen": 30 if k % 3 else 8}
              for k in range(ntr)]
    tres = pool.run_isolated("harness.drivers.c03:gen_trace", titems, item_timeout=120)
    traces = []
    for it, r in zip(titems, tres):
        if "driver_error" in r:
            raise RuntimeError(f"S3 driver error: {r['driver_error']}\n{r.get('tb', '')}")
        if "crash" in r:
            ctx.mismatch({"stage": "S3", "kind": "crash", "signal": r["crash"],
                          "progress": r.get("progress"), "item": it})
            continue
        if r["events"]:
            traces.append(r["events"])
    ctx.log(f"S3: {len(traces)} traces recorded")
    validate_traces(ctx, traces)
    # the recorded histories must reach the classes the exhaustive stage is bounded on
    # (counted on the calls that were made, whatever their outcome)
    wide = sum(1 for t in traces for e in t
               if e["op"] == "kmers_d" and e["a"][2] == [] and len(e["a"][3]) - int(e["a"][1]) >= 1
               and all(x < int(e["a"][0]) for x in e["a"][3])
               and int(e["a"][0]) ** (int(e["a"][1]) - 1) >= 2 ** 32)
    npidx = sum(1 for t in traces for e in t
                if (e["op"] == "setsym" and e["a"][2] != "py" and -len(e["pre"]["codes"]) <= e["a"][0] < len(e["pre"]["codes"])
                    and e["a"][1] in e["pre"]["alph"]))
    indep = sum(1 for t in traces for e in t if e["op"] == "indep" and len(e["pre"]["codes"]) >= 1)
    ctx.cov.update({"s3_wide_rolling_kmers": wide, "s3_numpy_int_assignments": npidx, "s3_indep_histories": indep})
    if not (wide and npidx and indep):
        raise Vacuity(f"S3 never reached: wide k-mer codes {wide}, numpy-integer assignments {npidx}, "
                      f"derive-write-read histories {indep}")

    def corrupt(tr):
        for e in tr[1:]:
            # (the corrupted code stays a valid code: later events are judged from this logged state)
            if (e["oc"] == "ok" and e["codes"] and len(e["alph"]) >= 2
                    and e["op"] in ("reverse", "complement", "get", "setsym", "add", "setmany")):
                e["codes"][0] = (e["codes"][0] + 1) % len(e["alph"])
                return True
        for e in tr[1:]:
            if e["oc"] == "ok" and e["op"] in ("encode_multiple", "kmers", "map") and e["out"]:
                e["out"][0] = e["out"][0] + 1
                return True
            if e["oc"] == "ok" and e["op"] == "kmers_d" and e["out"]:
                e["out"][-1][-1] = (e["out"][-1][-1] + 1) % int(e["a"][0])      # one digit of the last code
                return True
            if e["oc"] == "ok" and e["op"] == "indep" and e["out"]["src"] and len(e["alph"]) >= 2:
                e["out"]["src"][0] = next(s for s in e["alph"] if s != e["out"]["src"][0])   # as if the source had changed
                return True
        return False

    helpers.binding_selftest(ctx, [[{k: e[k] for k in _KEEP} for e in t] for t in traces], corrupt, max_traces=6)
    # diagnostics outside the property statement
    try:
        r = pool.run_isolated("harness.drivers.c03:probe_diagnostics", [{}], item_timeout=30)[0]
        for line in r.get("notes", []):
            ctx.note("diagnostic (not part of the property): " + line)
    except Exception as e:
        ctx.note(f"diagnostic probe failed: {e!r}")


def probe_diagnostics(_item):
    np = _np()
    bs = _bs()
    notes = []
    s = bs.NucleotideSequence("ACGT")
    try:
        s.code = np.array([256, 1])
        notes.append(f"Sequence.code = [256, 1] is cast to uint8 silently: str() = {str(s)!r}")
    except Exception as e:
        notes.append(f"Sequence.code = [256, 1] raises {type(e).__name__}")
    try:
        s = bs.NucleotideSequence("ACGT")
        sub = s[0:2]
        sub[0] = "T"
        if str(s) != "ACGT":
            notes.append(f"a slice shares memory with its source (numpy view): s[0:2][0] = 'T' turns s into {str(s)!r}; "
                         "left open by the specification (indexing is no derive operation of Indep)")
    except Exception as e:
        notes.append(f"slice sharing probe raised {type(e).__name__}")
    try:
        from biotite.sequence.align import KmerAlphabet

        hash(KmerAlphabet(bs.NucleotideSequence.alphabet_unamb, 2))
    except Exception as e:
        notes.append(f"hash(KmerAlphabet(base, 2)) without spacing raises {type(e).__name__}: {e}")
    return {"notes": notes}


def validate_traces(ctx, traces):
    from harness.tlabind import helpers

    if not traces:
        raise RuntimeError("S3 produced no traces")
    mms = helpers.tlc_validate(ctx, traces, keep=_KEEP, timeout=2400)
    dom = [v for v in mms if v[3] == ["DOMAIN"]]
    if dom:
        bad = [[traces[v[1] - 1][v[2] - 1]["op"], traces[v[1] - 1][v[2] - 1]["a"]] for v in dom[:3]]
        raise RuntimeError(f"S3 generator left the specification's domain: {bad}")
    nev = sum(len(t) for t in traces)
    ctx.traces_validated += len(traces)
    ctx.evaluations += nev
    ctx.cov["s3_traces"] = len(traces)
    ctx.cov["s3_events"] = nev
    per = {}
    for t in traces:
        for e in t:
            per[e["op"]] = per.get(e["op"], 0) + 1
    ctx.cov["s3_events_per_op"] = per
    ctx.nontrivial += sum(1 for t in traces if sum(1 for e in t if e["oc"] == "ok") >= 3)
    ctx.sample({"s3_events": [{k: e[k] for k in _KEEP} for e in traces[0][:2]]})
    for v in mms:
        _tag, tid, l, flags, eoc, ealph, ecodes, eout = v
        e = traces[tid - 1][l - 1]
        names = ("oc", "alph", "codes", "out")
        obs = {k: e[k] for k in ("oc", "kind", "alph", "codes", "out")}
        if "detail" in e:
            obs["detail"] = e["detail"]
        ctx.mismatch({"stage": "S3", "kind": "event", "op": e["op"], "a": e["a"], "pre": e["pre"],
                      "bad": [n for n, ok in zip(names, flags) if not ok], "variant": e["variant"],
                      "expected": {"oc": eoc, "kind": e["kind"], "alph": ealph, "codes": ecodes, "out": eout},
                      "observed": obs, "trace": tid, "event": l,
                      "history": [[x["op"], x["a"]] for x in traces[tid - 1][:l]]})
    return len(mms)


def replay(record):
    if record.get("kind") not in ("case", "step", "event"):
        return {"error": "record kind not replayable", "record": record}
    if record["kind"] == "step" and record.get("history") and record.get("init"):
        # a transition of the two-object machine: re-run the whole history from the initial object
        ini = record["init"]
        obj, held, obs = mk_seq(ini["kind"], ini["alph"], ini["codes"]), None, None
        for op, a in record["history"]:
            obj, held, obs = _machine_step(obj, held, op, a, record.get("variant", 0))
        exp = dict(record["expected"])
        bad = compare(record["op"], record["a"], exp, obs)
        if "held" in exp and obs["held"] != exp["held"]:
            bad.append("held")
        return {"history": record["history"], "init": ini, "expected": exp, "observed": obs,
                "bad": bad, "mismatch": bool(bad)}
    pre = record["pre"]
    obj = mk_seq(pre["kind"], pre["alph"], pre["codes"])
    tables = None
    if record["op"] in ("translate", "table") and isinstance(record["a"][1 if record["op"] == "translate" else 0], str):
        return {"error": "case refers to a named table of the TLC dump; rerun the check", "record": record}
    _o, obs = _observe(obj, record["op"], record["a"], tables, record.get("variant", 0))
    exp = dict(record["expected"])
    bad = compare(record["op"], record["a"], exp, obs)
    return {"call": [record["op"], record["a"]], "pre": pre, "expected": exp, "observed": obs,
            "bad": bad, "mismatch": bool(bad)}


MANIFEST = {
    "technique": "TLA+ model of alphabets, sequence objects, complement, codon tables/translation and k-mer codes (specs/C03) model-checked by TLC; every enumerated call and every transition of the sequence-object machine executed against the real classes; recorded random histories re-computed by TLC",
    "level_text": "TLC enumerates every single call on alphabets of 1, 2, 4, 15, 24 and 94 letters (all 256 byte values through the encoder, codes around every range border incl. 255/256) and on alphabets of arbitrary hashables, the mapper between every compatible pair, all DNA strings up to length 5 (7 in the thorough tier) through translate (complete and ORF mode, 2 codon tables x 3 start sets x met_start) and create_kmers (bases 3 and 4, k 2..3, contiguous and spaced), all k-mers incl. invalid codes through fuse/split, every (base, k) with base in {2,4,5,24,94} (thorough: also 3,20,200,1000) and k up to the int64 limit (k*bitlength(base) <= 62) through fuse/split/encode/decode/create_kmers on pattern sequences with the codes compared digit by digit, and sequence objects (general, nucleotide unambiguous/ambiguous, protein) of length <= 3 through construction, str, every index kind in every form numpy accepts (Python int, numpy integer scalars int8..uint64, lists, integer/bool ndarrays), assignment, +, reverse, ==, copy, complement, and derive-write-read histories (copy/reverse/complement/+ then an assignment to the result, the source or the other operand: only the written object changes); it proves that the code-shaped byte table, complement mapper, radix number, per-frame ORF scan and rolling k-mer code equal the declarative definitions. Every (call, result) pair and every transition of a 3-call machine of two live objects (the sequence at hand and the one it was derived from, lengths 0, 1 and 3) is executed against the real classes; random alphabets, longer sequences, several dtypes, random codon tables and random k are covered by recorded histories that TLC re-computes. Recorded map events also use 'wide' alphabets of Python ints (targets of 257-330 symbols, i.e. 16-bit codes, with the shared symbols at codes >= 256, in both directions).",
    "level_note": "Bounded as stated; k-mer codes beyond int64, memory sharing between a sub-sequence obtained by indexing and its source, the content of the built-in codon tables, lower-case/3-letter input normalisation, PositionalSequence and symbol frequency are not decided. Defects in codec.pyx / kmeralphabet.pyx cannot be repaired here (no Cython) and are recorded as known findings. Trusted: TLC, the TLA+ value parser, numpy, the projection through get_symbols()/.code.",
}
