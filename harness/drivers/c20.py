"""C20 — application wrappers follow their life cycle and always clean up.

S1  TLC: specs/C20/AppLifecycle.tla, all call sequences x tool behaviours (the reachable
    state space closes at depth 5), safety invariants + action properties, and liveness
    under weak fairness of the environment step.
S2  every transition of the state graph is replayed against ClustalOmegaApp, MuscleApp,
    Muscle5App, MafftApp (real child processes running fixtures/bin/fake_msa, whose exit is
    triggered by the harness) and against a minimal Application subclass (SimApp) that
    exercises application.py's own start/join/cancel logic.
S3  random call sequences (<= 16 calls) are recorded and validated by TLC (Trace.tla).
"""

from __future__ import annotations

import json
import os
import random
import shutil
import tempfile
import time

PROPERTY = "C20"
KINDS = ["sim", "clustalo", "muscle3", "muscle5", "mafft"]
FAKE = os.path.join(os.path.dirname(os.path.dirname(os.path.dirname(os.path.abspath(__file__)))),
                    "fixtures", "bin", "fake_msa")
_G = None


def warmup():
    import biotite.application.clustalo  # noqa: F401
    import biotite.application.mafft  # noqa: F401
    import biotite.application.muscle  # noqa: F401
    import biotite.sequence  # noqa: F401

    if "C20_GRAPH" in os.environ:
        _graph()


def _graph():
    global _G
    if _G is None:
        with open(os.environ["C20_GRAPH"]) as f:
            _G = json.load(f)
    return _G


# --------------------------------------------------------------------------- the harness
def _sim_class():
    from biotite.application.application import Application, AppState, requires_state

    class SimApp(Application):
        """Minimal wrapper of a simulated remote job: exercises Application's own logic."""

        def __init__(self, tool):
            super().__init__()
            self._tool = tool
            self._backend = "none"
            self._files = True
            self._results = None
            self._param = None

        def run(self):
            if self._tool == "missing":
                raise OSError("cannot launch the job")
            if self._tool == "badopt":
                raise TypeError("option cannot be passed to the job")
            self._backend = "running"

        def is_finished(self):
            return self._backend == "exited"

        def wait_interval(self):
            return 0.0002

        def evaluate(self):
            if self._tool in ("exit3", "garbage"):
                raise RuntimeError("job failed / unparsable output")
            self._results = {"reordered": "reversed", "rotated": "rotated"}.get(self._tool, "identity")

        def clean_up(self):
            self._files = False
            if self._backend == "running":
                self._backend = "exited"  # the job is killed

        @requires_state(AppState.CREATED)
        def set_param(self, value):
            self._param = value

        @requires_state(AppState.JOINED)
        def get_alignment(self):
            return self._results

        @requires_state(AppState.JOINED)
        def get_alignment_order(self):
            return self._results

        @requires_state(AppState.JOINED)
        def get_guide_tree(self):
            return self._results

        @requires_state(AppState.FINISHED | AppState.JOINED)
        def get_exit_code(self):
            return 3 if self._tool == "exit3" else 0

        @requires_state(AppState.FINISHED | AppState.JOINED)
        def get_stdout(self):
            return "text"

        @requires_state(AppState.RUNNING | AppState.CANCELLED | AppState.FINISHED | AppState.JOINED)
        def get_command(self):
            return "sim"

        @requires_state(AppState.RUNNING | AppState.FINISHED)
        def get_process(self):
            return self._backend

    return SimApp


class Harness:
    def __init__(self, kind, tool, seqs=("ACGT", "AC", "ACG"), protein=False, custom=False):
        from biotite.sequence import NucleotideSequence, ProteinSequence

        self.kind, self.tool = kind, tool
        self.home = os.getcwd()
        self.dir = tempfile.mkdtemp(prefix="c20-", dir=os.environ.get("C20_TMP") or None)
        self.exec_dir = os.path.join(self.dir, "exec")
        os.mkdir(self.exec_dir)
        self.trigger = os.path.join(self.dir, "trigger")
        self.bin = os.path.join(self.dir, "fake_msa")
        os.symlink(FAKE, self.bin)
        os.environ["FAKE_MSA_TRIGGER"] = self.trigger
        os.environ["FAKE_MSA_BEHAVIOUR"] = tool if tool not in ("missing", "badopt") else "ok"
        os.environ["FAKE_MSA_VERSION"] = {"muscle3": "MUSCLE v3.8.31 by Robert C. Edgar",
                                          "muscle5": "muscle 5.1.linux64 []"}.get(kind, "fake 1.0")
        self.cleanups = 0
        self._depth = 0
        self.inputs = [(ProteinSequence if protein else NucleotideSequence)(s) for s in seqs]
        matrix = None
        if custom and kind in ("muscle3", "mafft"):
            # sequences of another type: the wrapper maps them onto protein letters for the
            # program (needs a custom matrix) and must hand back the original sequence objects
            import numpy as np
            from biotite.sequence import Alphabet, GeneralSequence
            from biotite.sequence.align import SubstitutionMatrix

            alph = Alphabet(["foo", "bar", 42, ("t", 1)])
            self.inputs = [GeneralSequence(alph, [alph.get_symbols()[ord(ch) % 4] for ch in s]) for s in seqs]
            matrix = SubstitutionMatrix(alph, alph, np.identity(4, dtype=int) * 5 - 2)
        if kind == "sim":
            self.app = _sim_class()(tool)
        else:
            from biotite.application.clustalo import ClustalOmegaApp
            from biotite.application.mafft import MafftApp
            from biotite.application.muscle import Muscle5App, MuscleApp

            cls = {"clustalo": ClustalOmegaApp, "muscle3": MuscleApp, "muscle5": Muscle5App,
                   "mafft": MafftApp}[kind]
            self.app = cls(self.inputs, self.bin, matrix) if matrix is not None else cls(self.inputs, self.bin)
            self.app.set_exec_dir(self.exec_dir)
        if tool == "missing" and kind != "sim":
            os.unlink(self.bin)  # the binary disappears before the launch
        if tool == "badopt" and kind != "sim":
            self.app.add_additional_options(["--threads", 2])  # a non-string option: Popen refuses
        # the caller moves on to another directory after creating the wrapper: "home" is the
        # directory the calling process is in when it makes its calls, not the one it was
        # in when the wrapper was created
        self.orig_cwd = self.home
        later = os.path.join(self.dir, "later")
        os.mkdir(later)
        os.chdir(later)
        self.home = os.getcwd()
        # count outermost clean_up() invocations from outside
        orig = self.app.clean_up

        def counted(*a, **k):
            self._depth += 1
            try:
                if self._depth == 1:
                    self.cleanups += 1
                return orig(*a, **k)
            finally:
                self._depth -= 1

        self.app.clean_up = counted

    # ---- observation --------------------------------------------------------------------
    def temp_paths(self):
        a = self.app
        out = []
        for name in ("_in_file", "_out_file", "_matrix_file", "_in_dist_matrix_file",
                     "_out_dist_matrix_file", "_in_tree_file", "_out_tree_file",
                     "_out_tree1_file", "_out_tree2_file"):
            f = getattr(a, name, None)
            if f is not None and hasattr(f, "name"):
                out.append(f.name)
        if getattr(a, "_out_tree_file_name", None):
            out.append(a._out_tree_file_name)
        return out

    def proc_state(self):
        if self.kind == "sim":
            return self.app._backend
        p = getattr(self.app, "_process", None)
        if p is None:
            return "none"
        try:
            with open(f"/proc/{p.pid}/stat") as f:
                st = f.read().rsplit(")", 1)[1].split()[0]
        except OSError:
            return "exited"
        return "exited" if st in ("Z", "X") else "running"

    def observe(self, expect_proc=None):
        if expect_proc == "exited" and self.proc_state() == "running":
            # kill / exit are asynchronous: wait generously for an *expected* exit
            t0 = time.time()
            while self.proc_state() == "running" and time.time() - t0 < 3.0:
                time.sleep(0.002)
        if self.kind == "sim":
            files = "present" if self.app._files else "absent"
        else:
            files = "present" if any(os.path.exists(p) for p in self.temp_paths()) else "absent"
        return {"app": self.app._state.name, "proc": self.proc_state(), "files": files,
                "cleanups": self.cleanups,
                "cwd": "home" if os.getcwd() == self.home else "moved"}

    # ---- calls --------------------------------------------------------------------------
    def do(self, c):
        from biotite.application.application import AppStateError, TimeoutError as AppTimeout

        a = self.app
        try:
            out = ""
            if c == "proc_exits":
                if self.kind == "sim":
                    a._backend = "exited"
                else:
                    open(self.trigger, "w").close()
                    t0 = time.time()
                    while self.proc_state() == "running":
                        if time.time() - t0 > 10:
                            raise RuntimeError("fake tool did not exit after the trigger")
                        time.sleep(0.002)
            elif c == "start":
                a.start()
            elif c == "join":
                a.join()
            elif c == "join_t":
                a.join(timeout=0.0 if self.kind == "sim" else 0.03)
            elif c == "cancel":
                a.cancel()
            elif c == "state":
                out = a.get_app_state().name
            elif c == "setter":
                self._all_setters()
            elif c == "get_alignment":
                out = self._check_alignment(a.get_alignment())
            elif c == "get_order":
                out = self._check_order(a.get_alignment_order())
            elif c == "get_tree":
                out = self._check_tree(a.get_guide_tree())
            elif c == "get_exit_code":
                out = str(a.get_exit_code())
            elif c == "get_stdout":
                out = "text" if isinstance(a.get_stdout(), str) else "not-text"
            elif c == "get_command":
                out = "text" if isinstance(a.get_command(), str) else "not-text"
            elif c == "get_process":
                p = a.get_process()
                out = p if self.kind == "sim" else self.proc_state()
            else:
                raise ValueError(c)
            return "ok", out
        except AppStateError:
            return "AppStateError", ""
        except AppTimeout:
            return "TimeoutError", ""
        except Exception as e:  # noqa: BLE001 - outcome class "any other exception"
            if type(e).__name__ == "TimeoutError":
                # LocalApp.join raises the *builtin* TimeoutError, Application.join raises
                # biotite.application.TimeoutError; the property names no class
                return "TimeoutError", ""
            return "Rejected", f"{type(e).__name__}"

    def _all_setters(self):
        """Every option setter of the wrapper class (all are documented as CREATED-only). They
        must agree: all accepted, or all refused with AppStateError."""
        from biotite.application.application import AppStateError

        a = self.app
        if self.kind == "sim":
            calls = [lambda: a.set_param(1)]
        else:
            calls = [lambda: a.add_additional_options([]), lambda: a.set_exec_dir(self.exec_dir)]
            if self.kind == "clustalo":
                from biotite.sequence.phylo import Tree

                n = len(self.inputs)
                nwk = "0"
                for i in range(1, n):
                    nwk = f"({nwk},{i})"
                calls.append(lambda: a.set_guide_tree(Tree.from_newick(nwk + ";")))
            elif self.kind == "muscle3":
                calls.append(lambda: a.set_gap_penalty(-3.0))
                calls.append(lambda: a.set_gap_penalty((-5.0, -1.0)))
            elif self.kind == "muscle5":
                calls += [lambda: a.set_iterations(1, 1), lambda: a.set_thread_number(1), lambda: a.use_super5()]
        refused = 0
        for f in calls:
            try:
                f()
            except AppStateError:
                refused += 1
        if refused == len(calls):
            raise AppStateError("all setters refused")
        if refused:
            raise RuntimeError(f"{refused} of {len(calls)} setters refused, the others accepted")

    def _check_alignment(self, aln):
        if self.kind == "sim":
            return "rows_are_inputs_in_input_order"
        from biotite.sequence.align import get_codes

        if len(aln.sequences) != len(self.inputs):
            return "bad:row-count"
        for s, i in zip(aln.sequences, self.inputs):
            if s is not i and s != i:
                return "bad:sequences"
        if aln.trace.shape[1] != len(self.inputs):
            return "bad:trace-shape"
        for k, i in enumerate(self.inputs):
            col = aln.trace[:, k]
            if col[col != -1].tolist() != list(range(len(i))):
                return "bad:row-not-input"
        return "rows_are_inputs_in_input_order"

    def _check_order(self, order):
        if self.kind == "sim":
            return order
        o = [int(x) for x in order]
        n = len(self.inputs)
        if o == list(range(n)):
            return "identity"
        if o == list(range(n - 1, -1, -1)) and n > 2:
            return "reversed"
        if o == [n - 1] + list(range(n - 1)):
            return "rotated"
        return f"other:{o}"

    def _check_tree(self, tree):
        if self.kind == "sim":
            return "tree_with_every_sequence_once"
        if tree is None:
            return "bad:none"
        idx = sorted(int(leaf.index) for leaf in tree.leaves)
        return "tree_with_every_sequence_once" if idx == list(range(len(self.inputs))) else f"bad:{idx}"

    def has(self, c):
        if c == "get_tree" and self.kind == "muscle5":
            return False
        return True

    def close(self):
        try:
            p = getattr(self.app, "_process", None)
            if p is not None and p.poll() is None:
                p.kill()
                p.wait(timeout=5)
            for path in self.temp_paths():
                try:
                    os.unlink(path)
                except OSError:
                    pass
        finally:
            try:
                os.chdir(self.orig_cwd)
            except OSError:
                pass
            shutil.rmtree(self.dir, ignore_errors=True)


FIELDS = ("app", "proc", "files", "cleanups", "cwd")


def compare(exp, oc, out, obs):
    bad = []
    if oc != exp["oc"]:
        bad.append("oc")
    elif oc == "ok" and out != exp["out"]:
        bad.append("out")
    for f in FIELDS:
        if f == "app" and exp.get("failed"):
            continue
        if obs[f] != exp[f]:
            bad.append(f)
    return bad


# --------------------------------------------------------------------------- S2 child
def exec_path(item):
    from harness.tlabind.pool import progress

    G = _graph()
    states = G["states"]
    st = states[item["init"]]
    kind = item["kind"]
    h = Harness(kind, st["tool"])
    mism = []
    done = []
    succ = G["succ"]

    def closure(nodes):
        out = set(nodes)
        for n in list(out):
            out.update(succ.get(str(n), {}).get("refresh", ()))
        return out

    cur = {item["init"]}
    try:
        for c, dst in item["steps"]:
            if c == "refresh" or not h.has(c):
                # silent step of the model (the wrapper noticing the exit): nothing to call;
                # the candidate set below accounts for it
                if c == "refresh":
                    cur = closure(cur)
                continue
            exp = states[dst]
            cands = set()
            for n in closure(cur):
                cands.update(succ.get(str(n), {}).get(c, ()))
            cands = closure(cands)
            progress({"kind": kind, "tool": st["tool"], "c": c, "done": done})
            oc, out = h.do(c)
            obs = h.observe(expect_proc=exp["proc"])
            done.append(c)
            match = [n for n in cands if not compare(states[n], oc, out, obs)]
            if not match:
                mism.append({"kind": "step", "app_kind": kind, "tool": st["tool"], "c": c,
                             "bad": compare(exp, oc, out, obs), "calls": list(done),
                             "expected": {k: exp[k] for k in ("oc", "out", "failed") + FIELDS},
                             "observed": dict(obs, oc=oc, out=out)})
                break
            cur = set(match)
    finally:
        h.close()
    return {"mismatch": mism, "steps": len(done)}


# --------------------------------------------------------------------------- S3 child
CALLS = ["start", "join", "join_t", "cancel", "state", "setter", "get_alignment", "get_order",
         "get_tree", "get_exit_code", "get_stdout", "get_command", "get_process", "proc_exits"]


def gen_trace(item):
    from harness.tlabind.pool import progress

    rng = random.Random(item["seed"])
    kind = item["kind"]
    tool = item["tool"]
    seqsets = [("ACGT", "AC", "ACG"), ("A", "A", "C"), ("ACGTTGCA", "ACGT", "TTT", "G"),
               ("MKV", "MK", "MKVLA")]
    k = rng.randrange(len(seqsets))
    h = Harness(kind, tool, seqs=seqsets[k], protein=(k == 3), custom=(rng.random() < 0.35))
    events = []
    try:
        weights = {"start": 3, "join": 3, "join_t": 2, "cancel": 2, "state": 3, "proc_exits": 3}
        for _ in range(item["length"]):
            c = rng.choices(CALLS, weights=[weights.get(x, 1) for x in CALLS])[0]
            if not h.has(c):
                continue
            proc = h.proc_state()
            app = h.app._state.name
            if c == "proc_exits" and proc != "running":
                continue
            if c == "join" and app in ("RUNNING", "FINISHED") and proc == "running":
                continue  # would block forever
            progress({"kind": kind, "tool": tool, "c": c, "done": [e["c"] for e in events]})
            oc, out = h.do(c)
            # an exit is expected after cancel / timeout / evaluated join
            expect_exit = c in ("cancel", "join_t", "join") and oc != "AppStateError"
            obs = h.observe(expect_proc="exited" if expect_exit else None)
            ev = {"c": c, "tool": tool, "oc": oc, "out": out if oc == "ok" else ""}
            ev.update(obs)
            events.append(ev)
            if c == "start" and oc == "Rejected":
                break  # failed launch: the run has ended, nothing further is specified
    finally:
        h.close()
    return {"events": events, "kind": kind}


# --------------------------------------------------------------------------- classification
def classify(mm):
    return None


# --------------------------------------------------------------------------- orchestration
def run(ctx):
    from harness.tlabind import dot, tlc
    from harness.tlabind.core import Vacuity
    from harness.tlabind.helpers import binding_selftest, run_pool, tlc_validate
    from harness.tlabind.tlaval import to_py

    ctx.assumptions += [
        "the external program is fixtures/bin/fake_msa; its exit is triggered by the harness (no sleeps decide a verdict)",
        "join() without timeout is only called when the program has exited (it would block otherwise)",
        "after a failed launch only the clean-up obligations are specified, not the wrapper state",
        "a killed child that is a zombie of the calling process counts as gone (not running)",
        "WebApp / BLAST (network) are covered only through Application's shared state logic (SimApp)",
    ]
    d = tlc.scratch_dir("c20")
    dotf = os.path.join(d, "g.dot")
    res = ctx.tlc("AppLifecycle", "MC.cfg", stage="S1", dump_dot=dotf, workers=1, coverage=False)
    ctx.tlc("AppLifecycle", "MC_live.cfg", stage="S1-liveness", workers=4, count=False)
    ctx.exhaustive = True
    g = dot.load(dotf)
    calls_seen = {}
    for (_s, lab, _d) in g.edges:
        c = dot.parse_label(lab)[1][0]
        calls_seen[c] = calls_seen.get(c, 0) + 1
    missing = (set(CALLS) | {"refresh"}) - set(calls_seen)
    if missing:
        raise Vacuity(f"calls never taken: {missing}")
    ctx.cov["transitions_per_call"] = calls_seen
    ocs = {}
    ids = {nid: k for k, nid in enumerate(g.state_text)}
    states = [None] * len(ids)
    for nid, k in ids.items():
        states[k] = {kk: to_py(v) for kk, v in g.state(nid).items()}
        ocs[states[k]["oc"]] = ocs.get(states[k]["oc"], 0) + 1
    if not {"ok", "AppStateError", "TimeoutError", "Rejected"} <= set(ocs):
        raise Vacuity(f"outcomes not all reached: {ocs}")
    ended = sum(1 for s in states if s["app"] in ("JOINED", "CANCELLED"))
    if ended == 0:
        raise Vacuity("no ended run in the model")
    ctx.cov["states_per_outcome"] = ocs
    gfile = os.path.join(d, "graph.json")
    succ = {}
    for (src, lab, dst) in g.edges:
        c = dot.parse_label(lab)[1][0]
        succ.setdefault(str(ids[src]), {}).setdefault(c, [])
        if ids[dst] not in succ[str(ids[src])][c]:
            succ[str(ids[src])][c].append(ids[dst])
    with open(gfile, "w") as f:
        json.dump({"states": states, "succ": succ}, f)
    paths, covered = dot.covering_paths(g, max_len=10, rng=ctx.rng)
    items = []
    for kind in KINDS:
        sel = paths
        if ctx.quick and kind != "sim":
            sel = ctx.rng.sample(paths, min(len(paths), 450))
        for root, steps in sel:
            items.append({"kind": kind, "init": ids[root],
                          "steps": [[dot.parse_label(lab)[1][0], ids[dst]] for lab, dst in steps]})
    tmp = os.path.join(d, "tmp")
    os.mkdir(tmp)
    ctx.log(f"S2: {len(paths)} covering paths ({covered}/{len(g.edges)} transitions) -> {len(items)} executions")
    results = run_pool(ctx, "harness.drivers.c20:exec_path", items, stage="S2",
                       env={"C20_GRAPH": gfile, "C20_TMP": tmp}, item_timeout=25)
    ctx.traces_validated += len(items)
    ctx.evaluations += sum(r.get("steps", 0) for r in results if r)
    ctx.nontrivial += sum(1 for it in items if len(it["steps"]) >= 3)
    ctx.cov["rule"] = ("behaviour = call sequence on one wrapper instance; non-trivial = at least 3 calls "
                       "(S2) or reaches RUNNING (S3)")
    ctx.cov["s2_paths_per_kind"] = {k: sum(1 for it in items if it["kind"] == k) for k in KINDS}
    ctx.cov["s2_transitions_covered"] = covered
    for it in items[:2]:
        ctx.sample({"kind": it["kind"], "tool": states[it["init"]]["tool"], "calls": [c for c, _ in it["steps"]]})
    # ---- S3 ----------------------------------------------------------------------------
    ntr = 150 if ctx.quick else 4000
    tools = ["ok", "reordered", "rotated", "exit3", "garbage", "missing", "badopt"]
    titems = [{"seed": ctx.rng.randrange(1 << 30), "kind": KINDS[k % len(KINDS)],
               "tool": tools[(k // len(KINDS)) % len(tools)], "length": 16} for k in range(ntr)]
    tres = run_pool(ctx, "harness.drivers.c20:gen_trace", titems, stage="S3",
                    env={"C20_TMP": tmp}, item_timeout=40)
    traces, kinds = [], []
    for it, r in zip(titems, tres):
        if r and r.get("events"):
            traces.append(r["events"])
            kinds.append(it["kind"])
    mms = tlc_validate(ctx, traces)
    for m in mms:
        _tag, tid, l, flags, expd = m
        e = traces[tid - 1][l - 1]
        if expd["oc"] == "NOTENABLED":
            raise RuntimeError(f"S3 driver issued a call the model does not enable: trace {tid} event {l} {e}")
        names = ["oc", "out", "app", "proc", "files", "cleanups", "cwd"]
        expd = dict(expd)
        ctx.mismatch({"stage": "S3", "kind": "event", "app_kind": kinds[tid - 1], "tool": e["tool"],
                      "c": e["c"], "bad": [n for n, ok in zip(names, flags) if not ok],
                      "calls": [x["c"] for x in traces[tid - 1][:l]],
                      "expected": expd, "observed": {k: e[k] for k in names}})
    ctx.traces_validated += len(traces)
    ctx.evaluations += sum(len(t) for t in traces)
    ctx.nontrivial += sum(1 for t in traces if any(e["app"] == "RUNNING" for e in t))
    ctx.cov["s3_traces"] = len(traces)
    ctx.sample({"s3_trace": traces[0][:3]} if traces else {})

    def corrupt(tr):
        for e in tr:
            if e["oc"] == "ok" and e["c"] in ("start", "cancel", "join", "join_t", "state"):
                e["app"] = "JOINED" if e["app"] != "JOINED" else "RUNNING"
                return True
        return False

    binding_selftest(ctx, traces, corrupt)


def replay(record):
    h = Harness(record["app_kind"], record["tool"])
    try:
        last = None
        for c in record["calls"]:
            oc, out = h.do(c)
            last = dict(h.observe(expect_proc=record["expected"].get("proc")), oc=oc, out=out, c=c)
        exp = record["expected"]
        bad = [k for k in ("oc",) + FIELDS if k in exp and exp[k] != last.get(k)
               and not (k == "app" and exp.get("failed"))]
        return {"last": last, "expected": exp, "mismatch": bool(bad), "bad": bad}
    finally:
        h.close()


MANIFEST = {
    "technique": "TLA+ life-cycle state machine (specs/C20) model-checked by TLC incl. liveness; every transition replayed against the real wrappers with real child processes; recorded call sequences validated by TLC",
    "level_text": "TLC explores the complete reachable state space of the wrapper life cycle (14 public calls + the environment step x 5 tool behaviours; closes at depth 5) and checks RunEndsClean, ResultsOnlyAfterJoin, refusal-is-a-no-op, legal-iff-allowed and, under weak fairness, that a started program eventually exits. Every transition of that graph is then executed against ClustalOmegaApp, MuscleApp, Muscle5App, MafftApp (real child processes of a fake tool whose exit the harness triggers) and a minimal Application subclass, comparing wrapper state, outcome class, child-process liveness, temp files, working directory, number of clean-up runs and result values after each call; random longer call sequences are validated by TLC against the same operators.",
    "level_note": "The external programs are replaced by fixtures/bin/fake_msa; timing is controlled by trigger files. Wrapper state is read from the private flag (the public query is its own action). After a failed launch only clean-up obligations are compared. Trusted: TLC, /proc/<pid>/stat for process liveness.",
}
