"""C20 — application wrappers follow their life cycle and always clean up.

S1  TLC: specs/C20/AppLifecycle.tla, all call sequences x tool behaviours (the reachable
    state space closes at depth 5), safety invariants + action properties, and liveness
    under weak fairness of the environment steps.  The behaviour of the external program is
    a record of independent dimensions (launch, row order, output completeness, ending: exit
    code or death by signal, output volume below / above the OS pipe size).
    specs/C20/MCResults.tla: the data half (rows mapped back to the input order by the
    NUMBER a header denotes) for 2..101 sequences x emission orders x length profiles.
S2  every (state, call) pair of the state graph (thorough: every transition) is replayed
    against ClustalOmegaApp, MuscleApp, Muscle5App, MafftApp (real child processes running
    fixtures/bin/fake_msa, whose progress is triggered by the harness) and against a minimal
    Application subclass (SimApp) that exercises application.py's own start/join/cancel
    logic.  Every case of MCResults is run through a real wrapper and the alignment rows,
    the order, the tree leaves and the sequence objects are compared with TLC's values.
    A failed launch ends the run in CANCELLED; every public call (also the informational
    getters get_command / get_stderr / file paths) is asked in every state, that one included.
    The history starts with the action "construct" (it may fail: the binary is asked for its
    version and is missing / of the wrong version / silent, or the arguments are refused) and
    the program may resist the signals it can catch.  specs/C20/MCOptions.tla: every order of
    every subset of the class-specific option setters x the class-specific result getters
    (distance matrix, guide trees), with the program writing known content into every output
    file it is asked for.
S3  random call sequences (<= 16 calls, any combination of the tool dimensions) are recorded
    and validated by TLC (Trace.tla); random successful runs (up to 40 sequences, arbitrary
    permutations and lengths) are recorded together with the program's own copy of what it
    emitted and validated by TLC (ResultsTrace.tla).
"""

from __future__ import annotations

import json
import os
import random
import shutil
import signal
import tempfile
import time

PROPERTY = "C20"
KINDS = ["sim", "clustalo", "muscle3", "muscle5", "mafft"]
FAKE = os.path.join(os.path.dirname(os.path.dirname(os.path.dirname(os.path.abspath(__file__)))),
                    "fixtures", "bin", "fake_msa")
_G = None


def warmup():
    import biotite.application.clustalo  # noqa: F401
    import biotite.application.mafft  # noqa: F401
    import biotite.application.muscle  # noqa: F401
    import biotite.sequence  # noqa: F401

    if "C20_GRAPH" in os.environ:
        _graph()


def _graph():
    global _G
    if _G is None:
        with open(os.environ["C20_GRAPH"]) as f:
            _G = json.load(f)
    return _G


# --------------------------------------------------------------------------- the harness
def _sim_class():
    from biotite.application.application import Application, AppState, requires_state

    class SimApp(Application):
        """Minimal wrapper of a simulated remote job: exercises Application's own logic."""

        def __init__(self, tool):
            super().__init__()
            self._tool = tool
            self._backend = "none"
            self._files = True
            self._results = None
            self._param = None

        def run(self):
            if self._tool["launch"] == "missing":
                raise OSError("cannot launch the job")
            if self._tool["launch"] == "badopt":
                raise TypeError("option cannot be passed to the job")
            self._backend = "running"

        def is_finished(self):
            return self._backend == "exited"

        def wait_interval(self):
            return 0.0002

        def evaluate(self):
            if self._tool["ending"] != "exit0":
                raise RuntimeError("job failed / was killed")
            if self._tool["output"] != "complete":
                raise RuntimeError("unparsable / incomplete output")
            self._results = self._tool["order"]

        def clean_up(self):
            self._files = False
            if self._backend == "running":
                self._backend = "exited"  # the job is killed

        @requires_state(AppState.CREATED)
        def set_param(self, value):
            self._param = value

        @requires_state(AppState.JOINED)
        def get_alignment(self):
            return self._results

        @requires_state(AppState.JOINED)
        def get_alignment_order(self):
            return self._results

        @requires_state(AppState.JOINED)
        def get_guide_tree(self):
            return self._results

        @requires_state(AppState.JOINED)
        def get_distance_matrix(self):
            return self._results

        @requires_state(AppState.FINISHED | AppState.JOINED)
        def get_exit_code(self):
            return {"exit0": 0, "exit3": 3}.get(self._tool["ending"], -9)

        @requires_state(AppState.FINISHED | AppState.JOINED)
        def get_stdout(self):
            return "text"

        @requires_state(AppState.FINISHED | AppState.JOINED)
        def get_stderr(self):
            return "text"

        @requires_state(AppState.RUNNING | AppState.CANCELLED | AppState.FINISHED | AppState.JOINED)
        def get_command(self):
            return "sim"

        @requires_state(AppState.RUNNING | AppState.FINISHED)
        def get_process(self):
            return self._backend

    return SimApp


DEFAULT_TOOL = {"launch": "ok", "order": "identity", "output": "complete", "ending": "exit0",
                "vol": "small", "stop": "default", "build": "ok"}
TOOL_DIMS = {"order": ["identity", "reversed", "rotated"],
             "output": ["complete", "truncated", "garbage", "none"],
             "ending": ["exit0", "exit3", "SIGKILL", "SIGTERM", "SIGSEGV"],
             "vol": ["small", "bigout", "bigerr", "bigboth"],
             "stop": ["default", "resists"]}
BUILDS = ["ok", "no_binary", "wrong_version", "no_version", "bad_input"]
ASKS_VERSION = ("muscle3", "muscle5")   # MsaOptions!AsksVersion: classes whose constructor runs the binary
VERSION_TEXT = {"muscle3": "MUSCLE v3.8.31 by Robert C. Edgar", "muscle5": "muscle 5.1.linux64 []"}
HANG_AFTER = 20.0   # seconds after which a call that should return is recorded as "Hang"
LONG_TIMEOUT = 15.0  # the timeout of "join_T"


class _Hang(BaseException):
    pass


def realisable(kind, tool):
    """Can a wrapper of this kind meet this behaviour of the environment?  The simulated remote
    job has no pipes, no signals and no binary; a construction can only fail on the binary's
    version answer for the classes that ask for it."""
    if kind == "sim":
        return tool["vol"] == "small" and tool["stop"] == "default" and tool["build"] == "ok"
    if tool["build"] in ("no_binary", "wrong_version", "no_version"):
        return kind in ASKS_VERSION
    return True


def tool_matrix(n):
    """The distance matrix fixtures/bin/fake_msa writes (MsaOptions!ToolMatrix)."""
    return [[0 if i == j else 10 + abs(i - j) for j in range(n)] for i in range(n)]


def clades_of(tree):
    """A guide tree as the specification sees it: the leaf-number lists below every inner node,
    by size."""
    out = []

    def walk(node):
        if node.is_leaf():
            return [int(node.index)]
        leaves = []
        for ch in node.children:
            leaves += walk(ch)
        out.append(sorted(leaves))
        return leaves

    walk(tree.root)
    return sorted(out, key=lambda c: (len(c), c))


def tree_from_clades(clades, n):
    """The Tree with exactly these clades (leaf lists below the inner nodes)."""
    from biotite.sequence.phylo import Tree

    cl = sorted((sorted(c) for c in clades), key=len)

    def build(members, inner):
        # maximal clades strictly inside `members`
        sub = [c for c in inner if set(c) < set(members)]
        top = [c for c in sub if not any(set(c) < set(d) for d in sub)]
        covered = {x for c in top for x in c}
        parts = [build(c, sub) for c in top] + [f"{x}:1.0" for x in members if x not in covered]
        return "(" + ",".join(parts) + "):1.0"

    root = cl[-1] if cl and len(cl[-1]) == n else list(range(n))
    return Tree.from_newick(build(root, cl)[:-4] + ";")


def tool_env(tool):
    """The environment of fixtures/bin/fake_msa for one behaviour record of the specification."""
    env = {"FAKE_MSA_BEHAVIOUR": {"identity": "ok", "reversed": "reordered", "rotated": "rotated"}[tool["order"]],
           "FAKE_MSA_OUTPUT": "complete", "FAKE_MSA_VOLUME": tool["vol"],
           "FAKE_MSA_TREES": "distinct",
           "FAKE_MSA_STOP": {"default": "", "resists": "resist"}[tool.get("stop", "default")],
           "FAKE_MSA_ENDING": {"exit0": "exit0", "exit3": "exit3", "SIGKILL": "KILL", "SIGTERM": "TERM",
                               "SIGSEGV": "SEGV"}[tool["ending"]]}
    if tool["output"] == "garbage":
        env["FAKE_MSA_BEHAVIOUR"] = "garbage"
    elif tool["output"] == "none" and tool["ending"] == "exit3":
        env["FAKE_MSA_BEHAVIOUR"] = "exit3"   # the classic failure: a message on STDERR, exit code 3
    else:
        env["FAKE_MSA_OUTPUT"] = tool["output"]
    return env


def make_seq_text(k, length, st):
    """Text of input k: distinct inputs get distinct texts (rotation of the alphabet)."""
    letters = "ACGT" if st != "prot" else "MKVLAGSTEDRNQHPFWYIC"
    reps = (length + k) // len(letters) + 2
    return (letters * reps)[k % len(letters):][:length]


class Harness:
    def __init__(self, kind, tool, seqs=("ACGT", "AC", "ACG"), protein=False, custom=False,
                 order=None, pad=None, copy=False, hanging=True, full=True, matrix=False):
        """Prepares the environment of one history; the wrapper object itself is created by the
        action "construct" (do("construct")).  full: ClustalOmegaApp gets
        full_matrix_calculation() right after its construction (the life-cycle stages; the
        option cases decide themselves)."""
        self.kind, self.tool = kind, tool
        self.seqs, self.protein, self.custom, self.full, self.matrix = seqs, protein, custom, full, matrix
        self.home = self.orig_cwd = os.getcwd()
        self.dir = tempfile.mkdtemp(prefix="c20-", dir=os.environ.get("C20_TMP") or None)
        self.exec_dir = os.path.join(self.dir, "exec")
        os.mkdir(self.exec_dir)
        self.later = os.path.join(self.dir, "later")
        os.mkdir(self.later)
        # a private directory for everything the wrapper creates with the tempfile module:
        # "no temporary file left behind" is observed on the directory, not on the wrapper's
        # own book-keeping (there is no wrapper object after a refused construction)
        self.tmpdir = os.path.join(self.dir, "tmp")
        os.mkdir(self.tmpdir)
        self.old_tempdir = tempfile.tempdir
        tempfile.tempdir = self.tmpdir
        self.trigger = os.path.join(self.dir, "trigger")
        self.marker = os.path.join(self.dir, "marker")
        self.copy = os.path.join(self.dir, "copy.fa") if copy else None
        self.bin = os.path.join(self.dir, "fake_msa")
        os.symlink(FAKE, self.bin)
        for k in [k for k in os.environ if k.startswith("FAKE_MSA_")]:
            del os.environ[k]
        os.environ["FAKE_MSA_TRIGGER"] = self.trigger
        os.environ["FAKE_MSA_MARKER"] = self.marker
        os.environ.update(tool_env(tool))
        if order is not None:
            os.environ["FAKE_MSA_ORDER"] = " ".join(str(int(i)) for i in order)
        if pad is not None:
            os.environ["FAKE_MSA_PAD"] = pad
        if self.copy:
            os.environ["FAKE_MSA_COPY"] = self.copy
        if not hanging:
            open(self.trigger, "w").close()   # the program does its work without waiting
        # what the binary answers when it is asked for its version
        build = tool.get("build", "ok")
        version = VERSION_TEXT.get(kind, "fake 1.0")
        if build == "wrong_version":
            version = VERSION_TEXT["muscle5" if kind == "muscle3" else "muscle3"]
        elif build == "no_version":
            version = "fake tool that does not tell its version"
        os.environ["FAKE_MSA_VERSION"] = version
        self.cleanups = 0
        self._depth = 0
        self.app = None
        self.inputs = []

    def _class(self):
        from biotite.application.clustalo import ClustalOmegaApp
        from biotite.application.mafft import MafftApp
        from biotite.application.muscle import Muscle5App, MuscleApp

        return {"clustalo": ClustalOmegaApp, "muscle3": MuscleApp, "muscle5": Muscle5App,
                "mafft": MafftApp}[self.kind]

    def _construct(self):
        """The action "construct".  build = "bad_input": every kind of argument the class
        documents as refused is tried; they must all be refused."""
        import numpy as np
        from biotite.sequence import Alphabet, GeneralSequence, NucleotideSequence, ProteinSequence
        from biotite.sequence.align import SubstitutionMatrix

        kind, tool, seqs = self.kind, self.tool, self.seqs
        build = tool.get("build", "ok")
        self.inputs = [(ProteinSequence if self.protein else NucleotideSequence)(s) for s in seqs]
        matrix = None
        if self.custom and kind in ("muscle3", "mafft"):
            # sequences of another type: the wrapper maps them onto protein letters for the
            # program (needs a custom matrix) and must hand back the original sequence objects
            alph = Alphabet(["foo", "bar", 42, ("t", 1)])
            self.inputs = [GeneralSequence(alph, [alph.get_symbols()[ord(ch) % 4] for ch in s]) for s in seqs]
            matrix = SubstitutionMatrix(alph, alph, np.identity(4, dtype=int) * 5 - 2)
        elif self.matrix and kind in ("muscle3", "mafft"):
            matrix = SubstitutionMatrix.std_protein_matrix()
        if kind == "sim":
            self.app = _sim_class()(tool)
        else:
            cls = self._class()
            bin_path = self.bin if build != "no_binary" else os.path.join(self.dir, "no_such_binary")
            if build == "bad_input":
                prot = [ProteinSequence("MKV"), ProteinSequence("MK")]
                other = NucleotideSequence("ACG") if self.protein else prot[0]
                variants = {"one_sequence": (self.inputs[:1],), "mixed_alphabets": ([self.inputs[0], other],)}
                if kind in ("muscle3", "mafft"):
                    alph = ProteinSequence.alphabet
                    asym = np.arange(len(alph) ** 2, dtype=int).reshape(len(alph), len(alph)) % 7
                    variants["asymmetric_matrix"] = (prot, SubstitutionMatrix(alph, alph, asym))
                accepted, errors = [], []
                for name, args in variants.items():
                    try:
                        obj = cls(args[0], bin_path, *args[1:])
                    except Exception as e:  # noqa: BLE001 - outcome class "refused"
                        errors.append(e)
                    else:
                        accepted.append(name)
                        del obj
                if accepted:
                    return "accepted:" + ",".join(accepted)
                raise errors[0]
            self.app = cls(self.inputs, bin_path, matrix) if matrix is not None else cls(self.inputs, bin_path)
            self.app.set_exec_dir(self.exec_dir)
            if kind == "clustalo" and self.full:
                self.app.full_matrix_calculation()
        if tool["launch"] == "missing" and kind != "sim":
            os.unlink(self.bin)  # the binary disappears before the launch
        if tool["launch"] == "badopt" and kind != "sim":
            self.app.add_additional_options(["--threads", 2])  # a non-string option: Popen refuses
        # count outermost clean_up() invocations from outside
        orig = self.app.clean_up

        def counted(*a, **k):
            self._depth += 1
            try:
                if self._depth == 1:
                    self.cleanups += 1
                return orig(*a, **k)
            finally:
                self._depth -= 1

        self.app.clean_up = counted
        return ""

    # ---- observation --------------------------------------------------------------------
    def temp_paths(self):
        a = self.app
        out = []
        for name in ("_in_file", "_out_file", "_matrix_file", "_in_dist_matrix_file",
                     "_out_dist_matrix_file", "_in_tree_file", "_out_tree_file",
                     "_out_tree1_file", "_out_tree2_file"):
            f = getattr(a, name, None)
            if f is not None and hasattr(f, "name"):
                out.append(f.name)
        if getattr(a, "_out_tree_file_name", None):
            out.append(a._out_tree_file_name)
        return out

    def proc_state(self):
        if self.app is None:
            return "none"
        if self.kind == "sim":
            return self.app._backend
        p = getattr(self.app, "_process", None)
        if p is None:
            return "none"
        try:
            with open(f"/proc/{p.pid}/stat") as f:
                st = f.read().rsplit(")", 1)[1].split()[0]
        except OSError:
            return "exited"
        if st in ("Z", "X"):
            return "exited"
        # the fake program announces (marker file) that it starts writing more than its pipes
        # hold: from then on it is alive but cannot end before somebody reads
        return "blocked" if os.path.exists(self.marker) else "running"

    def observe(self, expect_proc=None):
        if expect_proc == "exited" and self.proc_state() != "exited":
            # kill / exit are asynchronous: wait generously for an *expected* exit
            t0 = time.time()
            while self.proc_state() != "exited" and time.time() - t0 < 5.0:
                time.sleep(0.002)
        if self.kind == "sim":
            files = "present" if self.app is not None and self.app._files else "absent"
        else:
            # anything in the private temporary directory, or any file the wrapper keeps a name of
            files = "present" if os.listdir(self.tmpdir) or (
                self.app is not None and any(os.path.exists(p) for p in self.temp_paths())) else "absent"
        return {"app": self.app._state.name if self.app is not None else "NONE",
                "proc": self.proc_state(), "files": files,
                "cleanups": self.cleanups,
                "cwd": "home" if os.getcwd() == self.home else "moved"}

    # ---- calls --------------------------------------------------------------------------
    def do(self, c):
        from biotite.application.application import AppStateError, TimeoutError as AppTimeout

        a = self.app
        if c == "proc_exits":
            if self.kind == "sim":
                a._backend = "exited"
            else:
                open(self.trigger, "w").close()
                t0 = time.time()
                while self.proc_state() != "exited":
                    if time.time() - t0 > 20:
                        raise RuntimeError("fake tool did not exit after the trigger")
                    time.sleep(0.002)
            return "ok", ""
        if c == "proc_writes":
            if self.kind == "sim":
                raise RuntimeError("the simulated job has no pipes")
            open(self.trigger, "w").close()
            t0 = time.time()
            while self.proc_state() != "blocked":
                if time.time() - t0 > 20:
                    raise RuntimeError("fake tool did not start writing after the trigger")
                time.sleep(0.002)
            return "ok", ""

        # a call that does not come back is an outcome ("Hang"), never a hanging check
        def on_alarm(_sig, _frm):
            raise _Hang()

        old = signal.signal(signal.SIGALRM, on_alarm)
        signal.setitimer(signal.ITIMER_REAL, HANG_AFTER)
        try:
            return self._do(c)
        except _Hang:
            return "Hang", ""
        finally:
            signal.setitimer(signal.ITIMER_REAL, 0)
            signal.signal(signal.SIGALRM, old)

    def _do(self, c):
        from biotite.application.application import AppStateError, TimeoutError as AppTimeout

        a = self.app
        try:
            out = ""
            if c == "construct":
                try:
                    out = self._construct()
                finally:
                    # the caller moves on to another directory after creating the wrapper:
                    # "home" is the directory the calling process is in when it makes its
                    # calls, not the one it was in when the wrapper was created
                    os.chdir(self.later)
                    self.home = os.getcwd()
            elif a is None:
                raise ValueError(f"{c}: there is no wrapper object")
            elif c == "start":
                a.start()
            elif c == "join":
                a.join()
            elif c == "join_t":
                # "short" = expires on a program that hangs (any finite value does, the hang only
                # ends when the harness triggers it) and does not expire on a program that has
                # exited (only its pipes are read).  The value is chosen so that the machine's
                # load cannot decide the outcome: 0.03 s while the child is alive, 5 s once it
                # has exited (a correct wrapper returns at once).
                if self.kind == "sim":
                    a.join(timeout=0.0)
                else:
                    a.join(timeout=0.03 if self.proc_state() != "exited" else 5.0)
            elif c == "join_T":
                a.join(timeout=LONG_TIMEOUT)
            elif c == "cancel":
                a.cancel()
            elif c == "state":
                out = a.get_app_state().name
            elif c == "setter":
                self._all_setters()
            elif c == "get_alignment":
                out = self._check_alignment(a.get_alignment())
            elif c == "get_order":
                out = self._check_order(a.get_alignment_order())
            elif c == "get_tree":
                out = self._check_tree(a.get_guide_tree())
            elif c == "get_dist":
                out = self._check_dist(a.get_distance_matrix())
            elif c == "get_exit_code":
                code = a.get_exit_code()
                out = str(code) if code >= 0 else "signal"   # Popen: -N = killed by signal N
            elif c == "get_stdout":
                out = "text" if isinstance(a.get_stdout(), str) else "not-text"
            elif c == "get_stderr":
                out = "text" if isinstance(a.get_stderr(), str) else "not-text"
            elif c == "get_command":
                out = "text" if isinstance(a.get_command(), str) else "not-text"
            elif c == "get_info":
                # the getters that are not bound to a state: they describe the wrapper object
                vals = [a.get_input_file_path(), a.get_output_file_path(), a.get_seqtype()]
                out = "text" if all(isinstance(v, str) for v in vals) else "not-text"
            elif c == "get_process":
                p = a.get_process()
                out = p if self.kind == "sim" else (self.proc_state() if p is self.app._process else "not-the-process")
            else:
                raise ValueError(c)
            return "ok", out
        except AppStateError:
            return "AppStateError", ""
        except AppTimeout:
            return "TimeoutError", ""
        except Exception as e:  # noqa: BLE001 - outcome class "any other exception"
            if type(e).__name__ == "TimeoutError":
                # LocalApp.join raises the *builtin* TimeoutError, Application.join raises
                # biotite.application.TimeoutError; the property names no class
                return "TimeoutError", ""
            return "Rejected", f"{type(e).__name__}"

    def _all_setters(self):
        """Every option setter of the wrapper class (all are documented as CREATED-only). They
        must agree: all accepted, or all refused with AppStateError."""
        from biotite.application.application import AppStateError

        a = self.app
        if self.kind == "sim":
            calls = [lambda: a.set_param(1)]
        else:
            calls = [lambda: a.add_additional_options([]), lambda: a.set_exec_dir(self.exec_dir)]
            if self.kind == "clustalo":
                from biotite.sequence.phylo import Tree

                n = len(self.inputs)
                nwk = "0"
                for i in range(1, n):
                    nwk = f"({nwk},{i})"
                calls.append(lambda: a.set_guide_tree(Tree.from_newick(nwk + ";")))
                calls.append(lambda: a.full_matrix_calculation())
                calls.append(lambda: a.set_distance_matrix(_np_matrix([[0 if i == j else i + j + 2 for j in range(n)]
                                                                      for i in range(n)])))
            elif self.kind == "muscle3":
                calls.append(lambda: a.set_gap_penalty(-3.0))
                calls.append(lambda: a.set_gap_penalty((-5.0, -1.0)))
            elif self.kind == "muscle5":
                calls += [lambda: a.set_iterations(1, 1), lambda: a.set_thread_number(1), lambda: a.use_super5()]
        refused = 0
        for f in calls:
            try:
                f()
            except AppStateError:
                refused += 1
        if refused == len(calls):
            raise AppStateError("all setters refused")
        if refused:
            raise RuntimeError(f"{refused} of {len(calls)} setters refused, the others accepted")

    def _check_alignment(self, aln):
        if self.kind == "sim":
            return "rows_are_inputs_in_input_order"
        from biotite.sequence.align import get_codes

        if len(aln.sequences) != len(self.inputs):
            return "bad:row-count"
        for s, i in zip(aln.sequences, self.inputs):
            if s is not i and s != i:
                return "bad:sequences"
        if aln.trace.shape[1] != len(self.inputs):
            return "bad:trace-shape"
        for k, i in enumerate(self.inputs):
            col = aln.trace[:, k]
            if col[col != -1].tolist() != list(range(len(i))):
                return "bad:row-not-input"
        return "rows_are_inputs_in_input_order"

    def _check_order(self, order):
        if self.kind == "sim":
            return order
        o = [int(x) for x in order]
        n = len(self.inputs)
        if o == list(range(n)):
            return "identity"
        if o == list(range(n - 1, -1, -1)) and n > 2:
            return "reversed"
        if o == [n - 1] + list(range(n - 1)):
            return "rotated"
        return f"other:{o}"

    def _check_tree(self, tree):
        if self.kind == "sim":
            return "tree_with_every_sequence_once"
        if tree is None:
            return "bad:none"
        idx = sorted(int(leaf.index) for leaf in tree.leaves)
        return "tree_with_every_sequence_once" if idx == list(range(len(self.inputs))) else f"bad:{idx}"

    def _check_dist(self, m):
        if self.kind == "sim":
            return "matrix_the_program_wrote"
        if m is None:
            return "bad:none"
        vals = [[float(x) for x in row] for row in m]
        return "matrix_the_program_wrote" if vals == tool_matrix(len(self.inputs)) else f"other:{vals[:3]}"

    def has(self, c):
        if c == "get_info" and self.kind == "sim":
            return False   # Application itself has no getters outside the life cycle
        if c == "get_tree" and self.kind == "muscle5":
            return False
        if c == "get_dist" and self.kind not in ("clustalo", "sim"):
            return False
        return True

    # ---- class-specific options and results (specs/C20/MsaOptions.tla) --------------------
    def apply_setter(self, name, given):
        """One option setter of the wrapper class; `given` holds the caller's matrix / tree as
        computed by the specification."""
        a = self.app
        n = len(self.inputs)
        if name == "full":
            a.full_matrix_calculation()
        elif name == "dist_in":
            a.set_distance_matrix(_np_matrix(given["matrix"]))
        elif name == "tree_in":
            a.set_guide_tree(tree_from_clades(given["tree"], n))
        elif name == "gap_lin":
            a.set_gap_penalty(-3.0)
        elif name == "gap_aff":
            a.set_gap_penalty((-5.0, -1.0))
        elif name == "iters":
            a.set_iterations(2, 1)
        elif name == "threads":
            a.set_thread_number(2)
        elif name == "super5":
            a.use_super5()
        elif name == "matrix":
            pass   # the substitution matrix is an argument of the constructor
        else:
            raise ValueError(name)

    def extra_getters(self):
        """name -> zero-argument call, for the result getters only this class has."""
        a = self.app
        if self.kind == "clustalo":
            return {"dist": a.get_distance_matrix, "tree_default": a.get_guide_tree}
        if self.kind == "muscle3":
            return {"tree_default": a.get_guide_tree, "tree_kmer": lambda: a.get_guide_tree("kmer"),
                    "tree_identity": lambda: a.get_guide_tree("identity")}
        if self.kind == "mafft":
            return {"tree_default": a.get_guide_tree}
        return {}

    def extras(self):
        """The class-specific results as values of MsaOptions!Extras + the getters' outcomes."""
        from biotite.application.application import AppStateError

        val = {"dist": {"k": "nogetter", "m": []}, "tree_default": [], "tree_kmer": [], "tree_identity": []}
        ocs = {}
        for name, get in self.extra_getters().items():
            try:
                r = get()
                ocs[name] = "ok"
            except AppStateError:
                ocs[name] = "AppStateError"
                r = None
            except Exception as e:  # noqa: BLE001
                ocs[name] = f"Rejected:{type(e).__name__}"
                r = None
            if name == "dist":
                if ocs[name] == "AppStateError":
                    val["dist"] = {"k": "AppStateError", "m": []}
                elif r is None:
                    val["dist"] = {"k": "absent", "m": []}   # refused, or nothing handed out
                    ocs[name] = "ok"
                else:
                    rows = [[float(x) for x in row] for row in r]
                    if all(x == int(x) for row in rows for x in row):
                        val["dist"] = {"k": "value", "m": [[int(x) for x in row] for row in rows]}
                    else:
                        val["dist"] = {"k": "value-not-integral", "m": []}
            elif ocs[name] == "ok":
                val[name] = [clades_of(r)] if r is not None else [[[-1]]]
        return ocs, val

    def guards(self, which):
        """Outcome class of the class-specific getters / setters (which) in the current state;
        they must all agree ("none": the class has none)."""
        from biotite.application.application import AppStateError

        def outcome(calls):
            ocs = set()
            for f in calls:
                try:
                    f()
                    ocs.add("ok")
                except AppStateError:
                    ocs.add("AppStateError")
                except Exception:  # noqa: BLE001
                    ocs.add("ok")   # the life cycle let the call through; its own refusal is another matter
            return "/".join(sorted(ocs)) if ocs else "none"

        given = {"matrix": [[0 if i == j else i + j + 2 for j in range(len(self.inputs))]
                            for i in range(len(self.inputs))],
                 "tree": [list(range(k + 1)) for k in range(1, len(self.inputs))]}
        setters = {"clustalo": ["full", "dist_in", "tree_in"], "muscle3": ["gap_lin", "gap_aff"],
                   "muscle5": ["iters", "threads", "super5"], "mafft": []}[self.kind]
        if which == "getters":
            return outcome(list(self.extra_getters().values()))
        return outcome([(lambda s=s: self.apply_setter(s, given)) for s in setters])

    # ---- results as values of specs/C20/MsaResults.tla -----------------------------------
    def results(self):
        """(outcomes, values) of the three result getters, projected: one run-length gapped row
        per input, the order, the leaves of the tree ([] = the wrapper has no tree getter)."""
        import numpy as np

        a = self.app
        val = {"rows": [], "order": [], "leaves": [], "sequences": "none"}
        ocs = {}
        for c in ("get_alignment", "get_order", "get_tree"):
            if not self.has(c):
                continue
            try:
                if c == "get_alignment":
                    aln = a.get_alignment()
                    trace = np.asarray(aln.trace)
                    rows = []
                    for k in range(trace.shape[1]):
                        col = trace[:, k]
                        gap = col == -1
                        # symbols must be the input's own positions 0,1,2,... in this order
                        good = np.array_equal(col[~gap], np.arange(int((~gap).sum())))
                        rows.append(_rle(gap, "s" if good else "x"))
                    val["rows"] = rows
                    same = len(aln.sequences) == len(self.inputs) and all(
                        (s is i) or (type(s) is type(i) and s == i) for s, i in zip(aln.sequences, self.inputs))
                    val["sequences"] = "the_inputs" if same else "other:" + ",".join(
                        sorted({type(x).__name__ for x in aln.sequences}))
                elif c == "get_order":
                    val["order"] = [int(x) for x in a.get_alignment_order()]
                else:
                    tree = a.get_guide_tree()
                    val["leaves"] = [sorted(int(leaf.index) for leaf in tree.leaves)] if tree is not None else [["none"]]
                ocs[c] = "ok"
            except Exception as e:  # noqa: BLE001
                ocs[c] = f"Rejected:{type(e).__name__}"
        return ocs, val

    def emitted(self):
        """What the external program says it emitted (its own copy): [{hdr: digits, row: rle}]."""
        import numpy as np

        out = []
        try:
            with open(self.copy) as f:
                lines = [ln.rstrip("\n") for ln in f if ln.strip()]
        except OSError:
            return None
        for i in range(0, len(lines) - 1, 2):
            if not lines[i].startswith(">") or not lines[i][1:].isdigit():
                return None
            gap = np.frombuffer(lines[i + 1].encode(), dtype=np.uint8) == ord("-")
            out.append({"hdr": [int(ch) for ch in lines[i][1:]], "row": _rle(gap, "s")})
        return out

    def close(self):
        try:
            # whatever the wrapper left behind is killed and reaped here, never by a later test
            p = getattr(self.app, "_process", None)
            if p is not None and p.poll() is None:
                try:
                    os.kill(p.pid, signal.SIGKILL)
                except OSError:
                    pass
                p.wait(timeout=5)
            for path in self.temp_paths():
                try:
                    os.unlink(path)
                except OSError:
                    pass
        finally:
            tempfile.tempdir = self.old_tempdir
            try:
                os.chdir(self.orig_cwd)
            except OSError:
                pass
            shutil.rmtree(self.dir, ignore_errors=True)


def _np_matrix(rows):
    import numpy as np

    return np.array(rows, dtype=float)


def _rle(gap, sym):
    """Run-length form of a gapped row: gap = boolean array (True = gap)."""
    import numpy as np

    n = len(gap)
    if n == 0:
        return []
    cuts = np.flatnonzero(gap[1:] != gap[:-1]) + 1
    starts = np.concatenate(([0], cuts))
    ends = np.concatenate((cuts, [n]))
    return [{"k": "g" if gap[b] else sym, "c": int(e - b)} for b, e in zip(starts, ends)]


FIELDS = ("app", "proc", "files", "cleanups", "cwd")


def compare(exp, oc, out, obs):
    bad = []
    if oc != exp["oc"]:
        bad.append("oc")
    elif oc == "ok" and out != exp["out"]:
        bad.append("out")
    for f in FIELDS:
        if obs[f] != exp[f]:
            bad.append(f)
    return bad


# --------------------------------------------------------------------------- S2 child
def exec_path(item):
    from harness.tlabind.pool import progress

    G = _graph()
    states = G["states"]
    st = states[item["init"]]
    kind = item["kind"]
    h = Harness(kind, st["tool"])
    mism = []
    done = []
    succ = G["succ"]

    def closure(nodes):
        out = set(nodes)
        for n in list(out):
            out.update(succ.get(str(n), {}).get("refresh", ()))
        return out

    cur = {item["init"]}
    try:
        for c, dst in item["steps"]:
            if c == "refresh" or not h.has(c):
                # silent step of the model (the wrapper noticing the exit): nothing to call;
                # the candidate set below accounts for it
                if c == "refresh":
                    cur = closure(cur)
                continue
            exp = states[dst]
            cands = set()
            for n in closure(cur):
                cands.update(succ.get(str(n), {}).get(c, ()))
            cands = closure(cands)
            progress({"kind": kind, "tool": st["tool"], "c": c, "done": done})
            oc, out = h.do(c)
            obs = h.observe(expect_proc=exp["proc"])
            done.append(c)
            match = [n for n in cands if not compare(states[n], oc, out, obs)]
            if not match:
                mism.append({"kind": "step", "app_kind": kind, "tool": st["tool"], "c": c,
                             "bad": compare(exp, oc, out, obs), "calls": list(done),
                             "expected": {k: exp[k] for k in ("oc", "out", "failed") + FIELDS},
                             "observed": dict(obs, oc=oc, out=out)})
                break
            cur = set(match)
    finally:
        h.close()
    return {"mismatch": mism, "steps": len(done)}


def _small(rows, idx):
    return {str(i): rows[i] for i in idx if i < len(rows)}


NO_EXTRAS = {"dist": {"k": "nogetter", "m": []}, "tree_default": [], "tree_kmer": [], "tree_identity": []}


def run_results_case(kind, cs, tool=None, setters=None, given=None):
    """The plain history construct, [option setters], start, join() on a program that emits the
    rows in the order cs["p"]; returns (outcomes, observations after start and join, emitted
    copy, getter outcomes, results, sequence type).  With `setters` (a list of setter names,
    MsaOptions!Setters) the class-specific result getters are read too (val["extra"]) and the
    class-specific calls are tried in the states that refuse them (oc["guard_*"])."""
    c = cs["case"]
    st = c["st"] if kind in ("muscle3", "mafft") or c["st"] != "custom" else "nuc"
    seqs = [make_seq_text(k, n, st) for k, n in enumerate(cs["L"])]
    h = Harness(kind, tool or DEFAULT_TOOL, seqs=seqs, protein=(st == "prot"), custom=(st == "custom"),
                order=cs["p"], pad=c["pad"], copy=True, hanging=False, full=False,
                matrix=bool(setters) and "matrix" in setters)
    none = {"rows": [], "order": [], "leaves": [], "sequences": "none", "extra": NO_EXTRAS}
    try:
        oc0, _ = h.do("construct")
        oc = {"construct": oc0, "start": "not-called", "join": "not-called"}
        if oc0 != "ok":
            return oc, (h.observe(), h.observe()), None, {}, none, st
        if setters is not None:
            oc["guard_getters_created"] = h.guards("getters")
            for name in setters:
                try:
                    h.apply_setter(name, given)
                except Exception as e:  # noqa: BLE001
                    oc["construct"] = f"setter {name} refused: {type(e).__name__}"
                    return oc, (h.observe(), h.observe()), None, {}, none, st
        oc["start"], _ = h.do("start")
        obs1 = h.observe()
        oc["join"], _ = h.do("join")
        obs2 = h.observe(expect_proc="exited")
        emitted = h.emitted() if oc["join"] == "ok" else None
        ocs, val = h.results() if oc["join"] == "ok" else ({}, dict(none))
        val["extra"] = NO_EXTRAS
        if setters is not None and oc["join"] == "ok":
            xocs, val["extra"] = h.extras()
            ocs.update({"extra:" + k: v for k, v in xocs.items()})
            oc["guard_setters_joined"] = h.guards("setters")
        return oc, (obs1, obs2), emitted, ocs, val, st
    finally:
        h.close()


def _judge_results(cs, oc, obs1, obs2, emitted, ocs, val):
    """Compare one executed plain run with the values TLC computed for the case."""
    s1, s3 = cs["life"]
    bad = []
    if oc["construct"] != "ok":
        return ["construct:" + oc["construct"]]
    if oc["start"] != s1["oc"] or obs1["app"] not in (s1["app"], "FINISHED"):
        bad.append("start")
    bad += ["join:" + b for b in compare(s3, oc["join"], "", obs2)]
    exp = cs["res"]
    if not bad:
        if emitted != cs["out"]:
            raise RuntimeError(f"fake_msa did not emit what the specification's environment emits: {cs['case']}")
        bad += [f"{c}:{o}" for c, o in ocs.items() if o != "ok"]
        if "get_alignment" in ocs:
            if val["rows"] != exp["rows"]:
                bad.append("rows")
            if val["sequences"] != exp["sequences"]:
                bad.append("sequences")
        if "get_order" in ocs and val["order"] != exp["order"]:
            bad.append("order")
        if "get_tree" in ocs and val["leaves"] != [exp["leaves"]]:
            bad.append("leaves")
    return bad


def exec_options(item):
    """S2 of the class-specific half: cases generated by TLC (MCOptions) through the wrapper
    class of the case: construct, the setters in the order of the case, start, join, every
    result getter."""
    from harness.tlabind.pool import progress

    mism = []
    n_eval = 0
    for cs in item["cases"]:
        c = cs["case"]
        kind = c["kind"]
        progress({"kind": kind, "case": c})
        cs = dict(cs, case=dict(c, st=cs["st"]))
        oc, (obs1, obs2), emitted, ocs, val, _st = run_results_case(kind, cs, setters=c["setters"], given=cs["given"])
        n_eval += 3 + len(ocs) + 2
        bad = _judge_results(cs, oc, obs1, obs2, emitted, ocs, val)
        exp, got = cs["extra"], val["extra"]
        if not bad:
            if got["dist"] not in exp["dist"]:     # the specification gives the set of acceptable answers
                bad.append("extra:dist")
            for f in ("tree_default", "tree_kmer", "tree_identity"):
                if got[f] != exp[f]:
                    bad.append("extra:" + f)
            g = cs["guard"]
            if oc["guard_getters_created"] not in (g["getter_created"], "none"):
                bad.append("guard:getters-in-CREATED")
            if oc["guard_setters_joined"] not in (g["setter_joined"], "none"):
                bad.append("guard:setters-in-JOINED")
        if bad:
            mism.append({"kind": "options", "app_kind": kind, "case": cs["case"], "bad": bad,
                         "p": cs["p"], "L": cs["L"], "given": cs["given"],
                         "expected": {"join": cs["life"][1]["oc"], "app": cs["life"][1]["app"], "extra": _short_extra(exp),
                                      "guard": cs["guard"], "order": cs["res"]["order"][:24]},
                         "observed": {"construct": oc["construct"], "start": oc["start"], "join": oc["join"],
                                      "app": obs2["app"], "proc": obs2["proc"], "files": obs2["files"],
                                      "cleanups": obs2["cleanups"], "extra": _short_extra(got),
                                      "guard_getters_created": oc.get("guard_getters_created"),
                                      "guard_setters_joined": oc.get("guard_setters_joined"),
                                      "order": val["order"][:24], "getters": ocs}})
    return {"mismatch": mism, "steps": n_eval, "cases": len(item["cases"])}


def _short_extra(x):
    out = dict(x)
    ds = x["dist"] if isinstance(x["dist"], list) else [x["dist"]]     # expected: the acceptable answers
    ds = [{"k": d["k"], "m": [r[:6] for r in d["m"][:6]]} for d in ds]
    out["dist"] = ds if isinstance(x["dist"], list) else ds[0]
    for f in ("tree_default", "tree_kmer", "tree_identity"):
        out[f] = [[c[:8] for c in t[:8]] for t in x[f]]
    return out


def exec_results(item):
    """S2 of the data half: cases generated by TLC (MCResults) through a real wrapper."""
    from harness.tlabind.pool import progress

    mism = []
    n_eval = 0
    for kind, cs in item["cases"]:
        progress({"kind": kind, "case": cs["case"]})
        oc, (obs1, obs2), emitted, ocs, val, st = run_results_case(kind, cs)
        s1, s3 = cs["life"]
        n_eval += 3 + len(ocs)
        bad = _judge_results(cs, oc, obs1, obs2, emitted, ocs, val)
        exp = cs["res"]
        if bad:
            diff = [i for i in range(len(exp["rows"])) if i >= len(val["rows"]) or val["rows"][i] != exp["rows"][i]][:3]
            mism.append({"kind": "results", "app_kind": kind, "case": cs["case"], "bad": bad,
                         "p": cs["p"], "L": cs["L"],
                         "expected": {"join": s3["oc"], "app": s3["app"], "rows": _small(exp["rows"], diff),
                                      "order": exp["order"][:24], "sequences": exp["sequences"]},
                         "observed": {"start": oc["start"], "join": oc["join"], "app": obs2["app"],
                                      "proc": obs2["proc"], "files": obs2["files"], "cleanups": obs2["cleanups"],
                                      "rows": _small(val["rows"], diff), "order": val["order"][:24],
                                      "leaves": [x[:24] for x in val["leaves"]], "sequences": val["sequences"],
                                      "getters": ocs}})
    return {"mismatch": mism, "steps": n_eval, "cases": len(item["cases"])}


# --------------------------------------------------------------------------- S3 child
CALLS = ["construct", "start", "join", "join_t", "join_T", "cancel", "state", "setter", "get_alignment",
         "get_order", "get_tree", "get_dist", "get_exit_code", "get_stdout", "get_command", "get_process",
         "get_stderr", "get_info", "proc_exits", "proc_writes"]


def gen_trace(item):
    from harness.tlabind.pool import progress

    rng = random.Random(item["seed"])
    kind = item["kind"]
    tool = item["tool"]
    seqsets = [("ACGT", "AC", "ACG"), ("A", "A", "C"), ("ACGTTGCA", "ACGT", "TTT", "G"),
               ("MKV", "MK", "MKVLA"), tuple(make_seq_text(k, 1 + (k * 5) % 7, "nuc") for k in range(12))]
    k = rng.randrange(len(seqsets))
    h = Harness(kind, tool, seqs=seqsets[k], protein=(k == 3), custom=(rng.random() < 0.35))
    events = []
    big = tool["vol"] != "small"
    try:
        weights = {"start": 3, "join": 3, "join_t": 2, "join_T": 2, "cancel": 2, "state": 3, "proc_exits": 3,
                   "proc_writes": 3}
        for step in range(item["length"]):
            # a history starts with the construction of the wrapper; there is no second one
            c = "construct" if step == 0 else rng.choices(CALLS, weights=[weights.get(x, 1) for x in CALLS])[0]
            if not h.has(c) or (c == "construct") != (step == 0):
                continue
            proc = h.proc_state()
            app = h.app._state.name if h.app is not None else "NONE"
            if c == "proc_exits" and not (proc == "running" and not big):
                continue
            if c == "proc_writes" and not (proc == "running" and big):
                continue
            waits = app in ("RUNNING", "FINISHED")
            if c in ("join", "join_T") and waits and proc == "running":
                continue  # would block forever / for the whole long timeout
            if c == "join_t" and waits and proc == "blocked":
                continue  # a race the model does not decide
            if c == "get_command" and tool["launch"] == "badopt" and app not in ("NONE", "CREATED"):
                continue  # Dom_CommandText: the caller supplied an option that is not text
            progress({"kind": kind, "tool": tool, "c": c, "done": [e["c"] for e in events]})
            oc, out = h.do(c)
            # an exit is expected after cancel / timeout / evaluated join
            expect_exit = c in ("cancel", "join_t", "join", "join_T") and oc not in ("AppStateError", "Hang")
            obs = h.observe(expect_proc="exited" if expect_exit else None)
            ev = {"c": c, "tool": tool, "oc": oc, "out": out if oc == "ok" else ""}
            ev.update(obs)
            events.append(ev)
            if c == "construct" and oc != "ok":
                break  # refused construction: there is no object, nothing further can be called
            if oc == "Hang":
                break  # already a disagreement; further calls would only hang again
    finally:
        h.close()
    return {"events": events, "kind": kind}


def _random_clades(rng, n):
    """Clades of a random binary tree on the leaves 0..n-1 (canonical order: size, members)."""
    groups = [[i] for i in range(n)]
    clades = []
    while len(groups) > 1:
        a = groups.pop(rng.randrange(len(groups)))
        b = groups.pop(rng.randrange(len(groups)))
        groups.append(sorted(a + b))
        clades.append(groups[-1])
    return sorted(clades, key=lambda c: (len(c), c))


def gen_results(item):
    """S3 of the data half: a random successful run (any number of sequences, any permutation,
    any lengths, any output volume) recorded with the program's own copy of what it emitted."""
    from harness.tlabind.pool import progress

    rng = random.Random(item["seed"])
    kind = item["kind"]
    events = []
    for _ in range(item["runs"]):
        n = rng.choice([rng.randint(2, 9), rng.randint(10, 14), rng.randint(10, 14), rng.randint(15, 40),
                        rng.randint(15, 40), rng.randint(95, 125)])
        if rng.random() < 0.06:
            n = rng.randint(2, 5)
            lens = [rng.randint(12000, 24000) for _ in range(n)]   # around / above the pipe size
        else:
            lens = [rng.randint(1, 12) for _ in range(n)]
        perm = list(range(n))
        rng.shuffle(perm)
        st = rng.choice(["nuc", "prot", "custom"])
        tool = dict(DEFAULT_TOOL, vol=rng.choice(["small", "small", "bigout", "bigerr", "bigboth"]),
                    ending=rng.choice(["exit0"] * 5 + ["exit3", "SIGKILL", "SIGSEGV"]))
        # any sequence of the class's option setters, repetitions included
        names = {"clustalo": ["full", "dist_in", "tree_in"], "muscle3": ["gap_lin", "gap_aff", "matrix"],
                 "muscle5": ["iters", "threads", "super5"], "mafft": ["matrix"]}[kind]
        setters = [rng.choice(names) for _ in range(rng.choice([0, 1, 2, 2, 3, 4]))]
        if "matrix" in setters:
            st = "prot"
        given = {"matrix": [[0 if i == j else rng.randint(1, 9) + 20 * (i + j) for j in range(n)] for i in range(n)],
                 "tree": _random_clades(rng, n)}
        given["matrix"] = [[given["matrix"][min(i, j)][max(i, j)] for j in range(n)] for i in range(n)]
        cs = {"case": {"st": st, "pad": rng.choice(["end", "alternate"])}, "L": lens, "p": perm}
        progress({"kind": kind, "n": n, "tool": tool, "setters": setters})
        oc, _obs, emitted, ocs, val, st = run_results_case(kind, cs, tool=tool, setters=setters, given=given)
        bad_getter = [c for c, o in ocs.items() if o != "ok"]
        join = oc["join"] if oc["construct"] == "ok" else "construct:" + oc["construct"]
        guards = [oc.get("guard_getters_created", "none"), oc.get("guard_setters_joined", "none")]
        events.append({"tool": tool, "join": join if not bad_getter else "ok-but-" + bad_getter[0],
                       "n": n, "lens": lens, "out": emitted or [], "rows": val["rows"], "order": val["order"],
                       "leaves": val["leaves"], "sequences": val["sequences"], "st": st,
                       "pad": cs["case"]["pad"], "perm": perm, "wkind": kind, "setters": setters,
                       "given_tree": given["tree"], "extra": val["extra"], "guards": guards, "given": given})
    return {"events": events, "kind": kind}


# --------------------------------------------------------------------------- classification
def classify(mm):
    return None


# --------------------------------------------------------------------------- orchestration
def _core_key(st):
    return repr([st[k] for k in ("app", "proc", "files", "cleanups", "cwd", "res", "failed")]
                + sorted(st["tool"].items()))


def run(ctx):
    from harness.tlabind import dot, tlc
    from harness.tlabind.core import Vacuity
    from harness.tlabind.helpers import binding_selftest, dump_states, run_pool, tlc_validate
    from harness.tlabind.tlaval import to_py

    ctx.assumptions += [
        "the external program is fixtures/bin/fake_msa; its progress is triggered by the harness (no sleeps decide a verdict)",
        "join() without timeout and join(timeout=15 s) are only called when the program has exited or only waits for a reader of its pipes (they would block otherwise)",
        "the short timeout is 0.03 s while the child is alive and 5 s once it has exited (so that machine load cannot decide the outcome); it is not used on a program that waits for a reader (a race the model does not decide)",
        "a call that has not returned after 20 s although the program is not hanging is recorded as outcome 'Hang'",
        "a program that announced (marker file) more output than a pipe holds counts as 'blocked' while it is alive",
        "after a failed launch the wrapper is in the end state without results (CANCELLED) and every call is answered by the life cycle",
        "Dom_CommandText: get_command() is not asked after the caller supplied an option that is not text (launch failure 'badopt')",
        "a killed child that is a zombie of the calling process counts as gone (not running)",
        "WebApp / BLAST (network) are covered only through Application's shared state logic (SimApp; small-volume behaviours only)",
        "Dom_Complete: result values are compared for runs whose program emitted every input exactly once",
        "temporary files = anything in the private directory that tempfile.tempdir points to during the history, or any path the wrapper keeps",
        "a construction can only fail on the binary's version answer for the classes that ask for it (MuscleApp, Muscle5App); refused arguments = one sequence, mixed alphabets, an asymmetric matrix (classes that take one)",
        "a program that resists SIGTERM / SIGINT / SIGHUP still dies on SIGKILL; the simulated remote job has no signals",
        "class-specific results: the program writes the fixture's known matrix / trees into every output file it is asked for; a distance matrix that was not asked for may be refused or None",
    ]
    d = tlc.scratch_dir("c20")
    dotf = os.path.join(d, "g.dot")
    # safety + liveness on the core behaviours (this graph is replayed in S2), safety on every
    # combination of the behaviour dimensions, thorough: liveness on every combination too
    res = ctx.tlc("AppLifecycle", "MC.cfg", stage="S1", dump_dot=dotf, workers=1, coverage=False)
    ctx.tlc("AppLifecycle", "MC_all.cfg", stage="S1-all-tools", workers=8)
    if not ctx.quick:
        ctx.tlc("AppLifecycle", "MC_live_all.cfg", stage="S1-liveness", workers=8, count=False)
    ctx.exhaustive = True
    g = dot.load(dotf)
    calls_seen = {}
    for (_s, lab, _d) in g.edges:
        c = dot.parse_label(lab)[1][0]
        calls_seen[c] = calls_seen.get(c, 0) + 1
    missing = (set(CALLS) | {"refresh"}) - set(calls_seen)
    if missing:
        raise Vacuity(f"calls never taken: {missing}")
    ctx.cov["transitions_per_call"] = calls_seen
    ocs = {}
    ids = {nid: k for k, nid in enumerate(g.state_text)}
    states = [None] * len(ids)
    for nid, k in ids.items():
        states[k] = {kk: to_py(v) for kk, v in g.state(nid).items()}
        ocs[states[k]["oc"]] = ocs.get(states[k]["oc"], 0) + 1
    if not {"ok", "AppStateError", "TimeoutError", "Rejected"} <= set(ocs):
        raise Vacuity(f"outcomes not all reached: {ocs}")
    ended = sum(1 for s in states if s["app"] in ("JOINED", "CANCELLED"))
    if ended == 0:
        raise Vacuity("no ended run in the model")
    if not any(s["proc"] == "blocked" for s in states):
        raise Vacuity("no program blocked on its output in the model")
    for dim, vals in list(TOOL_DIMS.items()) + [("build", BUILDS)]:
        seen = {s["tool"][dim] for s in states}
        if seen != set(vals):
            raise Vacuity(f"tool dimension {dim}: {seen} in the graph, {vals} in the driver")
    if not any(s["app"] == "NONE" and s["failed"] for s in states):
        raise Vacuity("no refused construction in the model")
    if not any(s["tool"]["stop"] == "resists" and s["app"] == "CANCELLED" and s["proc"] == "exited" for s in states):
        raise Vacuity("no ended run of a signal-resisting program in the model")
    # the ended run after a failed launch is a state of the life cycle like any other: every
    # public call is asked there (Dom_CommandText: get_command not after a non-text option)
    after_fail = {}
    for (src, lab, _dst) in g.edges:
        st = states[ids[src]]
        if st["failed"] and st["app"] != "NONE":
            after_fail.setdefault(st["tool"]["launch"], set()).add(dot.parse_label(lab)[1][0])
    public = set(CALLS) - {"construct", "proc_exits", "proc_writes"}
    if after_fail.get("missing") != public or after_fail.get("badopt") != public - {"get_command"}:
        raise Vacuity(f"calls after a failed launch: {after_fail}")
    ctx.cov["calls_after_failed_launch"] = {k: len(v) for k, v in after_fail.items()}
    ctx.cov["states_per_outcome"] = ocs
    gfile = os.path.join(d, "graph.json")
    succ = {}
    for (src, lab, dst) in g.edges:
        c = dot.parse_label(lab)[1][0]
        succ.setdefault(str(ids[src]), {}).setdefault(c, [])
        if ids[dst] not in succ[str(ids[src])][c]:
            succ[str(ids[src])][c].append(ids[dst])
    with open(gfile, "w") as f:
        json.dump({"states": states, "succ": succ}, f)
    paths, covered = dot.covering_paths(g, max_len=10, rng=ctx.rng)
    # (state, call) pairs of the model: the state without the outcome of the previous call
    ckey = {nid: _core_key(states[k]) for nid, k in ids.items()}
    pkeys = []
    for root, steps in paths:
        cur, ks = root, set()
        for lab, dst in steps:
            ks.add((ckey[cur], dot.parse_label(lab)[1][0]))
            cur = dst
        pkeys.append(ks)
    all_pairs = set().union(*pkeys)
    items = []
    per_kind_pairs = {}
    for kind in KINDS:
        # the behaviours this wrapper class can meet (the simulated remote job has no pipes and
        # no signals; only the classes that ask for the version can fail on the answer)
        idx = [i for i in range(len(paths)) if realisable(kind, states[ids[paths[i][0]]]["tool"])]
        want = set().union(*[pkeys[i] for i in idx])
        if kind in ASKS_VERSION and want != all_pairs:
            raise Vacuity(f"S2 {kind}: not every (state, call) pair is realisable")
        if ctx.quick:
            # every (state, call) pair on every real wrapper class: greedy cover, long paths first
            ctx.rng.shuffle(idx)
            idx.sort(key=lambda i: -len(pkeys[i]))
            got, sel = set(), []
            for i in idx:
                if pkeys[i] - got:
                    sel.append(i)
                    got |= pkeys[i]
            if got != want:
                raise Vacuity(f"S2 {kind}: {len(got)} of {len(want)} (state, call) pairs selected")
            chosen = set(sel)
            rest = [i for i in idx if i not in chosen]
            sel += ctx.rng.sample(rest, min(len(rest), 60))
            idx = sel
        per_kind_pairs[kind] = len(set().union(*[pkeys[i] for i in idx]))
        for i in idx:
            root, steps = paths[i]
            items.append({"kind": kind, "init": ids[root],
                          "steps": [[dot.parse_label(lab)[1][0], ids[dst]] for lab, dst in steps]})
    tmp = os.path.join(d, "tmp")
    os.mkdir(tmp)
    ctx.log(f"S2: {len(paths)} covering paths ({covered}/{len(g.edges)} transitions, {len(all_pairs)} (state, call) pairs)"
            f" -> {len(items)} executions")
    results = run_pool(ctx, "harness.drivers.c20:exec_path", items, stage="S2",
                       env={"C20_GRAPH": gfile, "C20_TMP": tmp}, item_timeout=90)
    ctx.traces_validated += len(items)
    ctx.evaluations += sum(r.get("steps", 0) for r in results if r)
    ctx.nontrivial += sum(1 for it in items if len(it["steps"]) >= 3)
    ctx.cov["rule"] = ("behaviour = call sequence on one wrapper instance; non-trivial = at least 3 calls "
                       "(S2) or reaches RUNNING (S3); data half: a successful run of >= 3 sequences whose "
                       "program does not emit the rows in input order")
    ctx.cov["s2_paths_per_kind"] = {k: sum(1 for it in items if it["kind"] == k) for k in KINDS}
    ctx.cov["s2_state_call_pairs"] = len(all_pairs)
    ctx.cov["s2_state_call_pairs_per_kind"] = per_kind_pairs
    ctx.cov["s2_transitions_covered"] = covered
    for it in items[:2]:
        ctx.sample({"kind": it["kind"], "tool": states[it["init"]]["tool"], "calls": [c for c, _ in it["steps"]]})
    # ---- S1 + S2 of the data half -------------------------------------------------------
    real = [k for k in KINDS if k != "sim"]
    _r, cases = dump_states(ctx, "MCResults", "MCResults.cfg" if ctx.quick else "MCResults_thorough.cfg",
                            stage="S1-results", workers=8)
    cases.sort(key=lambda cs: json.dumps(cs["case"], sort_keys=True))
    ns = sorted({cs["case"]["n"] for cs in cases})
    if not (min(ns) <= 3 and any(10 < n < 100 for n in ns) and max(ns) > 100):
        raise Vacuity(f"numbers of sequences {ns} do not cross the numeral boundaries")
    if not any(sum(cs["L"]) > 70000 for cs in cases):
        raise Vacuity("no case whose alignment exceeds the OS pipe size")
    pairs = []
    for j, cs in enumerate(cases):
        ks = ["muscle3", "mafft"] if cs["case"]["st"] == "custom" else real
        if ctx.quick and cs["case"]["prof"] != "long":
            ks = [ks[(j + ctx.seed) % len(ks)]]   # quick: one wrapper class per case, all of them for the big ones
        pairs += [[k, cs] for k in ks]
    # heavy cases first, ~10 cases per item
    pairs.sort(key=lambda kc: -sum(kc[1]["L"]))
    nitems = max(16, len(pairs) // 10)
    ritems = [{"cases": pairs[i::nitems]} for i in range(nitems)]
    rres = run_pool(ctx, "harness.drivers.c20:exec_results", ritems, stage="S2-results",
                    env={"C20_TMP": tmp}, item_timeout=300)
    ctx.traces_validated += len(pairs)
    ctx.evaluations += sum(r.get("steps", 0) for r in rres if r)
    ctx.nontrivial += sum(1 for _k, cs in pairs if cs["case"]["n"] >= 3 and cs["case"]["em"] != "identity")
    ctx.cov["results_cases"] = len(cases)
    ctx.cov["results_executions"] = len(pairs)
    ctx.cov["results_sequence_counts"] = ns
    ctx.cov["results_per_kind"] = {k: sum(1 for kk, _ in pairs if kk == k) for k in real}
    ctx.sample({"results_case": cases[0]["case"], "p": cases[0]["p"], "order": cases[0]["res"]["order"]})
    # ---- S1 + S2 of the class-specific half (option setters x class-specific getters) -------
    _r, ocases = dump_states(ctx, "MCOptions", "MCOptions.cfg" if ctx.quick else "MCOptions_thorough.cfg",
                             stage="S1-options", workers=8)
    ocases.sort(key=lambda cs: json.dumps(cs["case"], sort_keys=True))
    seen_sets = {(cs["case"]["kind"], tuple(sorted(set(cs["case"]["setters"])))) for cs in ocases}
    for k, names in (("clustalo", ("full", "dist_in", "tree_in")), ("muscle3", ("gap_lin", "gap_aff", "matrix")),
                     ("muscle5", ("iters", "threads", "super5")), ("mafft", ("matrix",))):
        subsets = {(k, tuple(sorted(n for j, n in enumerate(names) if m >> j & 1))) for m in range(1 << len(names))}
        if not subsets <= seen_sets:
            raise Vacuity(f"option cases of {k}: subsets {sorted(subsets - seen_sets)} of the setters missing")
    if not any([d["k"] for d in cs["extra"]["dist"]] == ["value"] and "dist_in" in cs["case"]["setters"]
               for cs in ocases):
        raise Vacuity("no option case in which a distance matrix is both given and asked for")
    if not any(cs["extra"]["tree_kmer"] and cs["extra"]["tree_kmer"] != cs["extra"]["tree_identity"] for cs in ocases):
        raise Vacuity("no option case with distinguishable trees of the two iterations")
    ocases.sort(key=lambda cs: -cs["case"]["n"])
    nitems = max(16, len(ocases) // 12)
    oitems = [{"cases": ocases[i::nitems]} for i in range(nitems)]
    ores = run_pool(ctx, "harness.drivers.c20:exec_options", oitems, stage="S2-options",
                    env={"C20_TMP": tmp}, item_timeout=300)
    ctx.traces_validated += len(ocases)
    ctx.evaluations += sum(r.get("steps", 0) for r in ores if r)
    ctx.nontrivial += sum(1 for cs in ocases if len(cs["case"]["setters"]) >= 2)
    ctx.cov["options_cases"] = len(ocases)
    ctx.cov["options_cases_per_kind"] = {k: sum(1 for cs in ocases if cs["case"]["kind"] == k) for k in real}
    ctx.cov["options_setter_sequences"] = len({(cs["case"]["kind"], tuple(cs["case"]["setters"])) for cs in ocases})
    ctx.sample({"options_case": ocases[0]["case"], "extra": _short_extra(ocases[0]["extra"])})
    # ---- S3 ----------------------------------------------------------------------------
    ntr = 150 if ctx.quick else 4000
    titems = []
    for k in range(ntr):
        kind = KINDS[k % len(KINDS)]
        r = ctx.rng.random()
        if r < 0.12:
            tool = dict(DEFAULT_TOOL, launch=ctx.rng.choice(["missing", "badopt"]))
        elif r < 0.22:
            tool = dict(DEFAULT_TOOL, build=ctx.rng.choice([b for b in BUILDS if b != "ok"]))
            if not realisable(kind, tool):
                tool["build"] = "bad_input" if kind != "sim" else "ok"
        else:
            tool = dict(DEFAULT_TOOL)
            for dim, vals in TOOL_DIMS.items():
                # half of the draws keep the default of a dimension: most runs are nearly healthy
                tool[dim] = ctx.rng.choice(vals) if ctx.rng.random() < 0.5 else vals[0]
            if tool["output"] != "complete":
                tool["order"] = "identity"
            if kind == "sim":
                tool["vol"] = "small"
                tool["stop"] = "default"
        titems.append({"seed": ctx.rng.randrange(1 << 30), "kind": kind, "tool": tool, "length": 16})
    tres = run_pool(ctx, "harness.drivers.c20:gen_trace", titems, stage="S3",
                    env={"C20_TMP": tmp}, item_timeout=120)
    traces, kinds = [], []
    for it, r in zip(titems, tres):
        if r and r.get("events"):
            traces.append(r["events"])
            kinds.append(it["kind"])
    mms = tlc_validate(ctx, traces)
    for m in mms:
        _tag, tid, l, flags, expd = m
        e = traces[tid - 1][l - 1]
        if expd["oc"] == "NOTENABLED":
            raise RuntimeError(f"S3 driver issued a call the model does not enable: trace {tid} event {l} {e}")
        names = ["oc", "out", "app", "proc", "files", "cleanups", "cwd"]
        expd = dict(expd)
        ctx.mismatch({"stage": "S3", "kind": "event", "app_kind": kinds[tid - 1], "tool": e["tool"],
                      "c": e["c"], "bad": [n for n, ok in zip(names, flags) if not ok],
                      "calls": [x["c"] for x in traces[tid - 1][:l]],
                      "expected": expd, "observed": {k: e[k] for k in names}})
    ctx.traces_validated += len(traces)
    ctx.evaluations += sum(len(t) for t in traces)
    ctx.nontrivial += sum(1 for t in traces if any(e["app"] == "RUNNING" for e in t))
    ctx.cov["s3_traces"] = len(traces)
    ctx.cov["s3_refused_constructions"] = sum(1 for t in traces if t[0]["c"] == "construct" and t[0]["oc"] != "ok")
    ctx.cov["s3_resisting_programs_ended_from_outside"] = sum(
        1 for t in traces if any(e["tool"]["stop"] == "resists" and e["c"] in ("cancel", "join_t")
                                 and e["oc"] in ("ok", "TimeoutError") and e["app"] == "CANCELLED" for e in t))
    ctx.cov["s3_calls_after_failed_launch"] = sum(
        len(t) - 1 - j for t in traces for j, e in enumerate(t) if e["c"] == "start" and e["oc"] == "Rejected")
    ctx.cov["s3_tools"] = len({json.dumps(it["tool"], sort_keys=True) for it in titems})
    ctx.sample({"s3_trace": traces[0][:3]} if traces else {})

    def corrupt(tr):
        for e in tr:
            if e["oc"] == "ok" and e["c"] in ("start", "cancel", "join", "join_t", "join_T", "state"):
                e["app"] = "JOINED" if e["app"] != "JOINED" else "RUNNING"
                return True
        return False

    binding_selftest(ctx, traces, corrupt)
    # ---- S3 of the data half -----------------------------------------------------------
    nrun = 96 if ctx.quick else 1500
    per = 4
    gitems = [{"seed": ctx.rng.randrange(1 << 30), "kind": real[k % len(real)], "runs": per}
              for k in range(nrun // per)]
    gres = run_pool(ctx, "harness.drivers.c20:gen_results", gitems, stage="S3-results",
                    env={"C20_TMP": tmp}, item_timeout=300)
    rtraces, rkinds = [], []
    for it, r in zip(gitems, gres):
        for e in (r or {}).get("events", ()):
            rtraces.append([e])
            rkinds.append(it["kind"])
    keep = ("tool", "join", "n", "lens", "out", "rows", "order", "leaves", "sequences", "wkind", "setters",
            "given_tree", "extra", "guards")
    rms = tlc_validate(ctx, rtraces, module="ResultsTrace", cfg="ResultsTrace.cfg", stage="S3-results", keep=keep)
    for m in rms:
        _tag, tid, _l, flags, expd = m
        e = rtraces[tid - 1][0]
        if expd["oc"] == "NOTDOMAIN":
            raise RuntimeError(f"S3-results: the program's copy is not a complete alignment: {e['tool']} n={e['n']} out={e['out'][:3]}")
        names = ["rows", "order", "leaves", "sequences", "faithful", "extra", "guards"]
        bad = [n for n, ok in zip(names, flags) if not ok] if expd["oc"] == e["join"] else ["join"]
        diff = [i for i, r in enumerate(expd.get("rows", [])) if i >= len(e["rows"]) or e["rows"][i] != r][:3]
        ctx.mismatch({"stage": "S3", "kind": "results_event", "app_kind": rkinds[tid - 1], "tool": e["tool"],
                      "bad": bad, "n": e["n"], "lens": e["lens"], "st": e["st"], "pad": e["pad"],
                      "setters": e["setters"], "given": e["given"],
                      "emitted_order": [int("".join(map(str, o["hdr"]))) for o in e["out"]] or e["perm"],
                      "expected": {"join": expd["oc"], "rows": _small(expd.get("rows", []), diff),
                                   "order": expd.get("order", [])[:24],
                                   "extra": _short_extra(expd["extra"]) if "extra" in expd else None},
                      "observed": {"join": e["join"], "rows": _small(e["rows"], diff), "order": e["order"][:24],
                                   "extra": _short_extra(e["extra"]), "guards": e["guards"],
                                   "leaves": [x[:24] for x in e["leaves"]], "sequences": e["sequences"]}})
    ctx.traces_validated += len(rtraces)
    ctx.evaluations += 4 * len(rtraces)
    ctx.nontrivial += sum(1 for t in rtraces if t[0]["join"] == "ok" and t[0]["n"] >= 3
                          and t[0]["order"] != sorted(t[0]["order"]))
    ctx.cov["s3_result_runs"] = len(rtraces)
    ctx.cov["s3_result_runs_over_10_sequences"] = sum(1 for t in rtraces if t[0]["n"] > 10)
    ctx.cov["s3_result_runs_joined"] = sum(1 for t in rtraces if t[0]["join"] == "ok")
    if ctx.cov["s3_result_runs_joined"] == 0 or ctx.cov["s3_result_runs_over_10_sequences"] == 0:
        raise Vacuity("S3-results: no successful run / no run with more than 10 sequences recorded")

    def corrupt_rows(tr):
        e = tr[0]
        if e["join"] == "ok" and e["n"] >= 2 and e["rows"][0] != e["rows"][1]:
            e["rows"][0], e["rows"][1] = e["rows"][1], e["rows"][0]
            return True
        if e["join"] == "ok":
            e["order"] = list(reversed(e["order"]))
            return e["order"] != list(reversed(e["order"]))
        return False

    binding_selftest(ctx, [[{k: e[k] for k in keep}] for (e,) in rtraces if e["join"] == "ok"], corrupt_rows,
                     module="ResultsTrace", cfg="ResultsTrace.cfg")

    def corrupt_extra(tr):
        x = tr[0]["extra"]
        if x["dist"]["k"] == "value":
            x["dist"]["m"][0][1] += 1     # not the matrix the program wrote
            return True
        if x["tree_kmer"]:
            x["tree_kmer"], x["tree_identity"] = x["tree_identity"], x["tree_kmer"]
            return x["tree_kmer"] != x["tree_identity"]
        return False

    with_extra = [[{k: e[k] for k in keep}] for (e,) in rtraces if e["join"] == "ok" and (
        e["extra"]["dist"]["k"] == "value" or (e["extra"]["tree_kmer"] and e["n"] >= 3))]
    ctx.cov["s3_result_runs_with_matrix"] = sum(1 for (e,) in rtraces if e["extra"]["dist"]["k"] == "value")
    ctx.cov["s3_result_runs_matrix_given_and_asked"] = sum(
        1 for (e,) in rtraces if e["extra"]["dist"]["k"] == "value" and "dist_in" in e["setters"])
    if not with_extra:
        raise Vacuity("S3-results: no recorded run with a class-specific result")
    binding_selftest(ctx, with_extra, corrupt_extra, module="ResultsTrace", cfg="ResultsTrace.cfg")


def replay(record):
    if record.get("kind") in ("results", "results_event", "options"):
        # the stored expectation (computed by TLC in the run that found it) against a fresh run
        setters = given = None
        if record["kind"] == "results":
            cs = {"case": record["case"], "L": record["L"], "p": record["p"]}
            tool = None
        elif record["kind"] == "options":
            cs = {"case": record["case"], "L": record["L"], "p": record["p"]}
            tool, setters, given = None, record["case"]["setters"], record["given"]
        else:
            cs = {"case": {"st": record["st"], "pad": record["pad"]}, "L": record["lens"],
                  "p": record["emitted_order"]}
            tool, setters, given = record["tool"], record.get("setters"), record.get("given")
        oc, (_o1, obs2), _em, ocs, val, _st = run_results_case(record["app_kind"], cs, tool=tool,
                                                               setters=setters, given=given)
        exp = record["expected"]
        bad = []
        if oc["construct"] != "ok":
            bad.append("construct")
        if oc["join"] != exp["join"]:
            bad.append("join")
        if exp.get("extra") and oc["join"] == "ok":
            got = _short_extra(val["extra"])
            if got["dist"] not in exp["extra"]["dist"] or any(
                    got[f] != exp["extra"][f] for f in ("tree_default", "tree_kmer", "tree_identity")):
                bad.append("extra")
        if "guard" in exp and oc["join"] == "ok" and (
                oc.get("guard_getters_created") not in (exp["guard"]["getter_created"], "none")
                or oc.get("guard_setters_joined") not in (exp["guard"]["setter_joined"], "none")):
            bad.append("guard")
        bad += [c for c, o in ocs.items() if o != "ok"]
        for i, r in exp.get("rows", {}).items():
            if int(i) >= len(val["rows"]) or val["rows"][int(i)] != r:
                bad.append(f"row {i}")
        if oc["join"] == "ok" and "order" in exp and val["order"][:24] != exp["order"]:
            bad.append("order")
        return {"observed": {"join": oc["join"], "app": obs2["app"], "getters": ocs,
                             "rows": _small(val["rows"], [int(i) for i in exp.get("rows", {})]),
                             "order": val["order"][:24], "extra": _short_extra(val["extra"])},
                "expected": exp, "mismatch": bool(bad), "bad": bad}
    h = Harness(record["app_kind"], record["tool"])
    try:
        last = None
        for c in record["calls"]:
            oc, out = h.do(c)
            last = dict(h.observe(expect_proc=record["expected"].get("proc")), oc=oc, out=out, c=c)
        exp = record["expected"]
        bad = [k for k in ("oc",) + FIELDS if k in exp and exp[k] != last.get(k)]
        return {"last": last, "expected": exp, "mismatch": bool(bad), "bad": bad}
    finally:
        h.close()


MANIFEST = {
    "technique": "TLA+ life-cycle state machine (specs/C20) model-checked by TLC incl. liveness, plus TLA+ specifications of the result mapping (rows mapped back to the input order by header number) and of the class-specific options and results (distance matrix, guide trees: what the program wrote, for every order of every subset of the option setters); every (state, call) pair / transition replayed against the real wrappers with real child processes; TLC-generated result and option cases run through the real wrappers; recorded call sequences and recorded runs validated by TLC",
    "level_text": "TLC explores the complete reachable state space of the wrapper life cycle (the construction, 17 public calls and two environment steps x 246 behaviours of the environment: refused construction (binary missing / wrong version / no version when asked, refused arguments), launch failure, row order, complete / truncated / garbage / no output, exit 0 / failing exit / death by SIGKILL, SIGTERM, SIGSEGV, output volume below / above the OS pipe size on STDOUT / STDERR, a program that dies on / resists the signals it can catch; closes at depth 6) and checks RunEndsClean, NoObjectNoResources, ResultsOnlyAfterJoin, ResultsOnlyOfSuccess, refusal-is-a-no-op, legal-iff-allowed and, under weak fairness, that a started program leaves its working phase and that a program waiting for a reader is ended by join. The graph of 23 core behaviours is executed against ClustalOmegaApp, MuscleApp, Muscle5App, MafftApp (real child processes of a fake tool whose progress the harness triggers) and a minimal Application subclass: quick covers every (state, call) pair on every class, thorough every transition; wrapper state, outcome class, child-process liveness (/proc), temporary files (a private temporary directory), working directory, number of clean-up runs and result values are compared after each call, the construction included. The result mapping is specified on values (MsaResults.tla) and checked for 2..101 (thorough ..120) sequences x 6 emission orders x length profiles x padding x sequence type, incl. alignments larger than a pipe. The class-specific results (MsaOptions.tla) are checked for every order of every subset of the option setters of each class (thorough: every sequence of up to 3 setters) x 3 (thorough 5) numbers of sequences x emission orders, the program writing known, distinguishable content into every output file it is asked for. Random longer call sequences and random runs (up to 125 sequences, random setter sequences, random caller matrices and trees) are validated by TLC against the same operators.",
    "level_note": "The external programs are replaced by fixtures/bin/fake_msa; timing is controlled by trigger / marker files; a call that does not return within 20 s is the outcome Hang. Wrapper state is read from the private flag (the public query is its own action). After a failed launch the wrapper must be CANCELLED and every public call is asked again in that state (get_command not after a non-text option); after a refused construction there is no object and only the clean-up obligations are compared. A construction can only fail on the version answer for the classes that ask for it. Without full_matrix_calculation() the distance-matrix getter may refuse or hand out the program's matrix. Trusted: TLC, /proc/<pid>/stat for process liveness, the fake program's own copy of what it emitted (cross-checked against the specification's environment in S2), the fixture's known matrix / tree content.",
}
