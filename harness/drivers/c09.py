"""C09 - banded, seed-extended gapped (X-drop) and ungapped alignments are valid, honestly
scored and never above the optimum.

S1  TLC checks specs/C09/Heuristics.tla on every call of the bounded domain: the banded
    dynamic programme written in the shape of banded.pyx (swap + transposed matrix, cropped
    band, zero top row, missing left column, trace starts, trace representation) stays below
    the unrestricted optimum, reaches it under a full band, pairs only in-band positions and is
    honestly scored (modulo the known-bad predicate KB_C09_BoundaryGap, where the model
    reproduces the defect); the ungapped X-drop loop equals its declarative meaning; the
    composed seeded optimum equals the maximum over all candidate alignments through the seed.
S2  every TLC-enumerated call is executed against the real function (rotating alphabet sizes /
    code dtypes, several thresholds and max_number values for the gapped extension) and the
    recorded results are judged by TLC (specs/C09/Trace.tla).
S3  seeded random calls beyond the bounds (lengths <= 14, alphabets <= 4, out-of-range bands
    and seeds, refusals, table-size limits on sequences > 100) are recorded and judged by TLC.
"""

from __future__ import annotations

import json
import os
import random
import re

from harness.drivers import c08 as base


# --------------------------------------------------------------------------- input realisation
# (own copy: the C08 driver's realisation of inputs became richer - matrix construction forms -
#  and C09 keeps the plain one: alphabet-size variants decide the code dtype, a third component
#  "F" makes the score matrix Fortran-ordered)
REPS = [("u8", "u8"), ("u16", "u8"), ("u8", "u16"), ("u16", "u16"), ("u32", "u8"), ("u8", "u32"),
        ("u8p", "u8p"), ("u8", "u8", "F"), ("u16", "u8p", "F")]
SIZES = {"u8": None, "u8p": 11, "u16": 300, "u32": 70000}
FILL = 77           # score of symbol pairs that never occur: a wrong table lookup becomes visible
_ALPH = {}


def _alphabet(size):
    import biotite.sequence as seq

    if size not in _ALPH:
        _ALPH[size] = seq.Alphabet(list(range(size)))
    return _ALPH[size]


def _embed(c, size, k):
    """code of abstract symbol c in an alphabet of `size` symbols"""
    if size == k:
        return c
    return size - 1 - c * ((size - 1) // k)


def build_rep(inp, rep):
    """abstract input -> (seq1, seq2, SubstitutionMatrix)"""
    import numpy as np
    import biotite.sequence as seq
    import biotite.sequence.align as align

    M = inp["M"]
    k1, k2 = len(M), len(M[0])
    z1 = SIZES[rep[0]] or k1
    z2 = SIZES[rep[1]] or k2
    a1, a2 = _alphabet(z1), _alphabet(z2)
    mat = np.full((z1, z2), FILL, dtype=np.int64)
    for a in range(k1):
        for b in range(k2):
            mat[_embed(a, z1, k1), _embed(b, z2, k2)] = M[a][b]
    if len(rep) > 2 and rep[2] == "F":
        mat = np.asfortranarray(mat)
    sm = align.SubstitutionMatrix(a1, a2, mat)
    if len(rep) > 2 and rep[2] == "F" and not sm.score_matrix().flags["F_CONTIGUOUS"]:
        sm = align.SubstitutionMatrix(a2, a1, mat.T.copy()).transpose()
    s1 = seq.GeneralSequence(a1)
    s1.code = np.array([_embed(c, z1, k1) for c in inp["s1"]], dtype=np.int64)
    s2 = seq.GeneralSequence(a2)
    s2.code = np.array([_embed(c, z2, k2) for c in inp["s2"]], dtype=np.int64)
    return s1, s2, sm


PROPERTY = "C09"

MANIFEST = {
    "technique": "TLA+ specification of the relations C09 states (valid, honest score, <= optimum of the unrestricted problem, = when the band is full / the threshold cannot bind, in-band pairs, seed and direction) on top of the C08 scoring model, plus code-shaped models of the banded dynamic programme and the ungapped X-drop loop (specs/C09, specs/lib/PairAlign.tla), model-checked by TLC; every TLC-enumerated call executed against align_banded / align_local_ungapped / align_local_gapped and judged by TLC; recorded random calls judged by TLC",
    "level_text": "TLC enumerates all calls over a 2-letter alphabet with sequences of length 1..3: align_banded with every ordered pair of diagonals from a set reaching outside the table, six matrices, linear / affine / zero penalties, semi-global and local; align_local_ungapped with every seed, thresholds 0..3 and a non-binding one, three directions; the seeded optimum for align_local_gapped with every seed, direction and strictly negative penalties. It checks that the code-shaped banded programme never exceeds the unrestricted optimum, reaches it under a full band when some optimum pairs a position, returns only valid in-band alignments with terminal unaligned ends whose recomputed (completed) score is the reported one - except on the inputs of the known-bad predicate, where the model reproduces the defect of the code -, that the X-drop loop equals the documented prefix-sum meaning, and that the composed seeded optimum equals the maximum over all candidates through the seed. Every enumerated call is executed against the real functions (uint8/uint16/uint32 codes, thresholds 0/2/non-binding, max_number 1/3/1000, score_only) and judged by TLC; random calls up to length 14 (and > 100 for max_table_size) are recorded and judged by TLC.",
    "level_note": "Bounded: exhaustive only for 2 letters and length <= 3; beyond that recorded calls, where the optimum is the specification's dynamic programme. For the gapped X-drop extension only the relations of the property are specified (no model of the antidiagonal pruning): for binding thresholds the check decides validity, seed, direction, honest score and the upper bound, not which sub-optimal score is correct. 'Reaches the optimum' for seeded calls is read as: equals the best local alignment through the seed in the requested direction when the threshold cannot bind. For large semi-global inputs with optimum 0 the side condition 'some optimum pairs a position' is undecided and equality is not demanded. The exact ungapped trace length under ties and equality of the banded score with the model are diagnostics. int32 overflow is outside the model. Trusted: TLC, the dump parser, numpy, the projection of Alignment objects.",
}

_KEEP = ("op", "s1", "s2", "M", "gap", "band", "local", "seed", "X", "dir", "maxn", "mts", "oc", "exc",
         "scores", "count", "traces", "sonly", "big")
FLAGS = ("oc", "valid", "honest", "upper", "reach", "count", "sonly")
EXC = (ValueError, TypeError, IndexError, MemoryError, OverflowError)


# --------------------------------------------------------------------------- real side
def run_call(c):
    """Execute one abstract call; returns the event."""
    import biotite.sequence.align as align

    inp = {"s1": c["s1"], "s2": c["s2"], "M": c["M"]}
    s1, s2, sm = build_rep(inp, tuple(c.get("rep") or REPS[0]))
    ev = {k: c[k] for k in ("op", "s1", "s2", "M", "gap", "band", "local", "seed", "X", "dir", "maxn", "mts")}
    ev.update(oc="ok", exc="", scores=[], count=0, traces=[], sonly=[], big=int(c.get("big", 0)),
              rep=list(c.get("rep") or REPS[0]))
    gap = base._gap_arg(c["gap"])
    op = c["op"]
    try:
        if op == "banded":
            res = align.align_banded(s1, s2, sm, band=(int(c["band"][0]), int(c["band"][1])),
                                     gap_penalty=gap, local=bool(c["local"]), max_number=int(c["maxn"]))
        elif op == "ungapped":
            res = [align.align_local_ungapped(s1, s2, sm, seed=(int(c["seed"][0]), int(c["seed"][1])),
                                              threshold=int(c["X"]), direction=c["dir"])]
        elif op == "gapped":
            mts = None if not c["mts"] else int(c["mts"][0])
            res = align.align_local_gapped(s1, s2, sm, seed=(int(c["seed"][0]), int(c["seed"][1])),
                                           threshold=int(c["X"]), gap_penalty=gap, max_number=int(c["maxn"]),
                                           direction=c["dir"], max_table_size=mts)
        else:
            raise RuntimeError(op)
    except EXC as e:
        ev.update(oc="Rejected", exc=type(e).__name__)
        return ev
    seen = {}
    scores = set()
    for al in res:
        tr = [[int(a), int(b)] for a, b in al.trace.tolist()]
        key = json.dumps(tr)
        if key not in seen:
            seen[key] = 1
            ev["traces"].append(tr)
        scores.add(int(al.score))
        if list(al.sequences[0].code) != list(s1.code) or list(al.sequences[1].code) != list(s2.code):
            scores.add(-999999)          # result refers to other / swapped sequences
    ev["count"] = len(res)
    ev["scores"] = sorted(scores)
    # score-only variant of the same call
    try:
        if op == "ungapped":
            v = align.align_local_ungapped(s1, s2, sm, seed=(int(c["seed"][0]), int(c["seed"][1])),
                                           threshold=int(c["X"]), direction=c["dir"], score_only=True)
            ev["sonly"] = [int(v)]
        elif op == "gapped":
            mts = None if not c["mts"] else int(c["mts"][0])
            v = align.align_local_gapped(s1, s2, sm, seed=(int(c["seed"][0]), int(c["seed"][1])),
                                         threshold=int(c["X"]), gap_penalty=gap, max_number=int(c["maxn"]),
                                         direction=c["dir"], score_only=True, max_table_size=mts)
            ev["sonly"] = [int(v)]
    except EXC as e:
        ev["sonly"] = []
        ev["exc"] = "score_only:" + type(e).__name__
    return ev


def warmup():
    base.warmup()


def exec_calls(item):
    from harness.tlabind.pool import progress

    events = []
    for k, c in enumerate(item["calls"]):
        if k < item.get("skip", 0):
            continue
        progress({"op": c["op"], "call": {x: c[x] for x in c if x != "model"}, "k": k})
        ev = run_call(c)
        if "model" in c:
            ev["model"] = c["model"]
        events.append(ev)
    return {"events": events}


# --------------------------------------------------------------------------- S3 generator
def _rand_matrix(rng, k1, k2):
    style = rng.random()
    if style < 0.3:
        return [[(2 if a == b else -1) for b in range(k2)] for a in range(k1)]
    if style < 0.45:
        return [[rng.randint(-5, -1) for _ in range(k2)] for _ in range(k1)]
    if style < 0.6:
        return [[(3 if a == b else -4) for b in range(k2)] for a in range(k1)]
    return [[rng.randint(-4, 5) for _ in range(k2)] for _ in range(k1)]


def _rand_seqs(rng, k1, k2, lo, hi):
    n = rng.randint(lo, hi)
    m = rng.randint(lo, hi)
    s1 = [rng.randrange(k1) for _ in range(n)]
    if k1 == k2 and rng.random() < 0.6:
        s2 = []
        for c in s1:
            r = rng.random()
            if r < 0.75:
                s2.append(c)
            elif r < 0.85:
                s2.append(rng.randrange(k2))
                s2.append(c)
        s2 = (s2 or [0])[:hi]
        if rng.random() < 0.5:
            s2 = [rng.randrange(k2) for _ in range(rng.randint(0, 3))] + s2
            s2 = s2[:hi]
    else:
        s2 = [rng.randrange(k2) for _ in range(m)]
    return s1, s2


def _rand_gap(rng, strict):
    lo = -1 if strict else 0
    if rng.random() < 0.5:
        return [rng.choice([lo, -1, -2, -3, -6])]
    return [rng.choice([lo, -1, -2, -3, -6]), rng.choice([lo, -1, -1, -2, -4])]


def _rand_call(rng):
    k1 = rng.randint(1, 4)
    k2 = k1 if rng.random() < 0.7 else rng.randint(1, 4)
    M = _rand_matrix(rng, k1, k2)
    op = rng.choice(["banded", "banded", "ungapped", "gapped", "gapped"])
    c = {"op": op, "M": M, "gap": [-1], "band": [0, 0], "local": False, "seed": [0, 0], "X": 0,
         "dir": "both", "maxn": 1, "mts": [], "big": 0, "rep": list(REPS[rng.randrange(len(REPS))])}
    r = rng.random()
    if op == "banded":
        c["s1"], c["s2"] = _rand_seqs(rng, k1, k2, 1, 10)
        n, m = len(c["s1"]), len(c["s2"])
        b = [rng.randint(-n - 2, m + 2), rng.randint(-n - 2, m + 2)]
        if rng.random() < 0.25:
            b = [-n - rng.randint(0, 2), m + rng.randint(0, 2)]          # full band
        if rng.random() < 0.15:
            d = rng.randint(-n + 1, m - 1)
            b = [d, d]                                                    # single diagonal
        c["band"] = b
        c["gap"] = _rand_gap(rng, strict=False)
        if 0 in c["gap"] and max(n, m) > 5:
            # a zero gap penalty makes the number of co-optimal tracebacks explode (TLC would have
            # to enumerate them: minutes for 10 x 10); zero penalties stay on short sequences here
            # and are enumerated exhaustively up to length 3 in S2
            c["gap"] = [g or -1 for g in c["gap"]]
        c["local"] = rng.random() < 0.5
        c["maxn"] = rng.choice([1, 2, 1000, 1000])
        if r > 0.95:
            c["gap"] = [1] if rng.random() < 0.5 else [-1, 1]
        elif r > 0.92:
            c["maxn"] = 0
    elif op == "ungapped":
        c["s1"], c["s2"] = _rand_seqs(rng, k1, k2, 1, 14)
        n, m = len(c["s1"]), len(c["s2"])
        c["seed"] = [rng.randrange(n), rng.randrange(m)]
        c["X"] = rng.choice([0, 1, 2, 3, 4, 6, 1000])
        c["dir"] = rng.choice(["both", "upstream", "downstream"])
        if r > 0.95:
            c["seed"] = rng.choice([[n, 0], [0, m + 1], [-1, 0], [0, -2]])
        elif r > 0.92:
            c["X"] = -1
        elif r > 0.89:
            c["dir"] = "sideways"
    else:
        c["s1"], c["s2"] = _rand_seqs(rng, k1, k2, 1, 10)
        n, m = len(c["s1"]), len(c["s2"])
        c["seed"] = [rng.randrange(n), rng.randrange(m)]
        c["X"] = rng.choice([0, 1, 2, 3, 6, 1000, 1000])
        c["dir"] = rng.choice(["both", "both", "upstream", "downstream"])
        c["gap"] = _rand_gap(rng, strict=True)
        c["maxn"] = rng.choice([1, 1, 2, 5])
        c["mts"] = rng.choice([[], [], [], [1000000], [50]])
        if r > 0.96:
            c["gap"] = [0] if rng.random() < 0.5 else [-1, 0]
        elif r > 0.93:
            c["seed"] = rng.choice([[n, 0], [0, m], [-1, 0]])
        elif r > 0.91:
            c["mts"] = [0]
        elif r > 0.89:
            c["maxn"] = 0
        elif r > 0.87:
            c["X"] = -2
    return c


def _long_call(rng):
    """sequences longer than the initial 100x100 table of the X-drop extension"""
    k = 4
    n = rng.randint(110, 170)
    s1 = [rng.randrange(k) for _ in range(n)]
    s2 = []
    for c in s1:
        r = rng.random()
        if r < 0.9:
            s2.append(c)
        elif r < 0.95:
            s2 += [rng.randrange(k), c]
    M = [[(2 if a == b else -3) for b in range(k)] for a in range(k)]
    i = rng.randrange(0, 20)
    seed = [i, min(i, len(s2) - 1)]
    return {"op": "gapped", "s1": s1, "s2": s2, "M": M, "gap": rng.choice([[-4], [-5, -2]]), "band": [0, 0],
            "local": False, "seed": seed, "X": rng.choice([8, 20, 1000]), "dir": rng.choice(["both", "downstream"]),
            "maxn": 1, "mts": rng.choice([[], [5000], [30000], [10000000]]), "big": 1, "rep": ["u8", "u8"]}


def gen_events(item):
    from harness.tlabind.pool import progress

    rng = random.Random(item["seed"])
    events = []
    for k in range(item["count"]):
        c = _long_call(rng) if (item.get("long") and k % 10 == 0) else _rand_call(rng)
        if k < item.get("skip", 0):
            continue
        progress({"op": c["op"], "call": c, "k": k})
        ev = run_call(c)
        if len(ev["traces"]) > 150:
            continue
        events.append(ev)
    return {"events": events}


# --------------------------------------------------------------------------- classification
def classify(mm):
    """C09-banded-boundary-gap: semi-global align_banded, some pair scores below the gap
    (opening) penalty; the code reports exactly the score of the specification's banded
    programme (which reproduces the defect) and only honesty / upper bound / reaching fail.
    C09-banded-affine-sentinel-underflow: semi-global affine align_banded on an input of
    KB_C09_SentinelUnderflow; the reported score is about 2^31."""
    if mm.get("kind") != "event" or mm.get("op") != "banded":
        return None
    model = mm.get("model") or {}
    bad = set(mm.get("bad") or [])
    obs = mm.get("observed", {})
    if not bad or mm.get("call", {}).get("local"):
        return None
    sc = obs.get("scores") or []
    # the wrapped-around value wins every comparison: the score is about 2^31 and the
    # trace-back follows arbitrary directions (so the trace may also end inside the table)
    if (model.get("kb_underflow") and len(sc) == 1 and sc[0] > 10 ** 9
            and bad <= {"valid", "honest", "upper", "reach"}):
        return "C09-banded-affine-sentinel-underflow"
    if not bad <= {"honest", "upper", "reach"}:
        return None
    if not model.get("kb"):
        return None
    if sc != [model.get("score")]:
        return None
    if "upper" in bad and model.get("le"):
        return None
    if "honest" in bad and model.get("honest"):
        return None
    if "reach" in bad and model.get("le") and model.get("honest"):
        return None
    return "C09-banded-boundary-gap"


# --------------------------------------------------------------------------- TLC side
def validate(ctx, events, *, stage, selftest=False, workers=8, per_trace=40, timeout=2400, chunk=60000):
    """TLC judges the events (specs/C09/Trace.tla), at most `chunk` events per TLC run."""
    if len(events) > chunk:
        out, diags = [], []
        for off in range(0, len(events), chunk):
            o, d = validate(ctx, events[off:off + chunk], stage=stage, selftest=selftest, workers=workers,
                            per_trace=per_trace, timeout=timeout, chunk=chunk)
            out += [(ix + off, *rest) for ix, *rest in o]
            diags += [(ix + off, mt) for ix, mt in d]
        return out, diags
    from harness.tlabind import tlc as T
    from harness.tlabind.tlaval import parse_value, to_py

    if not events:
        return [], []
    traces = [events[i:i + per_trace] for i in range(0, len(events), per_trace)]
    d = T.scratch_dir("c09tr")
    tf = os.path.join(d, "traces.json")
    with open(tf, "w") as f:
        json.dump([[{k: e[k] for k in _KEEP} for e in tr] for tr in traces], f)
    res = ctx.tlc("Trace", "Trace.cfg", stage=stage + ("-selftest" if selftest else ""),
                  workers=workers, env={"TRACE_FILE": tf}, count=not selftest, timeout=timeout)
    expect = sum(len(t) + 1 for t in traces)
    if res.distinct != expect:
        raise RuntimeError(f"C09 {stage}: trace validation visited {res.distinct} states, expected {expect}")
    out = []
    for txt in T.printed_values(res.out, "MISMATCH"):
        _tag, tid, l, flags, allowed, model = to_py(parse_value(txt))
        out.append(((tid - 1) * per_trace + (l - 1), flags, allowed, model))
    diags = []
    for txt in T.printed_values(res.out, "DIAG"):
        _tag, tid, l, mt = to_py(parse_value(txt))
        diags.append(((tid - 1) * per_trace + (l - 1), mt))
    return out, diags


def _event_mismatch(ev, flags, allowed, model, stage):
    bad = [n for n, ok in zip(FLAGS, flags) if not ok]
    mm = {"stage": stage, "kind": "event", "op": ev["op"],
          "call": {k: ev[k] for k in ("s1", "s2", "M", "gap", "band", "local", "seed", "X", "dir", "maxn", "mts")},
          "rep": ev.get("rep"), "bad": bad,
          "expected": {"oc": allowed},
          "observed": {"oc": ev["oc"], "exc": ev["exc"], "scores": ev["scores"], "count": ev["count"],
                       "traces": ev["traces"][:6], "sonly": ev["sonly"]},
          "big": ev["big"]}
    if ev["op"] == "banded" and model:
        mm["model"] = {"kb": model[0], "score": model[1], "le": model[2], "honest": model[3],
                       "kb_underflow": model[4]}
    return mm


_RE_STATE = re.compile(
    r'/\\ inp = \[ ?op \|-> "(\w+)", s1 \|-> (.*?), s2 \|-> (.*?), mat \|-> (.*?), gap \|-> (.*?), band \|-> (.*?), '
    r'local \|-> (TRUE|FALSE), seed \|-> (.*?), X \|-> (-?\d+), dir \|-> "(\w+)" ?\] '
    r'/\\ phase = "done" '
    r'/\\ out = \[ ?oc \|-> "(\w+)", score \|-> (-?\d+), opt \|-> (-?\d+), must \|-> (TRUE|FALSE), kb \|-> (TRUE|FALSE), '
    r'ntr \|-> (\d+), le \|-> (TRUE|FALSE), eq \|-> (TRUE|FALSE), valid \|-> (TRUE|FALSE), honest \|-> (TRUE|FALSE) ?\]')


def parse_dump_fast(path):
    with open(path) as f:
        text = f.read()
    blocks = text.split("\nState ")
    out = []
    sq = base._seq
    for b in blocks:
        if '"done"' not in b:
            continue
        b = " ".join(b.split())
        m = _RE_STATE.search(b)
        if not m:
            raise RuntimeError(f"unparsable dump state: {b[:400]}")
        g = m.groups()
        t = lambda x: x == "TRUE"  # noqa: E731
        out.append({"op": g[0], "s1": sq(g[1]), "s2": sq(g[2]), "M": sq(g[3]), "gap": sq(g[4]), "band": sq(g[5]),
                    "local": t(g[6]), "seed": sq(g[7]), "X": int(g[8]), "dir": g[9],
                    "model": {"oc": g[10], "score": int(g[11]), "opt": int(g[12]), "must": t(g[13]), "kb": t(g[14]),
                              "ntr": int(g[15]), "le": t(g[16]), "eq": t(g[17]), "valid": t(g[18]),
                              "honest": t(g[19])}})
    return out, blocks


def run(ctx):
    from harness.tlabind import helpers, tlc
    from harness.tlabind.core import Vacuity
    from harness.tlabind.tlaval import parse_dump, to_py

    quick = ctx.quick
    ctx.assumptions += [
        "Dom_Banded: both sequences non-empty (no position can be paired otherwise)",
        "Dom_Gap: penalties <= 0 (align_local_gapped: < 0, as documented); other values, max_number < 1, bands without overlap, seeds outside the sequences, negative thresholds, unknown directions are the outcome Rejected",
        "a MemoryError is an allowed (never required) outcome only when max_table_size is given and smaller than 4*(n+1)*(m+1)",
        "'reaches the optimum' for seeded calls: equals the best local alignment through the seed in the requested direction when threshold >= (n+m+1)*max|score| (Dom_NonBinding)",
        "scores within -5..5, penalties within -6..0: int32 overflow is outside the model",
        "exhaustive model: 2 letters, length 1..3; larger inputs only through recorded calls",
        "trusted: TLC, the dump parser (cross-checked against the general TLA+ value parser), numpy, the projection of Alignment objects",
    ]
    ctx.cov["rule"] = ("non-trivial = the restriction matters or the result has structure: banded with a band that "
                       "does not cover the table or a result containing a gap; seeded call whose result extends "
                       "beyond the seed or whose threshold stops the extension before the sequence end")
    # ---- S1 ----------------------------------------------------------------------------
    cfg = "MC.cfg" if quick else "MC_thorough.cfg"
    d = tlc.scratch_dir("c09dump")
    prefix = os.path.join(d, "states")
    res = ctx.tlc("Heuristics", cfg, stage="S1", dump=prefix, workers=12, timeout=9000)
    path = prefix + ".dump" if os.path.exists(prefix + ".dump") else prefix
    sts, blocks = parse_dump_fast(path)
    if 2 * len(sts) != res.distinct:
        raise RuntimeError(f"dump has {len(sts)} result states, TLC reported {res.distinct} states")
    sp = os.path.join(d, "sample.dump")
    with open(sp, "w") as f:
        f.write("\n".join("State " + b for b in blocks[1:300]))
    fast = {json.dumps([s[k] for k in ("op", "s1", "s2", "M", "gap", "band", "local", "seed", "X", "dir")]): s
            for s in sts}
    for st in parse_dump(sp):
        g = {kk: to_py(v) for kk, v in st.items()}
        if g["phase"] != "done":
            continue
        i = g["inp"]
        key = json.dumps([i["op"], i["s1"], i["s2"], i["mat"], i["gap"], i["band"], i["local"], i["seed"], i["X"], i["dir"]])
        f_ = fast.get(key)
        if f_ is None or f_["model"]["score"] != g["out"]["score"] or f_["model"]["honest"] != g["out"]["honest"]:
            raise RuntimeError("fast dump parser disagrees with the general parser")
    ctx.exhaustive = True
    # TLC writes the dump in a worker-dependent order: make the order canonical (determinism)
    sts.sort(key=lambda s: json.dumps([s[k] for k in ("op", "s1", "s2", "M", "gap", "band", "local", "seed", "X", "dir")]))
    by_op = base._count(s["op"] for s in sts)
    banded = [s for s in sts if s["op"] == "banded"]
    sit = {
        "ops": by_op,
        "banded_rejected": sum(1 for s in banded if s["model"]["oc"] == "Rejected"),
        "banded_full_must": sum(1 for s in banded if s["model"]["must"]),
        "banded_below_opt": sum(1 for s in banded if s["model"]["oc"] == "ok" and s["model"]["score"] < s["model"]["opt"]),
        "banded_swapped": sum(1 for s in banded if len(s["s2"]) < len(s["s1"])),
        "banded_reversed_band": sum(1 for s in banded if s["band"][0] > s["band"][1]),
        "kb_defect_in_model": sum(1 for s in banded if s["model"]["kb"] and not s["model"]["honest"]),
        "kb_above_opt_in_model": sum(1 for s in banded if s["model"]["kb"] and not s["model"]["le"]),
        "ungapped_binding": sum(1 for s in sts if s["op"] == "ungapped" and not s["model"]["must"]
                                and s["model"]["score"] < s["model"]["opt"]),
        "gapped": by_op.get("gapped", 0),
    }
    ctx.cov["s1_situations"] = sit
    if (set(by_op) != {"banded", "ungapped", "gapped"}
            or min(sit["banded_rejected"], sit["banded_full_must"], sit["banded_below_opt"], sit["banded_swapped"],
                   sit["banded_reversed_band"], sit["ungapped_binding"]) == 0):
        raise Vacuity(f"bounded domain misses a situation: {sit}")
    if ctx.findings.get("C09-banded-boundary-gap", {}).get("status") == "known" and sit["kb_defect_in_model"] == 0:
        raise Vacuity("the known-bad predicate is never exercised by the model")
    # ---- S2 ----------------------------------------------------------------------------
    calls = []
    order = list(range(len(sts)))
    ctx.rng.shuffle(order)
    for pos, si in enumerate(order):
        s = sts[si]
        rep = list(REPS[pos % len(REPS)] if pos % 3 else REPS[0])
        c0 = {k: s[k] for k in ("op", "s1", "s2", "M", "gap", "band", "local", "seed", "X", "dir")}
        c0.update(maxn=1, mts=[], big=0, rep=rep, model=s["model"])
        if s["op"] == "banded":
            calls.append(dict(c0, maxn=1000))
            if pos % (6 if quick else 3) == 0:
                calls.append(dict(c0, maxn=1 + pos % 2))
        elif s["op"] == "ungapped":
            calls.append(c0)
        else:
            variants = ((0, 1), (2, 3), (1000, 1000))
            for x, mx in ((variants[pos % 3],) if quick else variants):
                calls.append(dict(c0, X=x, maxn=mx))
    per = 200
    items = [{"calls": calls[i:i + per]} for i in range(0, len(calls), per)]
    results = base._run_pool(ctx, "harness.drivers.c09:exec_calls", items, "S2")
    events = [e for r in results if r and "events" in r for e in r["events"]]
    ctx.log(f"S2: {len(events)} calls executed")
    mms, diags = validate(ctx, events, stage="S2", workers=16, chunk=100000)
    for ix, flags, allowed, model in mms:
        ctx.mismatch(_event_mismatch(events[ix], flags, allowed, model, "S2"))
    flagged = {ix for ix, *_ in mms}
    # diagnostics against the exhaustive model (never a verdict)
    dscore = sum(1 for k, e in enumerate(events) if e["op"] == "banded" and e["oc"] == "ok" and k not in flagged
                 and e["scores"] != [e["model"]["score"]])
    doc = sum(1 for e in events if e["op"] == "banded" and e["oc"] != e["model"]["oc"])
    if dscore or doc or diags:
        ctx.note(f"S2 diagnostics (no verdict): banded score differs from the model's in {dscore} calls, banded "
                 f"outcome differs in {doc}, ungapped trace differs from the loop's exact trace in {len(diags)}")
    ctx.cov["s2_diag"] = {"banded_score_vs_model": dscore, "banded_outcome_vs_model": doc,
                          "ungapped_exact_trace": len(diags)}
    ctx.traces_validated += len(events)
    ctx.evaluations += len(events)
    ctx.cov["s2_calls"] = base._count(e["op"] for e in events)
    ctx.cov["s2_outcomes"] = base._count(e["op"] + ":" + e["oc"] for e in events)
    ctx.cov["s2_alignments_validated"] = sum(len(e["traces"]) for e in events)
    ctx.cov["s2_dtypes"] = base._count("/".join(e["rep"]) for e in events)
    ctx.nontrivial += sum(1 for e in events if _nontrivial(e))
    for e in events[:3]:
        ctx.sample({"s2_event": {k: e[k] for k in _KEEP}})
    # ---- S3 ----------------------------------------------------------------------------
    nitems, count = (16, 50) if quick else (64, 220)
    sitems = [{"seed": ctx.rng.randrange(1 << 30), "count": count, "long": (k % 4 == 0)} for k in range(nitems)]
    sres = base._run_pool(ctx, "harness.drivers.c09:gen_events", sitems, "S3")
    sev = [e for r in sres if r and "events" in r for e in r["events"]]
    mms, diags = validate(ctx, sev, stage="S3", per_trace=20)
    for ix, flags, allowed, model in mms:
        ctx.mismatch(_event_mismatch(sev[ix], flags, allowed, model, "S3"))
    ctx.traces_validated += len(sev)
    ctx.evaluations += len(sev)
    ctx.cov["s3_events"] = base._count(e["op"] for e in sev)
    ctx.cov["s3_outcomes"] = base._count(e["op"] + ":" + e["oc"] + (":" + e["exc"] if e["exc"] else "") for e in sev)
    ctx.cov["s3_max_len"] = max([max(len(e["s1"]), len(e["s2"])) for e in sev] or [0])
    ctx.cov["s3_ungapped_exact_trace_diag"] = len(diags)
    ctx.nontrivial += sum(1 for e in sev if _nontrivial(e))
    need = {"banded:Rejected", "ungapped:Rejected", "gapped:Rejected", "banded:ok", "ungapped:ok", "gapped:ok"}
    have = {e["op"] + ":" + e["oc"] for e in sev}
    if not need <= have:
        base.vacuity(ctx, f"S3 misses outcomes: {sorted(need - have)}")
    if not any(e["exc"] == "MemoryError" for e in sev) or not any(e["big"] == 1 and e["oc"] == "ok" for e in sev):
        base.vacuity(ctx, "S3 never exercised max_table_size (no MemoryError, or no long sequence accepted)")
    for e in sev[:2]:
        ctx.sample({"s3_event": {k: (e[k] if k not in ("s1", "s2", "traces") else e[k][:20]) for k in _KEEP}})
    # ---- binding self-test -------------------------------------------------------------
    bad = []
    pick = {"banded": 0, "ungapped": 0, "gapped": 0}
    for e in sev:
        if e["oc"] != "ok" or e["big"] or not e["traces"] or len(e["traces"][0]) < 2 or pick[e["op"]] >= 4:
            continue
        if e["op"] == "banded" and not e["local"]:
            continue                       # keep the known-bad inputs out of the self-test
        k = pick[e["op"]]
        pick[e["op"]] += 1
        e = json.loads(json.dumps(e))
        if k == 0:
            e["scores"] = [e["scores"][0] + 1]
        elif k == 1:
            e["traces"][0] = e["traces"][0][1:] if e["op"] != "ungapped" else e["traces"][0] + [[99, 99]]
            if e["op"] == "gapped" and e["seed"] in e["traces"][0]:
                e["traces"][0] = [r for r in e["traces"][0] if r != e["seed"]]
        elif k == 2:
            e["count"] = e["maxn"] + 1 if e["op"] != "ungapped" else 2
        else:
            if e["op"] == "banded":
                e["band"] = [99, 99] if e["traces"][0] else e["band"]
                e["oc"] = "ok"
            else:
                e["sonly"] = [e["scores"][0] - 1]
        bad.append(e)
    if len(bad) < 8:
        base.vacuity(ctx, "binding self-test: not enough recorded events to corrupt")
        return
    rej, _ = validate(ctx, bad, stage="S3", selftest=True, per_trace=1, workers=2)
    hit = {ix for ix, *_ in rej}
    if len(hit) < len(bad):
        raise Vacuity(f"binding self-test: {len(bad)} corrupted events, only {len(hit)} rejected "
                      f"(accepted: {[bad[i]['op'] for i in range(len(bad)) if i not in hit]})")
    ctx.cov["selftest_corrupted_rejected"] = len(hit)


def _nontrivial(e):
    if e["oc"] != "ok" or not e["traces"]:
        return False
    n, m = len(e["s1"]), len(e["s2"])
    t = e["traces"][0]
    if e["op"] == "banded":
        lo, hi = min(e["band"]), max(e["band"])
        return lo > -(n - 1) or hi < m - 1 or any(a == -1 or b == -1 for a, b in t)
    if len(t) > 1:
        return True
    return False


# --------------------------------------------------------------------------- replay
def replay(record):
    from harness.tlabind import tlc as T

    call = record.get("call")
    if not call:
        return {"error": "record has no call", "record": record}
    c = dict(call, op=record["op"], rep=record.get("rep") or list(REPS[0]), big=record.get("big", 0))
    ev = run_call(c)
    d = T.scratch_dir("c09replay")
    tf = os.path.join(d, "t.json")
    with open(tf, "w") as f:
        json.dump([[{k: ev[k] for k in _KEEP}]], f)
    res = T.run_tlc(os.path.join(T.VERIF, "specs", "C09"), "Trace", "Trace.cfg", workers=1,
                    env={"TRACE_FILE": tf}, timeout=900)
    T.require_ok(res, "C09 replay")
    mm = T.printed_values(res.out, "MISMATCH")
    return {"observed": {"oc": ev["oc"], "exc": ev["exc"], "scores": ev["scores"], "count": ev["count"],
                         "traces": ev["traces"][:6], "sonly": ev["sonly"]},
            "expected": record.get("expected"), "tlc": mm, "mismatch": bool(mm)}
