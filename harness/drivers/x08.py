"""X08 - ring, aromaticity and rotatable-bond perception equal their graph definitions.

Anchors: biotite.structure.rings.find_aromatic_rings, biotite.structure.bonds.find_rotatable_bonds,
BondList.remove_aromaticity / remove_bond_order, BondType.without_aromaticity
(BondList.remove_kekulization does not exist in this version of biotite).

S1   TLC checks specs/X08/MCPerception.tla: for every bounded labelled bond graph the laws of
     RingPerception hold (greedy minimum cycle basis is a basis of minimum total size; the
     networkx-shaped traversal is a cycle basis for several row orders; the three formulations of
     "rotatable" agree; type maps; relabelling by the generators of the symmetric group).
     MCImplMin.cfg asks whether the traversal always yields MINIMUM ring sizes - TLC refutes it
     (finding X08-rings-not-minimum at the level of the specified design).
     specs/X08/MCHist.tla: one live BondList as a state machine (add_bond, remove_bond,
     remove_aromaticity, remove_bond_order), dumped as a dot graph.
S2a  every (input, expected) state of MCPerception is executed against biotite under several
     row orders / orientations / construction paths: find_rotatable_bonds, find_aromatic_rings
     (AtomArray and AtomArrayStack), remove_aromaticity, remove_bond_order on copies,
     without_aromaticity; queries must not touch their argument.
S2b  every ring answer obtained in S2a / S2c is judged by TLC (Trace.tla: valid simple cycles of
     aromatic bonds, each once, independent, as many as the cyclomatic number, minimum sizes).
S2c  every transition of MCHist is replayed on one live BondList / AtomArray along covering paths;
     after every call both perceptions are asked and compared with the state's view.
S3   seeded sessions on larger molecules (random ring systems, a library of real molecules with
     random relabelling / row order) are recorded and re-computed by TLC; corrupted sessions must
     be rejected.
"""

from __future__ import annotations

import hashlib
import itertools
import json
import os
import random

PROPERTY = "X08"
KF_MIN = "X08-rings-not-minimum"

MANIFEST = {
    "technique": "TLA+ specification (RingPerception: cycle space algebra, minimum cycle basis, "
                 "networkx-shaped traversal, three formulations of rotatable bonds, bond type maps) "
                 "model-checked by TLC; every enumerated bond graph and every transition of a live "
                 "BondList state machine replayed against biotite; ring answers and recorded sessions "
                 "judged by TLC (trace validation)",
    "level_text": "TLC enumerates every labelled bond graph on <=3 atoms over all ten bond types, on 4 "
                  "atoms over the classes absent / SINGLE / other / aromatic, on 5 atoms over absent / "
                  "aromatic and absent / SINGLE (thorough: 4 atoms over five bond types, 5 atoms over "
                  "absent / SINGLE / aromatic) and "
                  "checks the laws of the specification on each; every such graph is run against "
                  "find_rotatable_bonds, find_aromatic_rings, remove_aromaticity, remove_bond_order "
                  "under four row orders; every ring answer is judged by TLC; all transitions of a live "
                  "4-atom BondList under add_bond / remove_bond / remove_aromaticity / remove_bond_order "
                  "are replayed with both perceptions asked after each call (quick: a seeded fifth of "
                  "them); recorded sessions on molecules of up to 24 atoms (real molecules incl. pyrene, "
                  "coronene, tyrosine; random ring systems; dense graphs on 5-7 atoms) are re-computed "
                  "by TLC.",
    "level_note": "Bounded model checking plus conformance, not proof. The ring answer is specified as a "
                  "relation (any minimum cycle basis of the aromatic bonds), so ring atoms are compared "
                  "as cycles, not as lists. The networkx-shaped traversal is a model of networkx 3.x "
                  "cycle_basis; it is used to predict where the answer is not minimum (known finding), "
                  "never as a verdict on its own. find_stacking_interactions (numeric) is out of scope.",
}

ALL_OPS = ("rings", "rot", "perm", "add", "remove", "strip_arom", "strip_order", "noarom", "nobonds")


# --------------------------------------------------------------------------- real side
def warmup():
    import biotite.structure  # noqa: F401


def _np():
    import numpy as np

    return np


def _struc():
    import biotite.structure as struc

    return struc


def pairs(n):
    """The pair numbering of the specification (MCPerception!PairSeq): lexicographic."""
    return list(itertools.combinations(range(n), 2))


def rows_of_tv(n, tv):
    return [[i, j, t] for (i, j), t in zip(pairs(n), tv) if t != -1]


def make_bl(n, rows, how):
    """Build a BondList from rows (orientation as given) through the constructor or add_bond."""
    np = _np()
    from biotite.structure import BondList

    if how == "add":
        bl = BondList(n)
        for i, j, t in rows:
            bl.add_bond(int(i), int(j), int(t))
        return bl
    if not rows:
        return BondList(n)
    dt = np.int64 if how == "array64" else np.uint32
    return BondList(n, np.array(rows, dtype=dt))


def arr_rows(bl):
    return [[int(a), int(b), int(c)] for a, b, c in bl.as_array().tolist()]


def tv_of_rows(n, rows):
    m = {}
    for i, j, t in rows:
        if not (0 <= i < j < n) or (i, j) in m:
            return None
        m[(i, j)] = t
    return [m.get(p, -1) for p in pairs(n)]


def call_rot(bl):
    """find_rotatable_bonds -> (outcome, atom count of the result, rows of the result)."""
    struc = _struc()
    try:
        r = struc.find_rotatable_bonds(bl)
    except Exception as e:  # noqa: BLE001
        return "Rejected:" + type(e).__name__, -1, []
    if not isinstance(r, struc.BondList):
        return "NotABondList", -1, []
    return "ok", int(r.get_atom_count()), arr_rows(r)


def call_rings(atoms):
    """find_aromatic_rings -> (outcome, list of rings as lists of ints)."""
    np = _np()
    struc = _struc()
    try:
        rs = struc.find_aromatic_rings(atoms)
    except Exception as e:  # noqa: BLE001
        return "Rejected", [type(e).__name__]
    if not isinstance(rs, list):
        return "NotAList", []
    out = []
    for r in rs:
        if not isinstance(r, np.ndarray) or r.ndim != 1 or not np.issubdtype(r.dtype, np.integer):
            return "NotIndexArrays", []
        out.append([int(x) for x in r.tolist()])
    return "ok", out


def mk_atoms(n, bl, stack=0):
    struc = _struc()
    a = struc.AtomArrayStack(stack, n) if stack else struc.AtomArray(n)
    a.bonds = bl
    return a


def ring_bonds(rings):
    s = set()
    for r in rings:
        for k in range(len(r)):
            a, b = r[k], r[(k + 1) % len(r)]
            s.add((min(a, b), max(a, b)))
    return sorted(map(list, s))


def ring_atoms(rings):
    return sorted({a for r in rings for a in r})


def len_hist(rings, n):
    h = [0] * n
    for r in rings:
        if 1 <= len(r) <= n:
            h[len(r) - 1] += 1
    return h


def _seed_of(seed, n, tv):
    h = hashlib.sha256(json.dumps([seed, n, tv]).encode()).digest()
    return int.from_bytes(h[:8], "big")


def orders_for(n, rows, seed):
    """The row orders / orientations / construction paths one graph is run under."""
    rng = random.Random(seed)
    out = [("array", [list(r) for r in rows]),
           ("add", [[r[1], r[0], r[2]] for r in reversed(rows)])]
    for how in ("array64", "add"):
        rs = [list(r) for r in rows]
        rng.shuffle(rs)
        rs = [[r[1], r[0], r[2]] if rng.random() < 0.5 else r for r in rs]
        out.append((how, rs))
    return out


# --------------------------------------------------------------------------- S2a child
def _mm(kind, op, bad, n, rows, how, expected, observed, **kw):
    d = {"kind": kind, "op": op, "bad": bad, "n": n, "rows": rows, "how": how,
         "expected": expected, "observed": observed}
    d.update(kw)
    return d


def check_graph(n, tv, exp, seed, stack_every=True):
    """Run one enumerated graph against biotite. Returns (mismatches, events, calls)."""
    mism, events, calls = [], [], 0
    rows0 = rows_of_tv(n, tv)
    exp_rot = sorted(map(list, exp["rot"]))
    exp_rb = sorted(map(list, exp["rbonds"]))
    exp_ra = sorted(exp["ratoms"])
    for k, (how, rows) in enumerate(orders_for(n, rows0, seed)):
        bl = make_bl(n, rows, how)
        before = arr_rows(bl)
        if tv_of_rows(n, before) != tv:
            mism.append(_mm("case", "construct", ["bonds"], n, rows, how, tv, before))
            continue
        # ---- find_rotatable_bonds
        oc, m, rr = call_rot(bl)
        calls += 1
        obs = {"oc": oc, "n": m, "pairs": sorted([r[0], r[1]] for r in rr),
               "types": sorted({r[2] for r in rr}), "dups": len(rr) != len({(r[0], r[1]) for r in rr})}
        want = {"oc": "ok", "n": n, "pairs": exp_rot, "types": [1] if exp_rot else [], "dups": False}
        if obs != want:
            mism.append(_mm("case", "rot", [f for f in want if want[f] != obs[f]], n, rows, how, want, obs))
        if arr_rows(bl) != before:
            mism.append(_mm("case", "rot", ["untouched"], n, rows, how, before, arr_rows(bl)))
        # ---- find_aromatic_rings
        atoms = mk_atoms(n, bl, stack=(2 if (k == 1 and stack_every) else 0))
        oc, rings = call_rings(atoms)
        calls += 1
        if oc != "ok":
            mism.append(_mm("case", "rings", ["oc"], n, rows, how, "ok", oc, detail=rings))
        else:
            obs = {"count": len(rings), "rbonds": ring_bonds(rings), "ratoms": ring_atoms(rings)}
            want = {"count": exp["mu"], "rbonds": exp_rb, "ratoms": exp_ra}
            if obs != want:
                mism.append(_mm("case", "rings", [f for f in want if want[f] != obs[f]], n, rows, how,
                                want, obs, rings=rings))
            if exp["mu"] > 0 or rings:
                # the ring sizes are judged by TLC (S2b) together with validity / independence;
                # `must` marks the answers whose sizes differ from the model's minimum sizes
                events.append({"n": n, "rows": before, "out": rings,
                               "must": len_hist(rings, n) != exp["hist"]})
        if arr_rows(bl) != before or atoms.bonds is not bl:
            mism.append(_mm("case", "rings", ["untouched"], n, rows, how, before, arr_rows(bl)))
        if k > 1:
            continue
        # ---- type maps on copies (two of the orders)
        c = bl.copy()
        c.remove_aromaticity()
        calls += 1
        after = arr_rows(c)
        if tv_of_rows(n, after) != exp["na"] or [r[:2] for r in after] != [r[:2] for r in before]:
            mism.append(_mm("case", "strip_arom", ["bonds"], n, rows, how, exp["na"], after))
        if arr_rows(bl) != before:
            mism.append(_mm("case", "strip_arom", ["original"], n, rows, how, before, arr_rows(bl)))
            bl = make_bl(n, rows, how)
        oc, m, rr = call_rot(c)
        calls += 1
        got = sorted([r[0], r[1]] for r in rr)
        if oc != "ok" or m != n or got != sorted(map(list, exp["rotNA"])):
            mism.append(_mm("case", "rot_after_strip_arom", ["pairs"], n, rows, how,
                            sorted(map(list, exp["rotNA"])), {"oc": oc, "n": m, "pairs": got}))
        oc, rings = call_rings(mk_atoms(n, c))
        calls += 1
        if oc != "ok" or rings:
            # InvTypeMaps: nothing aromatic is left, so the cyclomatic number of the aromatic part is 0
            mism.append(_mm("case", "rings_after_strip_arom", ["count"], n, rows, how, [], rings))
        c2 = bl.copy()
        c2.remove_bond_order()
        calls += 1
        after = arr_rows(c2)
        if tv_of_rows(n, after) != exp["no"] or [r[:2] for r in after] != [r[:2] for r in before]:
            mism.append(_mm("case", "strip_order", ["bonds"], n, rows, how, exp["no"], after))
        if arr_rows(bl) != before:
            mism.append(_mm("case", "strip_order", ["original"], n, rows, how, before, arr_rows(bl)))
    return mism, events, calls


def exec_states(item):
    """Parse a byte range of the TLC dump and run every input state."""
    from harness.tlabind.pool import progress
    from harness.tlabind.tlaval import parse_state, to_py

    with open(item["path"], "rb") as fh:
        fh.seek(item["start"])
        text = fh.read(item["end"] - item["start"]).decode()
    blocks, cur = [], []
    for line in text.splitlines(keepends=True):
        if line.startswith("State ") and line.rstrip().endswith(":"):
            if cur:
                blocks.append("".join(cur))
            cur = []
        else:
            cur.append(line)
    if cur:
        blocks.append("".join(cur))
    mism, events, seen_ev = [], [], set()
    cnt = {"states": 0, "calls": 0, "nontrivial": 0, "fam": {}, "mu2": 0, "rot": 0, "maps": 0, "roots": [], "enum": []}
    for b in blocks:
        if not b.strip():
            continue
        st = {k: to_py(v) for k, v in parse_state(b.strip()).items()}
        if st["kind"] == "root":
            cnt["roots"].append(st["exp"])
            continue
        if st["kind"] == "chunk":
            continue
        n, tv, exp = st["n"], st["tv"], st["exp"]
        progress({"n": n, "tv": tv})
        mm, ev, calls = check_graph(n, tv, exp, _seed_of(item["seed"], n, tv))
        mism += mm[:20]
        for e in ev:
            key = json.dumps([e["n"], e["rows"], e["out"]])
            if key not in seen_ev:
                seen_ev.add(key)
                events.append(e)
        cnt["states"] += 1
        if st["kind"] == "full" and n == 2 and tv[0] != -1:
            cnt["enum"].append([tv[0], exp["na"][0]])
        cnt["calls"] += calls
        cnt["fam"][st["kind"]] = cnt["fam"].get(st["kind"], 0) + 1
        cnt["mu2"] += exp["mu"] >= 2
        cnt["rot"] += bool(exp["rot"])
        cnt["maps"] += exp["na"] != tv
        cnt["nontrivial"] += bool(exp["mu"] >= 1 or exp["rot"] or exp["na"] != tv)
    return {"mismatch": mism[:200], "events": events, "cnt": cnt}


def exec_enum(item):
    """BondType.without_aromaticity for every member (expected values from the model's dump)."""
    from biotite.structure import BondType

    mism = []
    for t, want in item["cases"]:
        try:
            r = BondType(t).without_aromaticity()
            obs = int(r) if isinstance(r, BondType) else repr(r)
        except Exception as e:  # noqa: BLE001
            obs = "Rejected:" + type(e).__name__
        if obs != want:
            mism.append({"kind": "case", "op": "noarom", "bad": ["out"], "t": t, "expected": want, "observed": obs})
    return {"mismatch": mism, "calls": len(item["cases"])}


# --------------------------------------------------------------------------- S2c child
_GRAPH = None


def _graph():
    global _GRAPH
    if _GRAPH is None:
        with open(os.environ["X08_GRAPH"]) as f:
            _GRAPH = json.load(f)
    return _GRAPH


def apply_call(bl, c):
    op = c[0]
    if op == "add":
        bl.add_bond(int(c[1]), int(c[2]), int(c[3]))
    elif op == "remove":
        bl.remove_bond(int(c[1]), int(c[2]))
    elif op == "strip_arom":
        bl.remove_aromaticity()
    elif op == "strip_order":
        bl.remove_bond_order()
    else:
        raise ValueError(op)


def observe_live(bl, atoms, n, flip):
    """Both perceptions on the live object; the order of the two calls alternates."""
    before = arr_rows(bl)
    res = {}
    for q in (("rot", "rings") if flip else ("rings", "rot")):
        if q == "rot":
            oc, m, rr = call_rot(bl)
            res["rot"] = {"oc": oc, "n": m, "rows": sorted(rr)}
        else:
            oc, rings = call_rings(atoms)
            res["rings"] = {"oc": oc, "out": rings}
    res["untouched"] = arr_rows(bl) == before and atoms.bonds is bl
    res["rows"] = before
    return res


def exec_path(item):
    """Replay a batch of paths of the MCHist state graph, each on a fresh live BondList."""
    from harness.tlabind.pool import progress
    from biotite.structure import BondList

    g = _graph()
    n = g["N"]
    states, labels = g["states"], g["labels"]
    mism, events, steps, calls, seen = [], [], 0, 0, set()
    for pk, path in enumerate(item["paths"]):
        bl = BondList(n)
        atoms = mk_atoms(n, bl, stack=(1 if path.get("stack") else 0))
        for k, (li, dst) in enumerate(path["steps"]):
            c = labels[li]
            exp = states[dst]
            progress({"call": c, "step": k, "path": pk})
            try:
                apply_call(bl, c)
                oc = "ok"
            except Exception as e:  # noqa: BLE001
                oc = "Rejected:" + type(e).__name__
            steps += 1
            obs = observe_live(bl, atoms, n, flip=(k % 2 == 1))
            calls += 3
            rings = obs["rings"]["out"] if obs["rings"]["oc"] == "ok" else []
            got = {"oc": oc, "B": sorted(obs["rows"]),
                   "rot": obs["rot"]["rows"] if obs["rot"]["oc"] == "ok" and obs["rot"]["n"] == n else obs["rot"],
                   "mu": len(rings) if obs["rings"]["oc"] == "ok" else obs["rings"],
                   "hist": len_hist(rings, n), "rbonds": ring_bonds(rings), "untouched": obs["untouched"]}
            want = {"oc": "ok", "B": exp["B"], "rot": exp["rot"], "mu": exp["mu"], "hist": exp["hist"],
                    "rbonds": exp["rbonds"], "untouched": True}
            if got != want:
                mism.append({"kind": "step", "op": c[0], "bad": [f for f in want if want[f] != got[f]], "call": c,
                             "expected": want, "observed": got, "stack": bool(path.get("stack")),
                             "path": [labels[x] for x, _ in path["steps"][:k + 1]]})
                if got["B"] != want["B"]:
                    break  # the live object has diverged: the rest of the path proves nothing
            if rings:
                # validity of the answer does not depend on the row order: one judgement per
                # (bond set, answer)
                key = json.dumps([sorted(obs["rows"]), rings])
                if key not in seen:
                    seen.add(key)
                    events.append({"n": n, "rows": obs["rows"], "out": rings, "must": got["hist"] != want["hist"]})
    return {"mismatch": mism[:20], "events": events, "steps": steps, "calls": calls}


# --------------------------------------------------------------------------- S3 child
LIBRARY = {
    "tyrosine_H": (24, [[0,1,1],[1,2,1],[2,3,1],[3,4,5],[4,5,6],[5,6,5],[6,7,1],[6,8,6],[8,9,5],[1,10,1],[10,11,1],[10,12,2],[3,9,6],[0,13,1],[0,14,1],[1,15,1],[2,16,1],[2,17,1],[4,18,1],[5,19,1],[7,20,1],[8,21,1],[9,22,1],[11,23,1]]),
    "tryptophan": (15, [[0,1,1],[1,2,1],[2,3,1],[3,4,6],[4,5,5],[5,6,5],[6,7,6],[7,8,5],[8,9,6],[9,10,5],[10,11,6],[1,12,1],[12,13,1],[12,14,2],[3,11,5],[6,11,5]]),
    "histidine": (11, [[0,1,1],[1,2,1],[2,3,1],[3,4,6],[4,5,5],[5,6,5],[6,7,6],[1,8,1],[8,9,1],[8,10,2],[3,7,5]]),
    "naphthalene": (10, [[0,1,6],[1,2,5],[2,3,6],[3,4,5],[4,5,6],[5,6,5],[6,7,6],[7,8,5],[8,9,6],[0,9,5],[3,8,5]]),
    "acenaphthylene": (12, [[0,1,6],[1,2,5],[2,3,6],[3,4,5],[4,5,6],[5,6,5],[6,7,1],[7,8,2],[8,9,1],[9,10,6],[9,11,5],[0,10,5],[2,11,5],[6,11,6]]),
    "pyrene": (16, [[0,1,6],[1,2,5],[2,3,6],[3,4,5],[4,5,6],[5,6,5],[6,7,6],[7,8,5],[8,9,6],[9,10,5],[10,11,6],[11,12,5],[12,13,6],[12,14,5],[14,15,6],[0,13,5],[2,14,5],[5,15,5],[9,15,5]]),
    "coronene": (24, [[0,1,6],[1,2,5],[2,3,6],[3,4,5],[4,5,6],[5,6,5],[6,7,6],[7,8,5],[8,9,6],[9,10,5],[10,11,6],[11,12,5],[12,13,6],[13,14,5],[14,15,6],[15,16,5],[16,17,6],[17,18,5],[18,19,6],[19,20,5],[20,21,6],[21,22,5],[22,23,6],[0,17,5],[2,19,5],[5,20,5],[8,21,5],[11,22,5],[14,23,5],[18,23,5]]),
    "biphenyl": (12, [[0,1,5],[1,2,6],[2,3,5],[3,4,6],[4,5,5],[5,6,1],[6,7,6],[7,8,5],[8,9,6],[9,10,5],[10,11,6],[0,5,6],[6,11,5]]),
    "purine": (9, [[0,1,6],[1,2,5],[2,3,6],[3,4,5],[4,5,5],[5,6,6],[6,7,5],[7,8,6],[0,8,5],[3,7,5]]),
    "azulene": (10, [[0,1,6],[1,2,5],[2,3,6],[3,4,5],[4,5,6],[5,6,5],[6,7,6],[7,8,5],[8,9,6],[0,9,5],[3,7,1]]),
    "cubane": (8, [[0,1,1],[1,2,1],[2,3,1],[3,4,1],[4,5,1],[5,6,1],[6,7,1],[0,3,1],[0,5,1],[1,6,1],[2,7,1],[4,7,1]]),
    "glucose": (12, [[0,1,1],[1,2,1],[2,3,1],[3,4,1],[4,5,1],[4,6,1],[6,7,1],[6,8,1],[8,9,1],[8,10,1],[10,11,1],[2,10,1]]),
    "ibuprofen": (15, [[0,1,1],[1,2,1],[1,3,1],[3,4,1],[4,5,5],[5,6,6],[6,7,5],[7,8,6],[8,9,5],[7,10,1],[10,11,1],[10,12,1],[12,13,1],[12,14,2],[4,9,6]]),
    "spiro": (10, [[0,1,1],[1,2,1],[2,3,1],[3,4,1],[4,5,1],[3,6,1],[6,7,1],[7,8,1],[8,9,1],[0,5,1],[3,9,1]]),
    "norbornane": (7, [[0,1,1],[1,2,1],[2,3,1],[3,4,1],[4,5,1],[5,6,1],[0,5,1],[2,6,1]]),
    "butadiene": (4, [[0,1,2],[1,2,1],[2,3,2]]),
    "pentyne": (5, [[0,1,1],[1,2,3],[2,3,1],[3,4,1]]),
}
AROM = (5, 6, 7, 9)


def _rand_ring_system(rng):
    """Random molecule: fused / spiro / bridged rings plus chains; returns (n, rows)."""
    edges = {}
    n = 0

    def add(a, b, t):
        if a != b:
            edges.setdefault((min(a, b), max(a, b)), t)

    nrings = rng.choice([0, 1, 1, 2, 2, 3, 4])
    ring_edges = []
    for _ in range(nrings):
        size = rng.choice([3, 4, 5, 5, 6, 6, 6, 7])
        arom = rng.random() < 0.7
        mode = rng.choice(["fuse", "fuse", "spiro", "apart", "peri"]) if ring_edges else "apart"
        if mode == "fuse":
            a, b = rng.choice(ring_edges)
            atoms = [a] + list(range(n, n + size - 2)) + [b]
            n += size - 2
        elif mode == "peri" and len(ring_edges) >= 2:
            # share a path of two bonds with the existing system where possible
            a, b = rng.choice(ring_edges)
            nb = [y if x == b else x for (x, y) in edges if (x == b or y == b) and {x, y} != {a, b}]
            c = rng.choice(nb) if nb else None
            if c is None or c == a:
                atoms = [a] + list(range(n, n + size - 2)) + [b]
                n += size - 2
            else:
                k = max(1, size - 3)
                atoms = [a, b, c] + list(range(n, n + k))
                n += k
        elif mode == "spiro":
            a = rng.choice(ring_edges)[0]
            atoms = [a] + list(range(n, n + size - 1))
            n += size - 1
        else:
            atoms = list(range(n, n + size))
            n += size
            if ring_edges:
                add(rng.choice(ring_edges)[0], atoms[0], rng.choice([1, 1, 1, 2, 5]))
        for k in range(len(atoms)):
            a, b = atoms[k], atoms[(k + 1) % len(atoms)]
            t = rng.choice(AROM) if arom else rng.choice([1, 1, 1, 2, 0, 8])
            add(a, b, t)
            ring_edges.append((a, b))
    # chains / substituents
    for _ in range(rng.randint(0, 5)):
        if n == 0:
            n = 1
        a = rng.randrange(n)
        length = rng.randint(1, 3)
        for _k in range(length):
            add(a, n, rng.choice([1, 1, 1, 1, 2, 3, 4, 0, 8, 5, 9]))
            a = n
            n += 1
    # an occasional extra closure
    if n >= 4 and rng.random() < 0.3:
        a, b = rng.sample(range(n), 2)
        add(a, b, rng.choice([1, 9, 5, 6, 2]))
    n += rng.choice([0, 0, 1])  # an isolated atom
    rows = [[a, b, t] for (a, b), t in edges.items()]
    return max(n, 1), rows


def _cyclomatic(n, rows):
    parent = list(range(n))

    def find(x):
        while parent[x] != x:
            parent[x] = parent[parent[x]]
            x = parent[x]
        return x

    mu = 0
    for a, b, _t in rows:
        ra, rb = find(a), find(b)
        if ra == rb:
            mu += 1
        else:
            parent[ra] = rb
    return mu


def relabel_rows(rows, pi):
    return [[min(pi[a], pi[b]), max(pi[a], pi[b]), t] for a, b, t in rows]


def gen_session(item):
    """One recorded session on a live BondList / AtomArray (see specs/X08/Trace.tla)."""
    from harness.tlabind.pool import progress
    from biotite.structure import BondType

    rng = random.Random(item["seed"])
    maxmu = item.get("maxmu", 7)
    if rng.random() < item.get("plib", 0.4):
        name = rng.choice(sorted(LIBRARY))
        n, rows = LIBRARY[name]
        rows = [list(r) for r in rows]
    elif rng.random() < item.get("pdense", 0.25):
        # a dense graph on 5..7 atoms (beyond the exhaustive bound of the model): every pair is
        # bonded with probability 1/2, mostly aromatic types
        name = "dense"
        for _ in range(50):
            n = rng.randint(5, 7)
            rows = [[a, b, rng.choice(AROM + AROM + (1, 2))] for a, b in pairs(n) if rng.random() < 0.5]
            if _cyclomatic(n, rows) <= maxmu:
                break
        else:
            n, rows = 3, [[0, 1, 5], [1, 2, 6], [0, 2, 9]]
    else:
        name = "random"
        for _ in range(50):
            n, rows = _rand_ring_system(rng)
            if n <= item.get("maxn", 18) and _cyclomatic(n, rows) <= maxmu:
                break
        else:
            n, rows = 3, [[0, 1, 5], [1, 2, 6], [0, 2, 9]]
    pi = list(range(n))
    rng.shuffle(pi)
    rows = relabel_rows(rows, pi)
    rng.shuffle(rows)
    how = rng.choice(["array", "add", "array64"])
    given = [[r[1], r[0], r[2]] if rng.random() < 0.5 else list(r) for r in rows]
    bl = make_bl(n, given, how)
    stack = rng.choice([0, 0, 1, 3])
    atoms = mk_atoms(n, bl, stack=stack)
    events = [{"op": "load", "n": n, "rows": arr_rows(bl)}]
    ops = ["rings", "rot"] + [rng.choice(
        ["rings", "rings", "rot", "rot", "perm", "perm", "add", "add", "remove", "strip_arom", "noarom", "nobonds"])
        for _ in range(item["length"] - 2)]
    if rng.random() < 0.35:
        ops += ["strip_order", "rot", "rings"]
    for op in ops:
        cur = arr_rows(bl)
        progress({"op": op, "n": n, "rows": cur, "name": name})
        if op == "rings":
            oc, out = call_rings(atoms)
            events.append({"op": op, "rows": cur, "after": arr_rows(bl), "oc": oc if atoms.bonds is bl else "rebound",
                           "out": out})
        elif op == "rot":
            oc, m, out = call_rot(bl)
            events.append({"op": op, "rows": cur, "after": arr_rows(bl), "oc": oc, "out": out, "m": m})
        elif op == "perm":
            p = list(range(n))
            rng.shuffle(p)
            prow = relabel_rows(cur, p)
            rng.shuffle(prow)
            b2 = make_bl(n, prow, rng.choice(["array", "add"]))
            oc1, m, rot = call_rot(b2)
            oc2, rings = call_rings(mk_atoms(n, b2))
            events.append({"op": op, "pi": p, "rows": arr_rows(b2), "rot": rot, "m": m if oc1 == "ok" else -1,
                           "rings": rings if oc2 == "ok" else [[-1]]})
        elif op == "add":
            if n < 2:
                continue
            i, j = rng.sample(range(n), 2)
            t = rng.choice([1, 1, 5, 6, 9, 9, 2, 0, 3, 4, 7, 8])
            if _cyclomatic(n, cur + [[i, j, t]]) > maxmu + 1:
                continue
            bl.add_bond(i, j, t)
            events.append({"op": op, "a": [i, j, t], "out": arr_rows(bl)})
        elif op == "remove":
            if n < 2:
                continue
            if cur and rng.random() < 0.8:
                i, j, _t = rng.choice(cur)
                if rng.random() < 0.5:
                    i, j = j, i
            else:
                i, j = rng.sample(range(n), 2)
            bl.remove_bond(i, j)
            events.append({"op": op, "a": [i, j], "out": arr_rows(bl)})
        elif op == "strip_arom":
            bl.remove_aromaticity()
            events.append({"op": op, "rows": cur, "out": arr_rows(bl)})
        elif op == "strip_order":
            bl.remove_bond_order()
            events.append({"op": op, "rows": cur, "out": arr_rows(bl)})
        elif op == "noarom":
            t = rng.randrange(10)
            r = BondType(t).without_aromaticity()
            events.append({"op": op, "t": t, "out": int(r) if isinstance(r, BondType) else -1})
        elif op == "nobonds":
            oc, _out = call_rings(mk_atoms(n, None, stack=rng.choice([0, 2])))
            events.append({"op": op, "oc": oc})
    return {"events": events, "name": name, "n": n, "mu": _cyclomatic(n, events[0]["rows"])}


# --------------------------------------------------------------------------- TLC judge
def _validate(ctx, traces, stage, selftest=False, timeout=1200):
    """Trace validation in chunks; returns (mismatch tuples with global trace numbers, shape
    disagreements). SPECFAIL (the certificate of the fast minimum-basis path failed) is a
    machinery failure."""
    from harness.tlabind import helpers, tlc

    out, shapes = [], 0
    per = 6000
    for lo in range(0, len(traces), per):
        part = traces[lo:lo + per]
        mms = helpers.tlc_validate(ctx, part, stage=stage, selftest=selftest, timeout=timeout)
        txt = getattr(ctx, "_last_tlc_out", "")
        if tlc.printed_values(txt, "SPECFAIL"):
            raise RuntimeError(f"{stage}: the traversal certificate failed for a recorded input "
                               f"(ImplBasisOk false): {tlc.printed_values(txt, 'SPECFAIL')[:3]}")
        shapes += len(tlc.printed_values(txt, "SHAPE"))
        for m in mms:
            m = list(m)
            m[1] += lo
            out.append(m)
    return out, shapes


def _ring_traces(events):
    """Group ring answers by (n, bond set) -> one trace per graph: load, then one event per answer."""
    groups = {}
    for e in events:
        key = json.dumps([e["n"], sorted(e["rows"])])
        groups.setdefault(key, []).append(e)
    traces, index = [], []
    for key in sorted(groups):
        n, rows = json.loads(key)
        tr = [{"op": "load", "n": n, "rows": rows}]
        evs = sorted(groups[key], key=lambda e: json.dumps([e["rows"], e["out"]]))
        for e in evs:
            tr.append({"op": "rings", "rows": e["rows"], "after": e["rows"], "oc": "ok", "out": e["out"]})
        traces.append(tr)
        index.append(evs)
    return traces, index


def _judge_rings(ctx, events, stage, cap=None):
    """Distinct ring answers -> TLC; mismatches become records of kind rings_judged.  Every
    answer whose sizes differ from the model's minimum sizes is judged; of the others all (quick)
    or a seeded sample of `cap` (thorough: their count, ring bonds, ring atoms and sizes already
    agree with the model's values)."""
    seen, uniq = set(), []
    for e in events:
        key = json.dumps([e["n"], e["rows"], e["out"]])
        if key not in seen:
            seen.add(key)
            uniq.append(e)
    uniq.sort(key=lambda e: json.dumps([e["n"], e["rows"], e["out"]]))
    must = [e for e in uniq if e.get("must")]
    rest = [e for e in uniq if not e.get("must")]
    ctx.cov["ring_answers_distinct"] = len(uniq)
    if cap is not None and len(rest) > cap:
        rest = ctx.rng.sample(rest, cap)
    uniq = must + rest
    traces, index = _ring_traces(uniq)
    mms, shapes = _validate(ctx, traces, stage)
    for m in mms:
        _tag, tid, idx, op, detail = m[0], m[1], m[2], m[3], m[4]
        e = index[tid - 1][idx - 2]
        rec = {"kind": "rings_judged", "op": op, "n": e["n"], "rows": e["rows"], "out": e["out"]}
        if isinstance(detail, dict):
            rec.update(detail)
            rec["bad"] = sorted(k for k, v in (detail.get("flags") or {}).items() if not v)
        ctx.mismatch(dict(rec, stage=stage))
    return len(uniq), len(traces), shapes


# --------------------------------------------------------------------------- classification
def classify(mm):
    """Known finding X08-rings-not-minimum, exactly this shape: find_aromatic_rings returns a
    valid cycle basis of the aromatic bonds (every ring a simple cycle, each once, independent,
    as many as the cyclomatic number) whose ring sizes are not those of a minimum cycle basis AND
    are the sizes the networkx-shaped traversal of the specification yields for the same rows;
    or TLC's refutation of InvImplMinimum in MCImplMin.cfg (the same fact about the design)."""
    if (mm.get("kind") == "spec_invariant" and mm.get("invariant") == "InvImplMinimum"
            and mm.get("cfg") == "MCImplMin.cfg"):
        return KF_MIN
    if mm.get("kind") == "rings_judged" and mm.get("op") in ("rings", "perm_rings"):
        f = mm.get("flags") or {}
        if (f.get("valid") is True and f.get("once") is True and f.get("count") is True
                and f.get("indep") is True and f.get("min") is False
                and mm.get("obsHist") == mm.get("implHist") and mm.get("obsHist") != mm.get("minHist")
                and sum(k * c for k, c in enumerate(mm["obsHist"], 1)) > sum(k * c for k, c in enumerate(mm["minHist"], 1))):
            return KF_MIN
    return None


# --------------------------------------------------------------------------- replay
def replay(record):
    """Re-execute one stored mismatch against the real code."""
    warmup()
    kind = record.get("kind")
    if kind == "spec_invariant":
        return {"mismatch": True, "note": "violated invariant of the specification; re-run ./check X08"}
    if kind == "case" and record.get("op") == "noarom":
        r = exec_enum({"cases": [[record["t"], record["expected"]]]})
        return {"mismatch": bool(r["mismatch"]), "detail": r["mismatch"]}
    if kind == "case":
        n, rows, how = record["n"], record["rows"], record["how"]
        bl = make_bl(n, rows, how)
        op = record["op"]
        if op in ("rot", "rot_after_strip_arom"):
            if op != "rot":
                bl.remove_aromaticity()
            oc, m, rr = call_rot(bl)
            obs = sorted([r[0], r[1]] for r in rr)
            want = record["expected"]["pairs"] if isinstance(record["expected"], dict) else record["expected"]
            return {"mismatch": oc != "ok" or m != n or obs != want, "observed": {"oc": oc, "n": m, "pairs": obs},
                    "expected": want}
        if op in ("rings", "rings_after_strip_arom"):
            if op != "rings":
                bl.remove_aromaticity()
            oc, rings = call_rings(mk_atoms(n, bl))
            if op != "rings":
                return {"mismatch": oc != "ok" or bool(rings), "observed": rings}
            obs = {"count": len(rings), "rbonds": ring_bonds(rings), "ratoms": ring_atoms(rings)}
            want = record["expected"]
            return {"mismatch": oc != "ok" or (isinstance(want, dict) and obs != want), "observed": obs,
                    "rings": rings, "expected": want}
        if op in ("strip_arom", "strip_order"):
            c = bl.copy()
            (c.remove_aromaticity if op == "strip_arom" else c.remove_bond_order)()
            obs = tv_of_rows(n, arr_rows(c))
            return {"mismatch": obs != record["expected"], "observed": obs, "expected": record["expected"]}
        return {"mismatch": True, "note": "construction differs", "observed": arr_rows(bl)}
    if kind == "rings_judged":
        n, rows = record["n"], record["rows"]
        bl = make_bl(n, rows, "array")
        oc, rings = call_rings(mk_atoms(n, bl))
        return {"mismatch": oc != "ok" or len_hist(rings, n) != record.get("minHist"), "observed": rings,
                "observed_hist": len_hist(rings, n), "minimum_hist": record.get("minHist"),
                "same_as_recorded": rings == record.get("out")}
    if kind == "step":
        from biotite.structure import BondList

        n = len(record["expected"]["hist"])
        bl = BondList(n)
        atoms = mk_atoms(n, bl, stack=(1 if record.get("stack") else 0))
        for c in record["path"]:
            apply_call(bl, c)
        obs = observe_live(bl, atoms, n, flip=False)
        rings = obs["rings"]["out"] if obs["rings"]["oc"] == "ok" else []
        got = {"B": sorted(obs["rows"]), "rot": obs["rot"].get("rows"), "mu": len(rings),
               "hist": len_hist(rings, n), "rbonds": ring_bonds(rings), "untouched": obs["untouched"]}
        want = {k: record["expected"][k] for k in got}
        return {"mismatch": got != want, "observed": got, "expected": want}
    if kind == "event":
        r = gen_session(record["item"])
        ev = r["events"][record["index"] - 1] if record["index"] - 1 < len(r["events"]) else None
        return {"mismatch": ev == record.get("event"), "event_now": ev, "expected": record.get("expected")}
    if kind == "crash":
        return {"mismatch": True, "note": "native crash; re-run ./check X08"}
    return {"error": f"unknown record kind {kind}"}


# --------------------------------------------------------------------------- orchestration
def _split_dump(path, nitems):
    size = os.path.getsize(path)
    marks = []
    with open(path, "rb") as fh:
        pos = 0
        for line in fh:
            if line.startswith(b"State ") and line.rstrip().endswith(b":"):
                marks.append(pos)
            pos += len(line)
    if not marks:
        return [], 0
    per = max(1, (len(marks) + nitems - 1) // nitems)
    items = []
    for i in range(0, len(marks), per):
        end = marks[i + per] if i + per < len(marks) else size
        items.append({"path": path, "start": marks[i], "end": end})
    return items, len(marks)


def _corrupt(trace):
    """Change one logged observation so that it can no longer be right."""
    for e in trace:
        if e["op"] == "rings" and e.get("oc") == "ok" and e["out"]:
            e["out"] = e["out"][:-1]
            return True
        if e["op"] == "rot" and e.get("oc") == "ok":
            if e["out"]:
                e["out"] = e["out"][:-1]
            else:
                e["m"] = e["m"] + 1
            return True
        if e["op"] == "strip_arom" and e["out"]:
            e["out"][0] = [e["out"][0][0], e["out"][0][1], 5]
            return True
        if e["op"] == "noarom":
            e["out"] = 9 - e["out"] if e["out"] != 9 - e["out"] else 1
            return True
    return False


def _corrupt2(trace):
    """A second family of corruptions: ring atoms / bond types / relabelled answers."""
    for e in trace:
        if e["op"] == "rings" and e.get("oc") == "ok" and e["out"]:
            r = e["out"][0]
            e["out"][0] = r[:-1] + [r[0]]          # a repeated atom: not a simple cycle
            return True
        if e["op"] == "perm" and e["rot"]:
            e["rot"] = e["rot"][1:]
            return True
        if e["op"] == "add":
            a = e["a"]
            e["out"] = [r for r in e["out"] if {r[0], r[1]} != {a[0], a[1]}]
            return True
        if e["op"] == "strip_order" and e["out"]:
            e["out"][-1] = [e["out"][-1][0], e["out"][-1][1], 1]
            return True
    return False


def run(ctx):
    from harness.tlabind import dot, helpers, pool, tlc
    from harness.tlabind.core import Vacuity
    from harness.tlabind.tlaval import to_py

    quick = ctx.quick
    ctx.assumptions += [
        "Dom_Graph: bond types are the ten BondType members, a bond joins two distinct atoms, one bond per pair",
        "documentation is silent on BondType.AROMATIC: modelled from the code as AROMATIC -> ANY in remove_aromaticity / without_aromaticity, and as an aromatic type (with AROMATIC_SINGLE/DOUBLE/TRIPLE) in find_aromatic_rings",
        "find_aromatic_rings without a BondList: any exception (outcome Rejected; the code raises BadStructureError)",
        "the ring answer is a relation: ANY minimum cycle basis of the aromatic bonds is accepted, rings are compared as cycles (start atom, direction and order of the list are free)",
        "find_rotatable_bonds: the result is compared as a set of bonds plus its atom count (row order free)",
        "the type maps keep the rows of as_array() in place (pairs and order unchanged): part of 'and nothing else'",
        "the traversal model (ImplCycleBasis) follows networkx 3.x cycle_basis; it predicts where answers are not minimum and is never a verdict on its own",
        "recorded sessions: cyclomatic number of the whole graph <= 8, atoms <= 24 (cost of the judge)",
        "trusted: TLC, the TLA+ value parser, numpy, networkx graph construction, the construction of BondList / AtomArray from rows",
    ]
    ctx.cov["rule"] = ("non-trivial graph = at least one aromatic ring, or a rotatable bond, or a bond type "
                       "changed by remove_aromaticity; non-trivial session = molecule with >= 1 ring")
    import networkx

    ctx.cov["networkx"] = networkx.__version__

    # ---- S1: exhaustive bounded model + dump of all (input, expected) states ---------------
    d = tlc.scratch_dir("x08")
    prefix = os.path.join(d, "states")
    cfg = "MC.cfg" if quick else "MC_thorough.cfg"
    res = ctx.tlc("MCPerception", cfg, stage="S1", dump=prefix, workers=16,
                  timeout=1800 if quick else 14400)
    ctx.exhaustive = True
    path = prefix + ".dump" if os.path.exists(prefix + ".dump") else prefix
    items, nstates = _split_dump(path, 200 if quick else 1200)
    if nstates != res.distinct:
        raise RuntimeError(f"dump holds {nstates} states, TLC reported {res.distinct}")
    for it in items:
        it["seed"] = ctx.seed
    # the design question "is the traversal's answer always of minimum size?" - TLC refutes it
    r2 = ctx.tlc("MCPerception", "MCImplMin.cfg", stage="S1-implmin", workers=1, timeout=900, count=False)
    ctx.cov["impl_minimum_refuted_by_tlc"] = r2.violated == "InvImplMinimum"
    if r2.violated is None:
        ctx.note("MCImplMin: the networkx-shaped traversal was minimal on every graph of the configuration")

    # ---- S2a: every state against the real API ---------------------------------------------
    results = helpers.run_pool(ctx, "harness.drivers.x08:exec_states", items, stage="S2", item_timeout=300)
    tot = {"states": 0, "calls": 0, "nontrivial": 0, "mu2": 0, "rot": 0, "maps": 0}
    fam, roots, ring_events = {}, [], []
    for r in results:
        if not r or "cnt" not in r:
            continue
        c = r["cnt"]
        for k in tot:
            tot[k] += c[k]
        for k, v in c["fam"].items():
            fam[k] = fam.get(k, 0) + v
        roots += c["roots"]
        ring_events += r["events"]
    if len(roots) != 1:
        raise RuntimeError(f"expected one root state in the dump, found {len(roots)}")
    ps = roots[0]
    if not isinstance(ps, dict) or not ps:
        raise RuntimeError(f"root state does not carry the pair numbering: {ps!r}")
    for m, seq in sorted((int(k), v) for k, v in ps.items()):
        if [list(p) for p in pairs(m)] != [list(p) for p in seq]:
            raise RuntimeError(f"pair numbering of the driver differs from PairSeq({m}): {seq}")
    ctx.cov["s2_states"] = tot["states"]
    ctx.cov["s2_families"] = dict(sorted(fam.items()))
    ctx.cov["s2_states_with_2_rings"] = tot["mu2"]
    ctx.cov["s2_states_with_rotatable"] = tot["rot"]
    ctx.cov["s2_states_with_aromatic_types"] = tot["maps"]
    need = {"full", "class", "arom", "single"} | (set() if quick else {"typed", "sa"})
    if not need <= set(fam):
        raise Vacuity(f"input families never executed: {sorted(need - set(fam))}")
    if tot["mu2"] == 0 or tot["rot"] == 0 or tot["maps"] == 0:
        raise Vacuity(f"no graph with two rings / a rotatable bond / an aromatic type was executed: {tot}")
    ctx.traces_validated += tot["states"]
    ctx.evaluations += tot["calls"]
    ctx.nontrivial += tot["nontrivial"]
    # BondType.without_aromaticity: expected values = the `na` of the one-bond graphs on 2 atoms
    cases = {}
    for r in results:
        for t, w in (r or {}).get("cnt", {}).get("enum", []):
            cases[t] = w
    if sorted(cases) != list(range(10)):
        raise Vacuity(f"one-bond graphs of the full family do not cover the ten bond types: {sorted(cases)}")
    r = helpers.run_pool(ctx, "harness.drivers.x08:exec_enum", [{"cases": sorted(cases.items())}], stage="S2")
    ctx.evaluations += r[0].get("calls", 0)

    # ---- S1 + S2c: the live BondList state machine ---------------------------------------
    dotf = os.path.join(d, "hist.dot")
    hcfg = "MCHist.cfg" if quick else "MCHist_thorough.cfg"
    hres = ctx.tlc("MCHist", hcfg, stage="S1-hist", dump_dot=dotf, workers=1, timeout=1800)
    g = dot.load(dotf)
    if not g.edges:
        raise RuntimeError("empty state graph")
    labels, lab_ix, ops_seen = [], {}, {}
    # transitions into states beyond the state constraint (MaxBonds) are not part of the graph
    known = set(g.state_text)
    dropped = len(g.edges)
    g.edges = [e for e in g.edges if e[0] in known and e[2] in known]
    dropped -= len(g.edges)
    if dropped:
        ctx.cov["hist_transitions_beyond_constraint"] = dropped
    for (_s, lab, _d) in g.edges:
        if lab not in lab_ix:
            _name, args = dot.parse_label(lab)
            lab_ix[lab] = len(labels)
            labels.append(to_py(args[0]))
        op = labels[lab_ix[lab]][0]
        ops_seen[op] = ops_seen.get(op, 0) + 1
    if set(ops_seen) != {"add", "remove", "strip_arom", "strip_order"}:
        raise Vacuity(f"calls of the state machine: {ops_seen}")
    ids = {nid: k for k, nid in enumerate(g.state_text)}
    states = [None] * len(ids)
    hN = None
    for nid, k in ids.items():
        st = g.state(nid)
        v = to_py(st["view"])
        hN = len(v["hist"])
        states[k] = {"B": sorted(map(list, to_py(st["B"]))), "rot": sorted(map(list, v["rot"])), "mu": v["mu"],
                     "hist": v["hist"], "rbonds": sorted(map(list, v["rbonds"]))}
    gfile = os.path.join(d, "hist.json")
    with open(gfile, "w") as f:
        json.dump({"N": hN, "states": states, "labels": labels}, f)
    paths, covered = dot.covering_paths(g, max_len=14, limit=2500 if quick else None, rng=ctx.rng)
    plist = [{"steps": [[lab_ix[lab], ids[dst]] for lab, dst in steps], "stack": k % 5 == 4}
             for k, (root, steps) in enumerate(paths)]
    pitems = [{"paths": plist[k:k + 50]} for k in range(0, len(plist), 50)]
    if not quick and covered != len(g.edges):
        raise Vacuity(f"covering paths reach {covered} of {len(g.edges)} transitions")
    replayed_ops = {}
    for p in plist:
        for li, _dst in p["steps"]:
            replayed_ops[labels[li][0]] = replayed_ops.get(labels[li][0], 0) + 1
    if set(replayed_ops) != set(ops_seen):
        raise Vacuity(f"calls replayed: {replayed_ops}")
    ctx.log(f"S2c: {len(plist)} paths covering {covered}/{len(g.edges)} transitions of {len(states)} states")
    ctx.cov["hist_transitions_covered"] = covered
    presults = helpers.run_pool(ctx, "harness.drivers.x08:exec_path", pitems, stage="S2c",
                                env={"X08_GRAPH": gfile}, item_timeout=300)
    steps = sum((r or {}).get("steps", 0) for r in presults)
    ctx.evaluations += sum((r or {}).get("calls", 0) for r in presults)
    ctx.traces_validated += len(plist)
    ctx.cov["hist_transitions"] = len(g.edges)
    ctx.cov["hist_transitions_per_call"] = dict(sorted(ops_seen.items()))
    ctx.cov["hist_steps_replayed"] = steps
    for r in presults:
        ring_events += (r or {}).get("events", [])
    strip_changes = sum(1 for (s, lab, t) in g.edges
                        if labels[lab_ix[lab]][0] == "strip_arom" and s != t)
    if strip_changes == 0:
        raise Vacuity("remove_aromaticity never changed a state of the machine")

    # ---- S2b: every ring answer judged by TLC --------------------------------------------
    nuniq, ntr, shapes = _judge_rings(ctx, ring_events, "S2b", cap=None if quick else 20000)
    ctx.cov["ring_answers_judged"] = nuniq
    ctx.cov["ring_answer_graphs"] = ntr
    ctx.cov["ring_answers_differing_from_traversal_model"] = shapes
    if nuniq == 0:
        raise Vacuity("no ring answer reached the judge")
    if shapes:
        ctx.note(f"{shapes} ring answers differ from the networkx-shaped traversal of the specification "
                 "(diagnostic only: the installed networkx may walk in another order)")

    # ---- S3: recorded sessions --------------------------------------------------------------
    nsess = 260 if quick else 2500
    sitems = [{"seed": ctx.rng.getrandbits(48), "length": ctx.rng.randint(6, 12), "maxn": 18, "maxmu": 7,
               "plib": 0.35} for _ in range(nsess)]
    sres = helpers.run_pool(ctx, "harness.drivers.x08:gen_session", sitems, stage="S3", item_timeout=120)
    traces, titems, names, opcount = [], [], {}, {}
    ringy, big = 0, 0
    for it, r in zip(sitems, sres):
        if not r or "events" not in r:
            continue
        traces.append(r["events"])
        titems.append(it)
        names[r["name"]] = names.get(r["name"], 0) + 1
        ringy += r["mu"] >= 1
        big += r["mu"] >= 3
        for e in r["events"]:
            opcount[e["op"]] = opcount.get(e["op"], 0) + 1
    missing = [o for o in ALL_OPS if not opcount.get(o)]
    if missing:
        raise Vacuity(f"session calls never recorded: {missing}")
    if big == 0 or not names.get("dense") or len([k for k in names if k not in ("random", "dense")]) < 8:
        raise Vacuity(f"sessions lack ring systems with >= 3 rings or library molecules: {names}")
    mms, shapes3 = _validate(ctx, traces, "S3")
    bad_tids = set()
    for m in mms:
        tid, idx, op, detail = m[1], m[2], m[3], m[4]
        bad_tids.add(tid)
        ev = traces[tid - 1][idx - 1]
        if op in ("rings", "perm_rings") and isinstance(detail, dict) and "flags" in detail:
            rec = {"kind": "rings_judged", "op": op, "n": traces[tid - 1][0]["n"], "rows": ev["rows"],
                   "out": ev["out"] if op == "rings" else ev["rings"], "stage": "S3"}
            rec.update(detail)
            rec["bad"] = sorted(k for k, v in detail["flags"].items() if not v)
        else:
            rec = {"kind": "event", "op": op, "stage": "S3", "index": idx, "event": ev, "expected": detail,
                   "item": titems[tid - 1]}
        ctx.mismatch(rec)
    nev = sum(len(t) for t in traces)
    ctx.traces_validated += len(traces)
    ctx.evaluations += nev
    ctx.nontrivial += ringy
    ctx.cov["s3_sessions"] = len(traces)
    ctx.cov["s3_events"] = nev
    ctx.cov["s3_events_per_call"] = dict(sorted(opcount.items()))
    ctx.cov["s3_molecules"] = dict(sorted(names.items()))
    ctx.cov["s3_ring_answers_differing_from_traversal_model"] = shapes3
    for tr in sorted(traces, key=lambda t: -len(t))[:3]:
        ctx.sample({"n": tr[0]["n"], "rows": tr[0]["rows"][:12], "calls": [e["op"] for e in tr[1:]]})
    # ---- binding self-test: corrupted sessions must be rejected --------------------------
    clean = [tr for k, tr in enumerate(traces, 1) if k not in bad_tids]
    for corrupt in (_corrupt, _corrupt2):
        pick = [tr for tr in clean if corrupt(json.loads(json.dumps(tr)))][:8]
        if len(pick) < 4:
            raise Vacuity("binding self-test: too few sessions to corrupt")
        helpers.binding_selftest(ctx, pick, corrupt, max_traces=8)
    if ctx.cov.get("selftest_corrupted_rejected", 0) < 8:
        raise Vacuity(f"binding self-test rejected only {ctx.cov.get('selftest_corrupted_rejected', 0)} corrupted sessions")
