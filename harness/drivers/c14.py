"""C14 -- cell-list neighbour search is exact (biotite.structure.CellList).

S1  TLC evaluates specs/C14/CellGrid.tla on every input of the bounded families: the
    implementation-shaped grid algorithm (origin at the minimum coordinate, C truncation,
    clipped cube of cells, 27 periodic images) returns exactly the declarative neighbour
    sets; cell queries are supersets; the adjacency matrix is symmetric.
S2  the same run's state dump holds, for every input, the expected result of every public
    call (get_atoms with scalar / per-query radii, index and mask form, single and batched
    coordinates, get_atoms_in_cells, create_adjacency_matrix, with/without selection,
    periodic or not).  All of them are executed against the real CellList and compared as
    index sets.
S3  seeded larger systems (<= 60 atoms on the lattice / half lattice, clustered, collinear,
    duplicated, far-away queries) are recorded and re-computed by TLC (specs/C14/Trace.tla).
"""

from __future__ import annotations

import json
import math
import os
import random
import re

PROPERTY = "C14"

MANIFEST = {
    "technique": "TLA+ specification of CellList (declarative neighbour sets + implementation-shaped grid model, specs/C14) model-checked by TLC; TLC's expected results for every enumerated input replayed against the real CellList; recorded larger executions re-computed by TLC",
    "level_text": "TLC enumerates bounded families of integer-lattice inputs (<=3 atoms incl. duplicates and collinear sets, cell sizes 1, 3/2, 2, 5 (1/2), ten radii from 0 to beyond the extent, integer radii with pairs exactly on the sphere, 133 (quick) / 517 (thorough) query points incl. points outside the bounding box and far away, selections, orthorhombic / rotated-orthogonal / triclinic / left-handed periodic boxes) and checks that the grid algorithm of celllist.pyx (minimum-coordinate origin, truncating cell index, clipped cell cube, ceil(radius/cell_size), 27 images) equals the declarative definition, that cell queries are supersets and that the adjacency matrix is symmetric. Every expected result is then compared with the real CellList (index arrays, masks, scalar and per-query radii, single and batched coordinates, ndarray and AtomArray input) in crash-isolated processes; systems of up to 60 atoms on the lattice and half lattice are recorded and re-computed by TLC.",
    "level_note": "Exact-arithmetic restriction: coordinates, boxes and cell sizes are integers or dyadic rationals, radii are integers or sqrt(k+1/2); nothing is decided about float32 rounding at cell borders or at the sphere for general coordinates. Periodic boxes are restricted to boxes for which TLC itself verified that 27 images contain a minimum image (Dom_Images27); strongly skewed boxes are outside the domain. Results are compared as index sets (duplicates of periodic copies and padding order ignored). Exhaustive only for <=3 atoms; larger systems only through recorded executions. Trusted: TLC, the dump parser, numpy.",
}

SCALES = (1, 2)           # ticks per length unit (2 = half-lattice points)


# --------------------------------------------------------------------------- TLC text -> python
def tla_to_py(text):
    """Nested tuples of integers / booleans, as TLC prints them, to Python lists."""
    t = text.replace("<<", "[").replace(">>", "]").replace("TRUE", "true").replace("FALSE", "false")
    return json.loads(t)


def parse_dump(path):
    """States of the CellGrid model: list of (inp, res) with res != <<>>."""
    out = []
    with open(path) as f:
        blob = f.read()
    for block in re.split(r"^State \d+:\n", blob, flags=re.M):
        if not block.strip():
            continue
        vars_ = {}
        for m in re.finditer(r"/\\ (\w+) = (.*?)(?=\n/\\ |\Z)", block.strip(), flags=re.S):
            vars_[m.group(1)] = m.group(2)
        res = tla_to_py(vars_["vout"])
        if res:
            out.append((tla_to_py(vars_["vin"]), res))
    return out


def unpack_row(ints, n):
    row = []
    for v in ints:
        for _ in range(10):
            row.append(v & 7)
            v >>= 3
    return row[:n]


# --------------------------------------------------------------------------- real side
def radius_of(rho, scale):
    num, den = rho
    if den == 1:
        r = math.isqrt(num)
        assert r * r == num
        return r / scale
    return math.sqrt(num / den) / scale


def build(inp, scale, variant):
    """Create the real CellList for a spec input. variant picks dtype / container."""
    import numpy as np
    import biotite.structure as struc

    atoms, cs, box, sel = inp
    dt = np.float32 if variant % 2 == 0 else np.float64
    coord = np.array(atoms, dtype=dt) / scale
    kw = {}
    bx = None
    if box:
        bx = np.array(box[0], dtype=dt) / scale
    if sel:
        kw["selection"] = np.array(sel[0], dtype=bool)
    cell_size = cs[0] / cs[1] / scale
    if variant % 3 == 2:
        arr = struc.AtomArray(len(atoms))
        arr.coord = coord.astype(np.float32)
        if bx is not None:
            arr.box = bx.astype(np.float32)
            return struc.CellList(arr, cell_size, periodic=True, **kw), coord.dtype
        return struc.CellList(arr, cell_size, **kw), coord.dtype
    if bx is not None:
        return struc.CellList(coord, cell_size, periodic=True, box=bx, **kw), dt
    return struc.CellList(coord, cell_size, **kw), dt


def rows_to_bits(res, as_mask, n):
    """Real result (2-D) -> list of bit masks; checks the padding convention."""
    import numpy as np

    res = np.asarray(res)
    out = []
    bad = None
    if as_mask:
        if res.dtype != bool or res.shape[-1] != n:
            return None, f"mask of shape {res.shape} dtype {res.dtype}"
        for row in res:
            out.append(sum(1 << k for k in np.nonzero(row)[0].tolist()))
        return out, None
    for row in res:
        row = row.tolist()
        vals = [v for v in row if v != -1]
        if any(v < 0 or v >= n for v in vals):
            bad = f"index out of range in {row}"
        # documented: trailing -1 values
        k = len(vals)
        if any(v != -1 for v in row[k:]) or any(v == -1 for v in row[:k]):
            bad = f"-1 padding is not trailing in {row}"
        out.append(sum(1 << v for v in set(vals)))
    return out, bad


def bits_to_list(b):
    return [k for k in range(b.bit_length()) if b >> k & 1]


def check_input(inp, res, C, scale, variant, light):
    """Run every call the spec predicted for this input. Returns (mismatches, ncalls, diag)."""
    import numpy as np

    from harness.tlabind.pool import progress

    Q, R, CR, MS = C
    near_p, multi_p, must_p, cells_p, adj = res[0]
    nq = len(Q)
    n = len(inp[0])
    mism = []
    calls = 0
    diag_cells = 0
    progress({"inp": inp, "scale": scale, "variant": variant, "call": "construct"})
    cl, dt = build(inp, scale, variant)
    qarr = np.array(Q, dtype=dt) / scale
    selbits = (1 << n) - 1 if not inp[3] else sum(1 << k for k, b in enumerate(inp[3][0]) if b)

    def rec(call, j, exp, got, extra=None):
        m = {"kind": "query", "call": call, "inp": inp, "scale": scale, "variant": variant,
             "query": None if j is None else Q[j], "expected": bits_to_list(exp) if isinstance(exp, int) else exp,
             "observed": bits_to_list(got) if isinstance(got, int) else got}
        if extra:
            m.update(extra)
        mism.append(m)

    def compare(call, exp_row, got_row, note, extra=None):
        if note:
            rec(call, None, "well-formed result", note, extra)
            return
        if len(got_row) != len(exp_row):
            rec(call, None, f"{len(exp_row)} rows", f"{len(got_row)} rows", extra)
            return
        for j, (e, g) in enumerate(zip(exp_row, got_row)):
            if e != g:
                rec(call, j, e, g, extra)
                return  # one record per call is enough

    for as_mask in (False, True):
        # scalar radius, batched coordinates
        for r, rho in enumerate(R):
            if light and (r + as_mask) % 2:
                continue
            rad = radius_of(rho, scale)
            exp = unpack_row(near_p[r], nq)
            progress({"inp": inp, "scale": scale, "variant": variant, "call": "get_atoms", "rho": rho, "as_mask": as_mask})
            got, note = rows_to_bits(cl.get_atoms(qarr, rad, as_mask=as_mask), as_mask, n)
            calls += 1
            compare("get_atoms", exp, got, note, {"rho": rho, "as_mask": as_mask, "batched": True})
        # per-query radii
        for s, shift in enumerate(MS):
            rads = np.array([radius_of(R[(j + 1 + shift) % len(R)], scale) for j in range(nq)], dtype=dt)
            exp = unpack_row(multi_p[s], nq)
            progress({"inp": inp, "scale": scale, "variant": variant, "call": "get_atoms_multi", "shift": shift, "as_mask": as_mask})
            got, note = rows_to_bits(cl.get_atoms(qarr, rads, as_mask=as_mask), as_mask, n)
            calls += 1
            compare("get_atoms_multi", exp, got, note, {"shift": shift, "as_mask": as_mask})
        # cell queries: superset of must, subset of the selection; implementation-shaped
        # prediction only as a diagnostic
        for c, cr in enumerate(CR):
            must = unpack_row(must_p[c], nq)
            pred = unpack_row(cells_p[c], nq)
            progress({"inp": inp, "scale": scale, "variant": variant, "call": "get_atoms_in_cells", "c": cr, "as_mask": as_mask})
            if c % 2 == 0:
                got, note = rows_to_bits(cl.get_atoms_in_cells(qarr, cr, as_mask=as_mask), as_mask, n)
            else:
                got, note = rows_to_bits(cl.get_atoms_in_cells(qarr, np.full(nq, cr, dtype=np.int32), as_mask=as_mask), as_mask, n)
            calls += 1
            if note:
                rec("get_atoms_in_cells", None, "well-formed result", note, {"c": cr, "as_mask": as_mask})
                continue
            for j in range(nq):
                if (must[j] & ~got[j]) or (got[j] & ~selbits):
                    rec("get_atoms_in_cells", j, must[j], got[j], {"c": cr, "as_mask": as_mask, "relation": "must <= observed <= selection"})
                    break
            diag_cells += sum(1 for j in range(nq) if pred[j] != got[j])
    # single coordinates (shape (3,)): a deterministic subset of the queries
    step = 17 if light else 5
    for j in range((variant * 3) % step, nq, step):
        r = (j + variant) % len(R)
        rho = R[r]
        exp = unpack_row(near_p[r], nq)[j]
        for as_mask in (False, True):
            progress({"inp": inp, "scale": scale, "variant": variant, "call": "get_atoms_single", "rho": rho, "q": Q[j], "as_mask": as_mask})
            out = cl.get_atoms(qarr[j], radius_of(rho, scale), as_mask=as_mask)
            calls += 1
            if np.asarray(out).ndim != 1:
                rec("get_atoms_single", j, "1-D result", f"shape {np.asarray(out).shape}", {"rho": rho, "as_mask": as_mask})
                continue
            got, note = rows_to_bits(np.asarray(out)[np.newaxis, :], as_mask, n)
            if note or got[0] != exp:
                rec("get_atoms_single", j, exp, note or got[0], {"rho": rho, "as_mask": as_mask, "batched": False})
    # adjacency matrices
    for r, rho in enumerate(R):
        if light and r % 3:
            continue
        progress({"inp": inp, "scale": scale, "variant": variant, "call": "create_adjacency_matrix", "rho": rho})
        m = cl.create_adjacency_matrix(radius_of(rho, scale))
        calls += 1
        if m.shape != (n, n) or m.dtype != bool:
            rec("create_adjacency_matrix", None, f"bool ({n},{n})", f"{m.dtype} {m.shape}", {"rho": rho})
            continue
        got = [sum(1 << k for k in np.nonzero(row)[0].tolist()) for row in m]
        if got != adj[r]:
            rec("create_adjacency_matrix", None, [bits_to_list(b) for b in adj[r]], [bits_to_list(b) for b in got], {"rho": rho})
        elif not (m == m.T).all():
            rec("create_adjacency_matrix", None, "symmetric", "asymmetric", {"rho": rho})
    return mism, calls, diag_cells


_CONST = None


def warmup():
    import biotite.structure  # noqa: F401

    global _CONST
    if "C14_CONST" in os.environ and _CONST is None:
        with open(os.environ["C14_CONST"]) as f:
            _CONST = json.load(f)


def exec_group(item):
    """S2 pool item: a slice of the dumped states (stored in the item's own file)."""
    warmup()
    C = _CONST
    with open(item["file"]) as f:
        states = json.load(f)
    mism = []
    calls = 0
    diag = 0
    for k, (inp, res) in enumerate(states):
        idx = item["lo"] + k
        scale = SCALES[idx % len(SCALES)]
        try:
            m, c, d = check_input(inp, res, C, scale, idx, item["light"])
        except Exception as e:      # a public call raised on a well-formed input
            if not _from_biotite(e):
                raise
            m, c, d = [{"kind": "exception", "inp": inp, "scale": scale, "variant": idx, "error": repr(e)}], 0, 0
        mism += m
        calls += c
        diag += d
    return {"mismatch": mism, "calls": calls, "diag_cells": diag, "inputs": len(states)}


# --------------------------------------------------------------------------- S3 recording
BOXES = [
    [[4, 0, 0], [0, 4, 0], [0, 0, 4]],
    [[2, 0, 0], [0, 4, 0], [0, 0, 8]],
    [[4, 0, 0], [2, 4, 0], [0, 0, 4]],
    [[4, 0, 0], [0, 4, 0], [2, -2, 4]],
    [[2, 2, 0], [-2, 2, 0], [0, 0, 4]],
    [[8, 0, 0], [0, 4, 0], [0, 0, 4]],
    [[8, 0, 0], [-2, 4, 0], [2, 2, 4]],
    [[0, 4, 0], [4, 0, 0], [0, 0, 4]],
]
CELLS = [[1, 1], [3, 2], [2, 1], [5, 1], [1, 2], [3, 1], [7, 2], [16, 1]]


def _rand_rho(rng, big):
    if rng.random() < 0.45:
        r = rng.choice([0, 1, 2, 3, 4, 5, 7] + ([12, 30] if big else []))
        return [r * r, 1]
    k = rng.choice([0, 1, 2, 3, 5, 8, 13, 20, 33] + ([60, 150] if big else []))
    return [2 * k + 1, 2]



def _from_biotite(exc):
    """True when the exception was raised inside the library (not in this driver)."""
    import traceback

    frames = traceback.extract_tb(exc.__traceback__)
    return any("biotite" in f.filename and "/harness/" not in f.filename for f in frames)


def _guarded(fn):
    """An exception raised by the library on a well-formed recorded call is a disagreement, not a
    machinery failure; an exception of the driver itself stays a driver error."""
    import functools

    @functools.wraps(fn)
    def wrapper(item):
        try:
            return fn(item)
        except Exception as e:
            if not _from_biotite(e):
                raise
            import traceback

            return {"events": [], "mismatch": [{"kind": "exception", "stage": "S3", "item": item, "error": repr(e),
                                                "where": traceback.format_exc()[-600:]}]}
    return wrapper


@_guarded
def gen_trace(item):
    """Build a seeded system, run the real CellList, log the calls."""
    import numpy as np

    from harness.tlabind.pool import progress

    rng = random.Random(item["seed"])
    scale = rng.choice([1, 2, 2, 4])
    periodic = rng.random() < 0.45
    nmax = item["nmax"]
    n = rng.choice([1, 2, 3, 5, 8, 13, 21, 34, nmax][: 9 if nmax >= 34 else 6])
    n = min(n, nmax)
    shape = rng.choice(["cloud", "cluster", "line", "dups", "plane"])
    lo, hi = (-3, 9) if not periodic else (-6, 12)
    pts = []
    c0 = [rng.randint(lo, hi) for _ in range(3)]
    d0 = rng.choice([[1, 0, 0], [0, 1, 0], [1, 1, 0], [1, 2, -1], [0, 0, 2]])
    for k in range(n):
        if shape == "cloud":
            p = [rng.randint(lo, hi) for _ in range(3)]
        elif shape == "cluster":
            p = [c0[i] + rng.randint(-1, 1) for i in range(3)]
        elif shape == "line":
            t = rng.randint(-4, 4)
            p = [c0[i] + t * d0[i] for i in range(3)]
        elif shape == "plane":
            p = [rng.randint(lo, hi), rng.randint(lo, hi), c0[2]]
        else:
            p = pts[rng.randrange(len(pts))][:] if pts and rng.random() < 0.6 else [rng.randint(lo, hi) for _ in range(3)]
        pts.append(p)
    cs = rng.choice(CELLS)
    box = [rng.choice(BOXES)] if periodic else []
    sel = []
    if rng.random() < 0.35 and n >= 2:
        m = [rng.random() < 0.6 for _ in range(n)]
        if not any(m):
            m[rng.randrange(n)] = True
        sel = [m]
    inp = [pts, cs, box, sel]
    variant = rng.randrange(6)
    events = [{"op": "construct", "atoms": pts, "cs": cs, "box": box, "sel": sel, "scale": scale, "variant": variant}]
    progress({"inp": inp, "scale": scale, "variant": variant, "call": "construct"})
    cl, dt = build(inp, scale, variant)

    def rand_q():
        k = rng.random()
        if k < 0.5:
            return [rng.randint(lo - 3, hi + 3) for _ in range(3)]
        if k < 0.75 and pts:
            p = pts[rng.randrange(n)]
            return [p[i] + rng.randint(-1, 1) for i in range(3)]
        if k < 0.9:
            return [rng.choice([-40, 55, 0, 3]) for _ in range(3)]
        return pts[rng.randrange(n)][:]

    def idx_rows(res, as_mask, single):
        res = np.asarray(res)
        if single:
            res = res[np.newaxis, :]
        rows = []
        for row in res:
            if as_mask:
                rows.append(np.nonzero(row)[0].tolist())
            else:
                rows.append(sorted(set(v for v in row.tolist() if v != -1)))
        return rows

    for _ in range(item["length"]):
      try:
          k = rng.random()
          as_mask = rng.random() < 0.4
          if k < 0.55:
              single = rng.random() < 0.25
              m = 1 if single else rng.randint(1, 8)
              q = [rand_q() for _ in range(m)]
              multi = (not single) and rng.random() < 0.5
              rho = [_rand_rho(rng, True) for _ in range(m)] if multi else [_rand_rho(rng, True)] * m
              qa = np.array(q, dtype=dt) / scale
              progress({"inp": inp, "scale": scale, "variant": variant, "call": "get_atoms", "q": q, "rho": rho})
              if single:
                  out = cl.get_atoms(qa[0], radius_of(rho[0], scale), as_mask=as_mask)
              elif multi:
                  out = cl.get_atoms(qa, np.array([radius_of(r, scale) for r in rho], dtype=dt), as_mask=as_mask)
              else:
                  out = cl.get_atoms(qa, radius_of(rho[0], scale), as_mask=as_mask)
              events.append({"op": "get_atoms", "q": q, "rho": rho, "got": idx_rows(out, as_mask, single),
                             "as_mask": as_mask, "single": single, "multi": multi})
          elif k < 0.85:
              single = rng.random() < 0.25
              m = 1 if single else rng.randint(1, 8)
              q = [rand_q() for _ in range(m)]
              multi = (not single) and rng.random() < 0.5
              c = [rng.randint(0, 3) for _ in range(m)] if multi else [rng.randint(0, 3)] * m
              qa = np.array(q, dtype=dt) / scale
              progress({"inp": inp, "scale": scale, "variant": variant, "call": "get_atoms_in_cells", "q": q, "c": c})
              if single:
                  out = cl.get_atoms_in_cells(qa[0], c[0], as_mask=as_mask)
              elif multi:
                  out = cl.get_atoms_in_cells(qa, np.array(c, dtype=np.int32), as_mask=as_mask)
              else:
                  out = cl.get_atoms_in_cells(qa, c[0], as_mask=as_mask)
              events.append({"op": "cells", "q": q, "c": c, "got": idx_rows(out, as_mask, single),
                             "as_mask": as_mask, "single": single, "multi": multi})
          else:
              rho = _rand_rho(rng, False)
              progress({"inp": inp, "scale": scale, "variant": variant, "call": "create_adjacency_matrix", "rho": rho})
              m = cl.create_adjacency_matrix(radius_of(rho, scale))
              events.append({"op": "adjacency", "rho": rho, "got": [np.nonzero(row)[0].tolist() for row in m]})
      except Exception as e:      # a public call raised on a well-formed input
        if not _from_biotite(e):
            raise
        return {"events": events, "mismatch": [{"kind": "exception", "stage": "S3", "inp": inp, "scale": scale,
                                                "variant": variant, "error": repr(e)}]}
    return {"events": events}


# --------------------------------------------------------------------------- verdict plumbing
def classify(mm):
    return None   # no known findings for C14


def replay(record):
    """Re-execute one stored mismatch against the current code."""
    import numpy as np

    if record.get("kind") == "query":
        inp, scale, variant = record["inp"], record["scale"], record["variant"]
        cl, dt = build(inp, scale, variant)
        call = record["call"]
        out = {"call": call, "expected": record["expected"]}
        n = len(inp[0])
        if call in ("get_atoms", "get_atoms_single") and record.get("query") is not None:
            q = np.array(record["query"], dtype=dt) / scale
            got = cl.get_atoms(q, radius_of(record["rho"], scale))
            got = sorted(set(v for v in got.tolist() if v != -1))
            out.update(observed=got, mismatch=got != record["expected"])
            return out
        if call == "get_atoms_in_cells" and record.get("query") is not None:
            q = np.array(record["query"], dtype=dt) / scale
            got = sorted(set(v for v in cl.get_atoms_in_cells(q, record["c"]).tolist() if v != -1))
            out.update(observed=got, mismatch=not set(record["expected"]) <= set(got))
            return out
        if call == "create_adjacency_matrix":
            m = cl.create_adjacency_matrix(radius_of(record["rho"], scale))
            got = [np.nonzero(row)[0].tolist() for row in m]
            out.update(observed=got, mismatch=got != record["expected"])
            return out
        return {"error": "record not replayable in isolation; rerun the check", "record": record}
    if record.get("kind") == "event":
        tr = record["trace"]
        first = tr[0]
        inp = [first["atoms"], first["cs"], first["box"], first["sel"]]
        cl, dt = build(inp, first["scale"], first["variant"])
        e = record["event"]
        scale = first["scale"]
        if e["op"] == "get_atoms":
            j = max(record["position"] - 1, 0)
            got = cl.get_atoms(np.array(e["q"][j], dtype=dt) / scale, radius_of(e["rho"][j], scale))
            got = sorted(set(v for v in got.tolist() if v != -1))
            return {"observed": got, "expected": record["expected"], "mismatch": got != record["expected"]}
        if e["op"] == "adjacency":
            m = cl.create_adjacency_matrix(radius_of(e["rho"], scale))
            a = max(record["position"] - 1, 0)
            got = np.nonzero(m[a])[0].tolist()
            return {"observed": got, "expected": record["expected"], "mismatch": got != record["expected"]}
        if e["op"] == "cells":
            j = max(record["position"] - 1, 0)
            got = sorted(set(v for v in cl.get_atoms_in_cells(np.array(e["q"][j], dtype=dt) / scale, e["c"][j]).tolist() if v != -1))
            return {"observed": got, "must_contain": record["expected"], "mismatch": not set(record["expected"]) <= set(got)}
    return {"error": "unknown record kind", "record": record}


def run(ctx):
    from harness.tlabind import helpers, pool, tlc
    from harness.tlabind.core import Vacuity

    quick = ctx.quick
    ctx.assumptions += [
        "Dom_Atoms/Dom_CellSize/Dom_Sel: >=1 atom, cell size > 0, selection with >= 1 selected atom and one flag per atom",
        "coordinates, box vectors: integers divided by 1, 2 or 4 (dyadic rationals: float32 arithmetic is exact); cell sizes p/q with q in {1,2}",
        "Dom_Radius: radius is an integer (pairs exactly on the sphere allowed) or sqrt(k+1/2) (no lattice pair on the sphere)",
        "Dom_Images27: periodic boxes are the eight boxes of TabBoxes, for each of which TLC checked that the 27 stored images contain a minimum image of every in-box displacement (strongly skewed boxes excluded)",
        "results are compared as sets of atom indices (padding and repeated periodic copies ignored); get_atoms_in_cells only as must <= result <= selection",
        "exhaustive model: <= 3 atoms; up to 60 atoms only through recorded executions",
        "trusted: TLC, the dump parser of this driver, numpy",
    ]
    # ---- S1 (+ dump used by S2) -------------------------------------------------------
    d = tlc.scratch_dir("c14")
    prefix = os.path.join(d, "states")
    res = ctx.tlc("CellGrid", "MC.cfg" if quick else "MC_thorough.cfg", stage="S1", dump=prefix,
                  workers=16, timeout=900 if quick else 3000)
    ctx.exhaustive = True
    consts = tlc.printed_values(res.out, "C14CONST")
    if not consts:
        raise RuntimeError("C14CONST not printed by TLC")
    C = tla_to_py(consts[0].replace('"C14CONST",', "", 1))
    path = prefix + ".dump" if os.path.exists(prefix + ".dump") else prefix
    states = parse_dump(path)
    if 2 * len(states) != res.distinct:
        raise RuntimeError(f"dump has {len(states)} evaluated states, TLC reported {res.distinct} states")
    states.sort(key=lambda s: json.dumps(s[0]))
    ctx.log(f"S1: {len(states)} inputs, {len(C[0])} queries, {len(C[1])} radii")
    for inp, r in states:
        if r[1] != [True, True, True, True]:
            # also reported by TLC as a violated invariant; keep the input for the record
            ctx.note(f"design claim false for input {inp}: {r[1]}")
    # vacuity: the families must contain periodic, selected, duplicate inputs
    kinds = {"periodic": 0, "selection": 0, "duplicates": 0, "triclinic": 0, "n3": 0}
    nontrivial = 0
    nq = len(C[0])
    for inp, r in states:
        kinds["periodic"] += bool(inp[2])
        kinds["selection"] += bool(inp[3])
        kinds["duplicates"] += len({tuple(a) for a in inp[0]}) < len(inp[0])
        kinds["n3"] += len(inp[0]) == 3
        if inp[2]:
            b = inp[2][0]
            kinds["triclinic"] += any(sum(b[i][k] * b[j][k] for k in range(3)) != 0 for i, j in ((0, 1), (0, 2), (1, 2)))
        full = (1 << len(inp[0])) - 1
        rows = [unpack_row(p, nq) for p in r[0][0]]
        if any(any(v not in (0, full) for v in row) for row in rows):
            nontrivial += 1
    ctx.cov["input_kinds"] = kinds
    if not all(kinds.values()):
        raise Vacuity(f"input families miss a kind: {kinds}")
    ctx.cov["rule"] = "an input is non-trivial when some query/radius pair has a result that is neither empty nor the whole atom set"
    ctx.nontrivial += nontrivial
    # ---- S2 ------------------------------------------------------------------------------
    cfile = os.path.join(d, "const.json")
    with open(cfile, "w") as f:
        json.dump(C, f)
    per = 40
    items = []
    for lo in range(0, len(states), per):
        fn = os.path.join(d, f"s2_{lo}.json")
        with open(fn, "w") as f:
            json.dump(states[lo:lo + per], f)
        items.append({"lo": lo, "file": fn, "light": bool(quick)})
    results = helpers.run_pool(ctx, "harness.drivers.c14:exec_group", items, stage="S2",
                               env={"C14_CONST": cfile}, item_timeout=600)
    calls = sum(r.get("calls", 0) for r in results)
    diag = sum(r.get("diag_cells", 0) for r in results)
    done = sum(r.get("inputs", 0) for r in results)
    ctx.traces_validated += done
    ctx.evaluations += calls
    ctx.cov["s2_inputs"] = done
    ctx.cov["s2_calls"] = calls
    ctx.cov["s2_cell_prediction_differences"] = diag
    if diag:
        ctx.note(f"get_atoms_in_cells differs from the implementation-shaped grid prediction in {diag} rows (diagnostic: the grid layout of the code is not the modelled one)")
    if calls == 0:
        raise Vacuity("S2 executed no call")
    ctx.sample({"s2_input": states[len(states) // 2][0], "expected_near_r4_unpacked": unpack_row(states[len(states) // 2][1][0][0][4], nq)[:20]})
    ctx.log(f"S2: {done} inputs, {calls} calls executed against CellList")
    # ---- S3 ------------------------------------------------------------------------------
    ntr = 60 if quick else 1200
    length = 10 if quick else 14
    seeds = [ctx.rng.randrange(1 << 30) for _ in range(ntr)]
    titems = [{"seed": s, "length": length, "nmax": 60 if k % 4 == 0 else 21} for k, s in enumerate(seeds)]
    tres = helpers.run_pool(ctx, "harness.drivers.c14:gen_trace", titems, stage="S3", item_timeout=120)
    traces = [r["events"] for r in tres if r and r.get("events")]
    keep = ("op", "atoms", "cs", "box", "sel", "q", "rho", "c", "got")
    mms = []
    for chunk in helpers.chunked(traces, 400):
        mms_c = helpers.tlc_validate(ctx, chunk, keep=keep, timeout=1500)
        for m in mms_c:
            _tag, tid, l, pos, exp = m
            tr = chunk[tid - 1]
            ctx.mismatch({"stage": "S3", "kind": "event", "trace": tr[:1] + [tr[l - 1]], "event": tr[l - 1],
                          "position": pos, "expected": exp})
        mms += mms_c
    nev = sum(len(t) for t in traces)
    ctx.traces_validated += len(traces)
    ctx.evaluations += nev
    ctx.cov["s3_traces"] = len(traces)
    ctx.cov["s3_events"] = nev
    ctx.cov["s3_max_atoms"] = max((len(t[0]["atoms"]) for t in traces), default=0)
    ctx.nontrivial += sum(1 for t in traces if any(e["op"] == "get_atoms" and any(0 < len(g) < len(t[0]["atoms"]) for g in e["got"]) for e in t[1:]))
    if traces:
        ctx.sample({"s3_events": [{k: v for k, v in e.items() if k != "atoms"} for e in traces[0][:3]]})

    def corrupt(tr):
        for e in tr[1:]:
            if e["op"] in ("get_atoms", "adjacency") and e["got"]:
                g = e["got"][0]
                n = len(tr[0]["atoms"])
                if g:
                    g.pop()
                else:
                    cand = [k for k in range(n) if not tr[0]["sel"] or tr[0]["sel"][0][k]]
                    g.append(cand[0])
                return True
        return False

    helpers.binding_selftest(ctx, [[{k: e[k] for k in keep if k in e} for e in t] for t in traces], corrupt)
    ctx.log(f"S3: {len(traces)} traces / {nev} events validated by TLC, {len(mms)} mismatches")
