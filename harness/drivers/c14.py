"""C14 -- cell-list neighbour search is exact (biotite.structure.CellList).

S1  TLC evaluates specs/C14/CellGrid.tla on every input of the bounded families: the
    implementation-shaped grid algorithm (origin at the minimum coordinate, C truncation,
    clipped cube of cells, 27 periodic images) returns exactly the declarative neighbour
    sets; cell queries are supersets; the adjacency matrix is symmetric.
S2  the same run's state dump holds, for every input, the expected result of every public
    call (get_atoms with scalar / per-query radii, index and mask form, single and batched
    coordinates, get_atoms_in_cells, create_adjacency_matrix, with/without selection,
    periodic or not).  All of them are executed against the real CellList and compared as
    index sets.
    The same states hold the squared (minimum-image) pairwise distance matrix of the atoms:
    the library's own distance functions (index_distance(periodic=True), distance(box=...))
    must return it, and thresholded it must be the adjacency matrix.  A second family of the
    model (two atoms, every class of displacements modulo the box, one box per tilt pattern
    = which pairs of box vectors are not perpendicular) carries this through the whole box.
    The arrays handed to the real CellList run through every kind of caller's array of the
    specification (float32 / float64 / integer, C / Fortran order, row- and column-strided and
    reversed views), one set of argument objects serves all calls on a cell list, and after every
    call the arrays are compared with snapshots (ArgsAfter: a call changes no caller's array).
    specs/C14/CellSession.tla (S1-session / S2-session): every construction form (ndarray /
    AtomArray, with / without own box, box= given / not given / different, periodic flag: the
    box that counts is EffBox), every kind of every array (incl. write-protected ones, which may
    be refused) and every history of 2 (thorough: 3) calls on one cell list with the same
    argument objects; the complete histories are replayed against the real CellList.
S3  seeded larger systems (<= 60 atoms on the lattice / half lattice, clustered, collinear,
    duplicated, far-away queries) are recorded as sessions (random construction form and array
    kinds, argument arrays used again by later calls, changed arrays logged) and re-computed by
    TLC (specs/C14/Trace.tla).
"""

from __future__ import annotations

import json
import math
import os
import random
import re

PROPERTY = "C14"

MANIFEST = {
    "technique": "TLA+ specification of CellList (declarative neighbour sets + implementation-shaped grid model, specs/C14) model-checked by TLC; TLC's expected results for every enumerated input replayed against the real CellList; recorded larger executions re-computed by TLC",
    "level_text": "TLC enumerates bounded families of integer-lattice inputs (<=3 atoms incl. duplicates and collinear sets, cell sizes 1, 3/2, 2, 5 (1/2), ten radii from 0 to beyond the extent, integer radii with pairs exactly on the sphere, 133 (quick) / 517 (thorough) query points incl. points outside the bounding box and far away, selections, orthorhombic / rotated-orthogonal / triclinic / left-handed periodic boxes) plus two-atom systems whose displacement runs through every class of displacements modulo the box for boxes of all 8 tilt patterns (which of a.b, a.c, b.c are non-zero), and checks that the grid algorithm of celllist.pyx (minimum-coordinate origin, truncating cell index, clipped cell cube, ceil(radius/cell_size), 27 images) equals the declarative definition, that cell queries are supersets, that the adjacency matrix is symmetric and is the thresholded pairwise (minimum-image) distance matrix, and that the algorithm of the distance functions (orthogonal shortcut / 8 periodic copies) finds the shortest copy for every tabulated box. Every expected result is then compared with the real CellList (index arrays, masks, scalar and per-query radii, single and batched coordinates, ndarray and AtomArray input) and with the pairwise distance matrix returned by index_distance(periodic=True) / distance(box=...) (entries and thresholded form against the adjacency matrix) in crash-isolated processes; the caller's arrays run through every element type and memory form of the specification (float32/float64/integer, C/Fortran order, row-/column-strided and reversed views) and are compared with snapshots after every call. A second model (CellSession) enumerates every construction form (ndarray / AtomArray with or without own box x box= absent / given / different x periodic flag; effective box EffBox, periodic without a box refused), every kind of every caller's array (coordinates, queries, per-query radii, selection, box; write-protected ones may be refused) and every history of 2 (thorough 3) calls out of 8 on one cell list with the same argument objects; every complete history is replayed against the real CellList. Systems of up to 60 atoms on the lattice and half lattice are recorded as such sessions and re-computed by TLC. Recorded sessions also hand over integer-typed boxes whenever the box holds whole numbers (Dom_BoxKind) while the coordinates lie on the half or quarter lattice.",
    "level_note": "Exact-arithmetic restriction: coordinates, boxes and cell sizes are integers or dyadic rationals, radii are integers or sqrt(k+1/2); nothing is decided about float32 rounding at cell borders or at the sphere for general coordinates. Periodic boxes are restricted to boxes for which TLC itself verified that 27 images contain a minimum image (Dom_Images27); strongly skewed boxes are outside the domain. The pairwise distance matrix of the library is required to be the minimum-image one only for boxes inside Dom_Images8 (the 8 copies examined by geometry.displacement contain a shortest one; verified by TLC for all 12 tabulated boxes), otherwise only not to be smaller. Results are compared as index sets (duplicates of periodic copies and padding order ignored). Exhaustive only for <=3 atoms; larger systems only through recorded executions. Write-protected float32 arrays and selections that are not one contiguous writable block are refused by the compiled code (ValueError); the statement is silent about them, so a refusal is accepted for exactly these kinds (RefusableKinds) and only an answer is judged. Histories are exhaustive up to 2 (3) calls; array kinds are those listed in CoordKindSeq / RadiiKindSeq / SelKindSeq. Trusted: TLC, the dump parser, numpy.",
}

SCALES = (1, 2)           # ticks per length unit (2 = half-lattice points)


# --------------------------------------------------------------------------- TLC text -> python
def tla_to_py(text):
    """Nested tuples of integers / booleans, as TLC prints them, to Python lists."""
    t = text.replace("<<", "[").replace(">>", "]").replace("TRUE", "true").replace("FALSE", "false")
    return json.loads(t)


def parse_dump(path):
    """States of the CellGrid model: list of (inp, res) with res != <<>>."""
    out = []
    with open(path) as f:
        blob = f.read()
    for block in re.split(r"^State \d+:\n", blob, flags=re.M):
        if not block.strip():
            continue
        vars_ = {}
        for m in re.finditer(r"/\\ (\w+) = (.*?)(?=\n/\\ |\Z)", block.strip(), flags=re.S):
            vars_[m.group(1)] = m.group(2)
        res = tla_to_py(vars_["vout"])
        if res:
            out.append((tla_to_py(vars_["vin"]), res, vars_["vq"].strip().strip('"')))
    return out


def unpack_row(ints, n):
    row = []
    for v in ints:
        for _ in range(10):
            row.append(v & 7)
            v >>= 3
    return row[:n]


# --------------------------------------------------------------------------- real side
def radius_of(rho, scale):
    num, den = rho
    if den == 1:
        r = math.isqrt(num)
        assert r * r == num
        return r / scale
    return math.sqrt(num / den) / scale


# --------------------------------------------------------------------------- the caller's arrays
# Kind names are the ones of the specification (CellGridOps: CoordKindSeq, RadiiKindSeq,
# SelKindSeq); which kinds exist, which are integer kinds and which may be refused is read from
# TLC's output, never listed here.  make_array only knows how to BUILD an array of a given kind.
def _dtype_of(kind):
    import numpy as np

    return {"f4": np.float32, "f8": np.float64, "i8": np.int64, "i4": np.int32, "b": np.bool_}[kind[:2] if kind[0] != "b" else "b"]


def make_array(values, kind):
    """The caller's array of the given kind holding `values` (nested list, 1-D or 2-D).
    Returns (array handed to biotite, array that owns the memory)."""
    import numpy as np

    dt = _dtype_of(kind)
    a = np.array(values, dtype=dt)
    form = kind[1:] if kind[0] == "b" else kind[2:]
    fill = False if dt is np.bool_ else 77
    if form == "":
        return a, a
    if form == "ro":
        a.flags.writeable = False
        return a, a
    if form == "F":
        a = np.asfortranarray(a)
        return a, a
    if form in ("rows", "strided"):
        big = np.full((2 * a.shape[0],) + a.shape[1:], fill, dtype=dt)
        big[::2] = a
        return big[::2], big
    if form == "cols":
        big = np.full((a.shape[0], 2 * a.shape[1]), fill, dtype=dt)
        big[:, ::2] = a
        return big[:, ::2], big
    if form == "rev":
        if a.ndim == 2:
            big = a[::-1, ::-1].copy()
            return big[::-1, ::-1], big
        big = a[::-1].copy()
        return big[::-1], big
    raise ValueError(kind)


def cell_radii_array(values, radii_kind):
    """Per-query cell radii: an integer array in the memory form of the radii kind (int32 = the
    element type the cell list works in for the float32 kinds, int64 otherwise; always writable)."""
    form = radii_kind[2:]
    return make_array(values, ("i4" if radii_kind.startswith("f4") else "i8") + (form if form in ("strided", "rev") else ""))


class Held:
    """An argument object of the caller together with a snapshot of the memory that backs it."""

    def __init__(self, name, arr, owner):
        self.name, self.arr, self.owner = name, arr, owner
        self.snapshot = owner.copy()

    def changed(self):
        import numpy as np

        return not np.array_equal(self.owner, self.snapshot)


def changed_names(held, resnap=False):
    """Names of the caller's arrays whose memory differs from the snapshot (resnap: take a new
    snapshot of those, so that a later call is charged only with what it changed itself)."""
    out = []
    for h in held:
        if h is not None and h.changed():
            out.append(h.name)
            if resnap:
                h.snapshot = h.owner.copy()
    return out


LEGACY_KINDS = {0: ("f4", "f4", "f4", "b", "f4"), 1: ("f8", "f8", "f8", "b", "f8")}


def scaled(values, scale, kind):
    """Ticks -> the numbers the array holds (integers stay integers for the integer kinds)."""
    import numpy as np

    if kind[0] == "i":
        if scale == 1:
            return values
        a = np.array(values, dtype=np.int64)
        assert (a % scale == 0).all(), "Dom_KindValues / Dom_BoxKind: integer kinds need integer values"
        return (a // scale).tolist()
    return (np.array(values, dtype=np.float64) / scale).tolist()


def build(inp, scale, variant, kinds=None, form=None, held=None):
    """Create the real CellList for a spec input.
    kinds = (coordinates, queries, radii, selection, box) kinds of the caller's arrays (default:
    float32 / float64 C-contiguous by variant); form = construction form of the specification
    <<container, own, explicit, periodic>> (default: ndarray + box= or, for variant % 3 == 2, an
    AtomArray with its own box).  The caller's arrays are appended to `held`.
    Returns (cell list, dtype of plain query arrays)."""
    import numpy as np
    import biotite.structure as struc

    atoms, cs, box, sel = inp
    if kinds is None:
        kinds = LEGACY_KINDS[variant % 2]
    if form is None:
        if variant % 3 == 2:
            form = ["aa", box, [], bool(box)]
        else:
            form = ["nd", [], box, bool(box)]
    container, own, explicit, periodic = form
    if held is None:
        held = []
    dt = np.float32 if variant % 2 == 0 else np.float64
    coord, cown = make_array(scaled(atoms, scale, kinds[0]), kinds[0])
    held.append(Held("coord", coord, cown))
    kw = {}
    if sel:
        sa, sown = make_array(sel[0], kinds[3])
        held.append(Held("selection", sa, sown))
        kw["selection"] = sa
    if explicit:
        ba, bown = make_array(scaled(explicit[0], scale, kinds[4]), kinds[4])
        held.append(Held("box", ba, bown))
        kw["box"] = ba
    if periodic:
        kw["periodic"] = True
    cell_size = cs[0] / cs[1] / scale
    if container == "aa":
        arr = struc.AtomArray(len(atoms))
        arr.coord = coord           # float32 kinds: the AtomArray keeps the caller's memory
        if own:
            oa, oown = make_array(scaled(own[0], scale, kinds[4]), kinds[4])
            held.append(Held("own_box", oa, oown))
            arr.box = oa
        return struc.CellList(arr, cell_size, **kw), dt
    return struc.CellList(coord, cell_size, **kw), dt


def rows_to_bits(res, as_mask, n):
    """Real result (2-D) -> list of bit masks; checks the padding convention."""
    import numpy as np

    res = np.asarray(res)
    out = []
    bad = None
    if as_mask:
        if res.dtype != bool or res.shape[-1] != n:
            return None, f"mask of shape {res.shape} dtype {res.dtype}"
        for row in res:
            out.append(sum(1 << k for k in np.nonzero(row)[0].tolist()))
        return out, None
    for row in res:
        row = row.tolist()
        vals = [v for v in row if v != -1]
        if any(v < 0 or v >= n for v in vals):
            bad = f"index out of range in {row}"
        # documented: trailing -1 values
        k = len(vals)
        if any(v != -1 for v in row[k:]) or any(v == -1 for v in row[:k]):
            bad = f"-1 padding is not trailing in {row}"
        out.append(sum(1 << v for v in set(vals)))
    return out, bad


def bits_to_list(b):
    return [k for k in range(b.bit_length()) if b >> k & 1]


PAIR_FORMS = ("index_distance", "index_distance_atoms", "distance_broadcast")


def pair_distance_matrix(inp, scale, variant, form):
    """The library's own pairwise distance matrix of the atoms of a spec input (minimum-image
    convention when the input is periodic), float array (n, n)."""
    import numpy as np
    import biotite.structure as struc

    atoms, _cs, box, _sel = inp
    n = len(atoms)
    dt = np.float32 if variant % 2 == 0 else np.float64
    coord = np.array(atoms, dtype=dt) / scale
    bx = np.array(box[0], dtype=dt) / scale if box else None
    pairs = np.array([[k, m] for k in range(n) for m in range(n)], dtype=int)
    if form == "index_distance":
        d = struc.index_distance(coord, pairs, periodic=bx is not None, box=bx)
    elif form == "index_distance_atoms":
        arr = struc.AtomArray(n)
        arr.coord = coord.astype(np.float32)
        if bx is not None:
            arr.box = bx.astype(np.float32)
        d = struc.index_distance(arr, pairs, periodic=bx is not None)
    elif form == "distance_broadcast":
        d = struc.distance(coord[:, np.newaxis, :], coord[np.newaxis, :, :], box=bx)
    else:
        raise ValueError(form)
    return np.asarray(d, dtype=np.float64).reshape(n, n)


def project_d2(dist, scale):
    """Distances -> squared distances in ticks^2 as integers; -1 where the value is not (within
    1e-3) an integer, i.e. cannot be the distance of two lattice points."""
    import numpy as np

    d2 = (np.asarray(dist, dtype=np.float64) * scale) ** 2
    k = np.rint(d2)
    ok = np.isfinite(d2) & (np.abs(d2 - k) <= 1e-3)
    return np.where(ok, k, -1).astype(np.int64)


def threshold_rows(dist, rad, selmask):
    """Rows (lists of indices) of the distance matrix thresholded at rad, restricted to the selection."""
    import numpy as np

    m = (dist <= rad) & selmask[:, np.newaxis] & selmask[np.newaxis, :]
    return [np.nonzero(row)[0].tolist() for row in m]


def check_input(inp, res, C, scale, variant, light, kinds=None):
    """Run every call the spec predicted for this input. Returns (mismatches, ncalls, diag).
    One set of argument objects (query array, per-query radii arrays, cell radii array) of the
    given kinds serves all calls on the cell list; after every call the arrays it was given, and
    at the end the arrays the cell list was constructed from, are compared with their snapshots
    (ArgsAfter of the specification: every call leaves the caller's arrays as they are)."""
    import numpy as np

    from harness.tlabind.pool import progress

    Q, R, CR, MS = C
    near_p, multi_p, must_p, cells_p, adj, pair = res[0]
    nq = len(Q)
    n = len(inp[0])
    mism = []
    calls = 0
    diag_cells = 0
    if kinds is None:
        kinds = LEGACY_KINDS[variant % 2]
    progress({"inp": inp, "scale": scale, "variant": variant, "kinds": kinds, "call": "construct"})
    con_held = []
    cl, dt = build(inp, scale, variant, kinds=kinds, held=con_held)
    hq = Held("coord_query", *make_array(scaled(Q, scale, kinds[1]), kinds[1]))
    qarr = hq.arr
    hrads = [Held("radius", *make_array([radius_of(R[(j + 1 + shift) % len(R)], scale) for j in range(nq)], kinds[2]))
             for shift in MS]
    hcells = [Held("cell_radius", *cell_radii_array([cr] * nq, kinds[2])) for cr in CR]
    selbits = (1 << n) - 1 if not inp[3] else sum(1 << k for k, b in enumerate(inp[3][0]) if b)

    def rec(call, j, exp, got, extra=None):
        m = {"kind": "query", "what": call, "call": call, "inp": inp, "scale": scale, "variant": variant, "kinds": list(kinds),
             "query": None if j is None else Q[j],
             # the rows around the query in the batch (replay puts them into an array of the same kind)
             "window": None if j is None else [j - max(0, j - 2), Q[max(0, j - 2):j + 3]],
             "expected": bits_to_list(exp) if isinstance(exp, int) else exp,
             "observed": bits_to_list(got) if isinstance(got, int) else got}
        if extra:
            m.update(extra)
        mism.append(m)

    reported = set()

    def frame(call, held, extra=None):
        """ArgsAfter: the arrays handed to the call hold the values they held before."""
        for name in changed_names(held):
            if name not in reported:      # one record per array is enough
                reported.add(name)
                rec("callers_array_changed", None, f"{name} unchanged by {call}", f"{name} changed by {call}",
                    dict(extra or {}, array=name, by=call))

    def compare(call, exp_row, got_row, note, extra=None):
        if note:
            rec(call, None, "well-formed result", note, extra)
            return
        if len(got_row) != len(exp_row):
            rec(call, None, f"{len(exp_row)} rows", f"{len(got_row)} rows", extra)
            return
        for j, (e, g) in enumerate(zip(exp_row, got_row)):
            if e != g:
                rec(call, j, e, g, extra)
                return  # one record per call is enough

    for as_mask in (False, True):
        # scalar radius, batched coordinates
        for r, rho in enumerate(R):
            if light and (r + as_mask) % 2:
                continue
            rad = radius_of(rho, scale)
            exp = unpack_row(near_p[r], nq)
            progress({"inp": inp, "scale": scale, "variant": variant, "call": "get_atoms", "rho": rho, "as_mask": as_mask})
            got, note = rows_to_bits(cl.get_atoms(qarr, rad, as_mask=as_mask), as_mask, n)
            calls += 1
            compare("get_atoms", exp, got, note, {"rho": rho, "as_mask": as_mask, "batched": True})
            frame("get_atoms", [hq], {"rho": rho, "as_mask": as_mask})
        # per-query radii: the same radii array object serves the index and the mask call
        for s, shift in enumerate(MS):
            exp = unpack_row(multi_p[s], nq)
            progress({"inp": inp, "scale": scale, "variant": variant, "kinds": kinds, "call": "get_atoms_multi", "shift": shift, "as_mask": as_mask})
            got, note = rows_to_bits(cl.get_atoms(qarr, hrads[s].arr, as_mask=as_mask), as_mask, n)
            calls += 1
            compare("get_atoms_multi", exp, got, note, {"shift": shift, "as_mask": as_mask})
            frame("get_atoms_multi", [hq, hrads[s]], {"shift": shift, "as_mask": as_mask})
        # cell queries: superset of must, subset of the selection; implementation-shaped
        # prediction only as a diagnostic
        for c, cr in enumerate(CR):
            must = unpack_row(must_p[c], nq)
            pred = unpack_row(cells_p[c], nq)
            progress({"inp": inp, "scale": scale, "variant": variant, "call": "get_atoms_in_cells", "c": cr, "as_mask": as_mask})
            if c % 2 == 0:
                got, note = rows_to_bits(cl.get_atoms_in_cells(qarr, cr, as_mask=as_mask), as_mask, n)
            else:
                got, note = rows_to_bits(cl.get_atoms_in_cells(qarr, hcells[c].arr, as_mask=as_mask), as_mask, n)
            calls += 1
            frame("get_atoms_in_cells", [hq, hcells[c]], {"c": cr, "as_mask": as_mask})
            if note:
                rec("get_atoms_in_cells", None, "well-formed result", note, {"c": cr, "as_mask": as_mask})
                continue
            for j in range(nq):
                if (must[j] & ~got[j]) or (got[j] & ~selbits):
                    rec("get_atoms_in_cells", j, must[j], got[j], {"c": cr, "as_mask": as_mask, "relation": "must <= observed <= selection"})
                    break
            diag_cells += sum(1 for j in range(nq) if pred[j] != got[j])
    # single coordinates (shape (3,)): a deterministic subset of the queries
    step = 17 if light else 5
    for j in range((variant * 3) % step, nq, step):
        r = (j + variant) % len(R)
        rho = R[r]
        exp = unpack_row(near_p[r], nq)[j]
        for as_mask in (False, True):
            progress({"inp": inp, "scale": scale, "variant": variant, "call": "get_atoms_single", "rho": rho, "q": Q[j], "as_mask": as_mask})
            out = cl.get_atoms(qarr[j], radius_of(rho, scale), as_mask=as_mask)
            calls += 1
            frame("get_atoms_single", [hq], {"rho": rho, "as_mask": as_mask})
            if np.asarray(out).ndim != 1:
                rec("get_atoms_single", j, "1-D result", f"shape {np.asarray(out).shape}", {"rho": rho, "as_mask": as_mask})
                continue
            got, note = rows_to_bits(np.asarray(out)[np.newaxis, :], as_mask, n)
            if note or got[0] != exp:
                rec("get_atoms_single", j, exp, note or got[0], {"rho": rho, "as_mask": as_mask, "batched": False})
    # adjacency matrices
    for r, rho in enumerate(R):
        if light and r % 3:
            continue
        progress({"inp": inp, "scale": scale, "variant": variant, "call": "create_adjacency_matrix", "rho": rho})
        m = cl.create_adjacency_matrix(radius_of(rho, scale))
        calls += 1
        if m.shape != (n, n) or m.dtype != bool:
            rec("create_adjacency_matrix", None, f"bool ({n},{n})", f"{m.dtype} {m.shape}", {"rho": rho})
            continue
        got = [sum(1 << k for k in np.nonzero(row)[0].tolist()) for row in m]
        if got != adj[r]:
            rec("create_adjacency_matrix", None, [bits_to_list(b) for b in adj[r]], [bits_to_list(b) for b in got], {"rho": rho})
        elif not (m == m.T).all():
            rec("create_adjacency_matrix", None, "symmetric", "asymmetric", {"rho": rho})
    # the arrays the cell list was made from (coordinates, box, selection) after all calls
    frame("the calls on the cell list", con_held + [hq] + hrads + hcells)
    # the pairwise distance matrix of the library's own distance functions: its entries are
    # the spec's squared distances and, thresholded (and restricted to the selection), it is
    # the adjacency matrix.  For a box outside Dom_Images8 (pair_exact false) entries may be
    # larger, i.e. the thresholded matrix is only contained in the adjacency matrix.
    pd2, pair_exact = pair
    selmask = np.array([bool(selbits >> k & 1) for k in range(n)])
    for f, form in enumerate(PAIR_FORMS):
        progress({"inp": inp, "scale": scale, "variant": variant, "call": "pair_distance", "form": form})
        dist = pair_distance_matrix(inp, scale, variant, form)
        calls += 1
        got2 = project_d2(dist, scale).tolist()
        bad = [(k, m) for k in range(n) for m in range(n)
               if (got2[k][m] != pd2[k][m] if pair_exact else got2[k][m] < pd2[k][m])]
        if bad:
            k, m = bad[0]
            rec("pair_distance", None, pd2, got2, {"form": form, "pair": [k, m], "pair_exact": pair_exact,
                                                   "relation": "observed = expected" if pair_exact else "observed >= expected"})
            continue
        for r, rho in enumerate(R):
            got = [sum(1 << v for v in row) for row in threshold_rows(dist, radius_of(rho, scale), selmask)]
            calls += 1
            if (got != adj[r]) if pair_exact else any(g & ~e for g, e in zip(got, adj[r])):
                rec("distance_matrix_threshold", None, [bits_to_list(b) for b in adj[r]], [bits_to_list(b) for b in got],
                    {"form": form, "rho": rho, "pair_exact": pair_exact,
                     "relation": "observed = expected" if pair_exact else "observed <= expected"})
                break
    return mism, calls, diag_cells


_CONST = {}


def warmup():
    import biotite.structure  # noqa: F401

    if "C14_CONST" in os.environ and not _CONST:
        with open(os.environ["C14_CONST"]) as f:
            _CONST.update(json.load(f))      # {"grid": [Q, R, CR, MS], "few": [QP, R, CR, MS]}


def kinds_for(idx, scale, K):
    """The kinds of the caller's arrays for the idx-th input of the exhaustive families: every kind
    of the specification that must be served (not in RefusableKinds) and can hold the values
    (Dom_KindValues: integer kinds only for integer ticks, never for the radii, which include
    irrational ones), cycled so that all pairs (coordinate kind, query kind) occur."""
    ck = [k for k, i, r in zip(K["coord"], K["coord_int"], K["coord_refusable"]) if not r and (scale == 1 or not i)]
    rk = [k for k, i, r in zip(K["radii"], K["radii_int"], K["radii_refusable"]) if not r and not i]
    a = len(ck)
    return [ck[idx % a], ck[(idx + idx // a) % a], rk[(idx // 2) % len(rk)], K["sel"][0], ck[(idx * 5 + 2) % a]]


def exec_group(item):
    """S2 pool item: a slice of the dumped states (stored in the item's own file)."""
    warmup()
    with open(item["file"]) as f:
        states = json.load(f)
    mism = []
    calls = 0
    diag = 0
    used = {}
    for k, (inp, res, tag) in enumerate(states):
        idx = item["lo"] + k
        scale = SCALES[idx % len(SCALES)]
        kinds = kinds_for(idx, scale, _CONST["kinds"])
        for pos, kd in enumerate(kinds):
            used[f"{pos}:{kd}"] = used.get(f"{pos}:{kd}", 0) + 1
        try:
            m, c, d = check_input(inp, res, _CONST[tag], scale, idx, item["light"] and tag == "grid", kinds)
        except Exception as e:      # a public call raised on a well-formed input
            if not _from_biotite(e):
                raise
            m, c, d = [{"kind": "exception", "inp": inp, "scale": scale, "variant": idx, "kinds": kinds, "error": repr(e)}], 0, 0
        mism += m
        calls += c
        diag += d
    return {"mismatch": mism, "calls": calls, "diag_cells": diag, "inputs": len(states), "kinds_used": used}


# --------------------------------------------------------------------------- S2: sessions
SESSION_CALLS = {
    # op of the specification -> (method, per-query argument, as_mask)
    "near": ("get_atoms", None, False), "near_mask": ("get_atoms", None, True),
    "multi": ("get_atoms", "rho", False), "multi_mask": ("get_atoms", "rho", True),
    "single": ("get_atoms", "single", False),
    "cells": ("get_atoms_in_cells", None, False), "cells_multi_mask": ("get_atoms_in_cells", "cells", True),
    "adj": ("create_adjacency_matrix", None, True),
}


def _call_outcome(fn):
    """('ok', result) or ('Rejected', repr) when the library raised; driver errors propagate."""
    try:
        return "ok", fn()
    except Exception as e:
        if not _from_biotite(e):
            raise
        return "Rejected", repr(e)


def run_session(case, con, args, hist, res, idx):
    """One complete history of the session model against the real CellList: one cell list, one
    set of argument objects for all calls.  Returns (mismatch records, calls made, outcomes)."""
    import numpy as np

    from harness.tlabind.pool import progress

    atoms, cs, sel, form, kinds = case
    Q, rhos, r0, cells, c0 = args
    n = len(atoms)
    int_kind = any(kinds[i][0] == "i" for i in (0, 1, 2, 4))
    scale = 1 if int_kind else SCALES[idx % len(SCALES)]
    selbits = (1 << n) - 1 if not sel else sum(1 << k for k, b in enumerate(sel[0]) if b)
    mism = []
    base = {"kind": "session", "case": case, "con": con, "args": args, "hist": hist, "res": res, "scale": scale, "idx": idx}

    def rec(what, pos, exp, got, **extra):
        mism.append(dict(base, what=what, position=pos, expected=exp, observed=got, **extra))

    progress(dict(base, call="construct"))
    held = []
    oc, cl = _call_outcome(lambda: build([atoms, cs, [], sel], scale, 0, kinds=kinds, form=form, held=held)[0])
    if oc != con[0] and not (con[0] == "ok" and con[1]):
        rec("construction_outcome", 0, con[0], oc, detail=cl if oc == "Rejected" else None)
    for name in changed_names(held):
        rec("callers_array_changed", 0, f"{name} unchanged by the constructor", f"{name} changed", array=name)
    if oc != "ok" or con[0] != "ok":
        return mism, 0, {"construct_" + oc: 1}
    hq = Held("coord_query", *make_array(scaled(Q, scale, kinds[1]), kinds[1]))
    hr = Held("radius", *make_array([radius_of(r, scale) if kinds[2][0] != "i" else int(radius_of(r, scale)) for r in rhos], kinds[2]))
    hc = Held("cell_radius", *cell_radii_array(cells, kinds[2]))
    held += [hq, hr, hc]
    outcomes = {"construct_ok": 1}
    reported = set()
    ncalls = 0
    for pos, (op, (exp, relation, may_refuse)) in enumerate(zip(hist, res), start=1):
        method, per_query, as_mask = SESSION_CALLS[op]
        progress(dict(base, call=op, position=pos))
        if method == "create_adjacency_matrix":
            oc, out = _call_outcome(lambda: cl.create_adjacency_matrix(radius_of(r0, scale)))
        elif method == "get_atoms":
            if per_query == "single":
                oc, out = _call_outcome(lambda: cl.get_atoms(hq.arr[0], radius_of(r0, scale), as_mask=as_mask))
            elif per_query == "rho":
                oc, out = _call_outcome(lambda: cl.get_atoms(hq.arr, hr.arr, as_mask=as_mask))
            else:
                oc, out = _call_outcome(lambda: cl.get_atoms(hq.arr, radius_of(r0, scale), as_mask=as_mask))
        else:
            if per_query == "cells":
                oc, out = _call_outcome(lambda: cl.get_atoms_in_cells(hq.arr, hc.arr, as_mask=as_mask))
            else:
                oc, out = _call_outcome(lambda: cl.get_atoms_in_cells(hq.arr, c0, as_mask=as_mask))
        ncalls += 1
        outcomes[op + "_" + oc] = outcomes.get(op + "_" + oc, 0) + 1
        for name in changed_names(held):
            if name not in reported:
                reported.add(name)
                rec("callers_array_changed", pos, f"{name} unchanged by {op}", f"{name} changed", array=name, op=op)
        if oc != "ok":
            if not may_refuse:
                rec("call_outcome", pos, "ok", oc, op=op, detail=out)
            continue
        out = np.asarray(out)
        if per_query == "single":
            if out.ndim != 1:
                rec("answer", pos, "1-D result", f"shape {out.shape}", op=op)
                continue
            out = out[np.newaxis, :]
        got, note = rows_to_bits(out, as_mask, n)
        if note or len(got) != len(exp):
            rec("answer", pos, "well-formed result", note or f"{len(got)} rows", op=op)
        elif relation == "equals":
            if got != exp:
                rec("answer", pos, [bits_to_list(b) for b in exp], [bits_to_list(b) for b in got], op=op, relation=relation)
        elif any((e & ~g) or (g & ~selbits) for e, g in zip(exp, got)):
            rec("answer", pos, [bits_to_list(b) for b in exp], [bits_to_list(b) for b in got], op=op,
                relation="expected <= observed <= selection")
    return mism, ncalls, outcomes


def parse_session_dump(path):
    """Complete histories of the CellSession model: [case, con, args, hist, res]."""
    out = []
    with open(path) as f:
        blob = f.read()
    for block in re.split(r"^State \d+:\n", blob, flags=re.M):
        if not block.strip():
            continue
        v = {m.group(1): tla_to_py(m.group(2)) for m in re.finditer(r"/\\ (\w+) = (.*?)(?=\n/\\ |\Z)", block.strip(), flags=re.S)}
        out.append([v["sesCase"], v["sesCon"], v["sesArgs"], v["sesHist"], v["sesRes"]])
    return out


def exec_sessions(item):
    """S2 pool item: a slice of the complete histories."""
    warmup()
    with open(item["file"]) as f:
        sessions = json.load(f)
    mism = []
    calls = 0
    outcomes = {}
    for k, (case, con, args, hist, res) in enumerate(sessions):
        m, c, oc = run_session(case, con, args, hist, res, item["lo"] + k)
        mism += m
        calls += c
        for key, v in oc.items():
            outcomes[key] = outcomes.get(key, 0) + v
    return {"mismatch": mism, "calls": calls, "sessions": len(sessions), "outcomes": outcomes}


STAGE_OF = {"group": "S2", "sessions": "S2-session", "trace": "S3"}


def exec_item(item):
    """Pool target: dispatches on the type of the item."""
    if item["type"] == "group":
        return exec_group(item)
    if item["type"] == "sessions":
        return exec_sessions(item)
    return gen_trace(item)


def run_items(ctx, items, env):
    """helpers.run_pool for items of mixed type (the stage of a record is the stage of its item)."""
    from harness.tlabind import pool

    results = pool.run_isolated("harness.drivers.c14:exec_item", items, env=env, item_timeout=600, procs=16)
    for it, r in zip(items, results):
        stage = STAGE_OF[it["type"]]
        if r is None:
            raise RuntimeError(f"{stage}: missing result")
        if "driver_error" in r:
            raise RuntimeError(f"{stage}: driver error {r['driver_error']}\n{r.get('tb', '')}")
        if "crash" in r:
            ctx.mismatch({"stage": stage, "kind": "crash", "signal": r["crash"], "progress": r.get("progress"), "item": it})
            continue
        for mm in r.get("mismatch", ()):
            mm.setdefault("stage", stage)
            ctx.mismatch(mm)
    return results


# --------------------------------------------------------------------------- S3 recording
BOXES = [
    [[4, 0, 0], [0, 4, 0], [0, 0, 4]],
    [[2, 0, 0], [0, 4, 0], [0, 0, 8]],
    [[4, 0, 0], [2, 4, 0], [0, 0, 4]],
    [[4, 0, 0], [0, 4, 0], [2, -2, 4]],
    [[2, 2, 0], [-2, 2, 0], [0, 0, 4]],
    [[8, 0, 0], [0, 4, 0], [0, 0, 4]],
    [[8, 0, 0], [-2, 4, 0], [2, 2, 4]],
    [[0, 4, 0], [4, 0, 0], [0, 0, 4]],
    # one box per remaining tilt pattern (which pairs of box vectors are not perpendicular)
    [[4, 0, 0], [0, 4, 0], [2, 0, 4]],
    [[4, 0, 0], [0, 4, 0], [0, 2, 4]],
    [[4, 0, 0], [2, 4, 0], [2, -1, 4]],
    [[4, 0, 0], [2, 4, 0], [0, 2, 4]],
]
CELLS = [[1, 1], [3, 2], [2, 1], [5, 1], [1, 2], [3, 1], [7, 2], [16, 1]]


def _rand_rho(rng, big):
    if rng.random() < 0.45:
        r = rng.choice([0, 1, 2, 3, 4, 5, 7] + ([12, 30] if big else []))
        return [r * r, 1]
    k = rng.choice([0, 1, 2, 3, 5, 8, 13, 20, 33] + ([60, 150] if big else []))
    return [2 * k + 1, 2]



def _from_biotite(exc):
    """True when the exception was raised inside the library (not in this driver)."""
    import traceback

    frames = traceback.extract_tb(exc.__traceback__)
    return any("biotite" in f.filename and "/harness/" not in f.filename for f in frames)


def _guarded(fn):
    """An exception raised by the library on a well-formed recorded call is a disagreement, not a
    machinery failure; an exception of the driver itself stays a driver error."""
    import functools

    @functools.wraps(fn)
    def wrapper(item):
        try:
            return fn(item)
        except Exception as e:
            if not _from_biotite(e):
                raise
            import traceback

            return {"events": [], "mismatch": [{"kind": "exception", "stage": "S3", "item": item, "error": repr(e),
                                                "where": traceback.format_exc()[-600:]}]}
    return wrapper


def eff_box(form):
    """The box the driver hands to the library's distance functions for a construction form.  It
    is recorded as box_used and TLC requires it to be EffBox(form) of the specification."""
    _container, own, explicit, periodic = form
    if not periodic:
        return []
    return explicit if explicit else own


@_guarded
def gen_trace(item):
    """Build a seeded system, run the real CellList, log the calls.  A trace is a session: the
    construction form and the kinds of the caller's arrays are drawn at random, argument arrays
    are kept and used again by later calls, and after every call all arrays of the session are
    compared with their snapshots."""
    import numpy as np

    from harness.tlabind.pool import progress

    warmup()
    K = _CONST["kinds"]
    rng = random.Random(item["seed"])
    scale = rng.choice([1, 2, 2, 4])
    nmax = item["nmax"]
    n = rng.choice([1, 2, 3, 5, 8, 13, 21, 34, nmax][: 9 if nmax >= 34 else 6])
    n = min(n, nmax)
    shape = rng.choice(["cloud", "cluster", "line", "dups", "plane"])
    # construction form: container, own box of the AtomArray, box= parameter, periodic flag
    container = rng.choice(["nd", "aa"])
    periodic = rng.random() < 0.5
    own = [rng.choice(BOXES)] if container == "aa" and rng.random() < 0.6 else []
    explicit = [rng.choice(BOXES)] if rng.random() < (0.55 if periodic else 0.25) else []
    if periodic and not own and not explicit and rng.random() < 0.9:
        explicit = [rng.choice(BOXES)]          # (a periodic list without any box must be refused: kept rare)
    form = [container, own, explicit, periodic]
    lo, hi = (-3, 9) if not periodic else (-6, 12)

    def pick_kind(names, ints, refusable, int_ok):
        cand = [k for k, i, r in zip(names, ints, refusable) if (int_ok or not i) and (not r or rng.random() < 0.08)]
        return rng.choice(cand)

    def coord_kind():
        return pick_kind(K["coord"], K["coord_int"], K["coord_refusable"], scale == 1)

    pts = []
    c0 = [rng.randint(lo, hi) for _ in range(3)]
    d0 = rng.choice([[1, 0, 0], [0, 1, 0], [1, 1, 0], [1, 2, -1], [0, 0, 2]])
    for k in range(n):
        if shape == "cloud":
            p = [rng.randint(lo, hi) for _ in range(3)]
        elif shape == "cluster":
            p = [c0[i] + rng.randint(-1, 1) for i in range(3)]
        elif shape == "line":
            t = rng.randint(-4, 4)
            p = [c0[i] + t * d0[i] for i in range(3)]
        elif shape == "plane":
            p = [rng.randint(lo, hi), rng.randint(lo, hi), c0[2]]
        else:
            p = pts[rng.randrange(len(pts))][:] if pts and rng.random() < 0.6 else [rng.randint(lo, hi) for _ in range(3)]
        pts.append(p)
    cs = rng.choice(CELLS)
    sel = []
    if rng.random() < 0.35 and n >= 2:
        m = [rng.random() < 0.6 for _ in range(n)]
        if not any(m):
            m[rng.randrange(n)] = True
        sel = [m]
    # an integer-typed box is possible whenever its ticks are whole numbers at this scale (Dom_BoxKind),
    # also when the coordinates lie on the half or quarter lattice
    box_int_ok = all(v % scale == 0 for b in own + explicit for row in b for v in row)
    if box_int_ok and scale > 1 and (own or explicit) and rng.random() < 0.5:
        box_kind = rng.choice([k for k, i, r in zip(K["coord"], K["coord_int"], K["coord_refusable"]) if i and not r])
    else:
        box_kind = pick_kind(K["coord"], K["coord_int"], K["coord_refusable"], box_int_ok)
    kinds = [coord_kind(), "f4", "f4", pick_kind(K["sel"], K["sel_int"], K["sel_refusable"], False), box_kind]
    box = eff_box(form)
    inp = [pts, cs, box, sel]
    variant = rng.randrange(6)
    con = {"op": "construct", "atoms": pts, "cs": cs, "sel": sel, "container": container, "own": own, "box": explicit,
           "periodic": periodic, "form": form, "kinds": kinds, "scale": scale, "variant": variant}
    events = [con]
    progress({"inp": inp, "form": form, "kinds": kinds, "scale": scale, "variant": variant, "call": "construct"})
    held = []
    oc, cl = _call_outcome(lambda: build([pts, cs, [], sel], scale, variant, kinds=kinds, form=form, held=held))
    con["out"] = oc
    con["changed"] = changed_names(held)
    if oc != "ok":
        con["error"] = cl
        return {"events": events}
    cl, dt = cl

    def rand_q():
        k = rng.random()
        if k < 0.5:
            return [rng.randint(lo - 3, hi + 3) for _ in range(3)]
        if k < 0.75 and pts:
            p = pts[rng.randrange(n)]
            return [p[i] + rng.randint(-1, 1) for i in range(3)]
        if k < 0.9:
            return [rng.choice([-40, 55, 0, 3]) for _ in range(3)]
        return pts[rng.randrange(n)][:]

    # argument objects of the session: query arrays, each with radii / cell radii arrays of its length
    pool_q = []

    def query_object():
        if pool_q and rng.random() < 0.55:
            return rng.choice(pool_q)
        vals = [rand_q() for _ in range(rng.randint(1, 8))]
        kind = coord_kind()
        ent = {"q": vals, "kind": kind, "held": Held("coord_query", *make_array(scaled(vals, scale, kind), kind)), "rads": [], "cells": []}
        held.append(ent["held"])
        if len(pool_q) < 3:
            pool_q.append(ent)
        return ent

    def radii_object(ent):
        if ent["rads"] and rng.random() < 0.6:
            return rng.choice(ent["rads"])
        rho = [_rand_rho(rng, True) for _ in ent["q"]]
        kind = pick_kind(K["radii"], K["radii_int"], K["radii_refusable"], scale == 1 and all(r[1] == 1 for r in rho))
        vals = [int(radius_of(r, scale)) if kind[0] == "i" else radius_of(r, scale) for r in rho]
        ro = {"rho": rho, "kind": kind, "held": Held("radius", *make_array(vals, kind))}
        held.append(ro["held"])
        ent["rads"].append(ro)
        return ro

    def cells_object(ent):
        if ent["cells"] and rng.random() < 0.6:
            return rng.choice(ent["cells"])
        c = [rng.randint(0, 3) for _ in ent["q"]]
        kind = rng.choice([k for k, i in zip(K["radii"], K["radii_int"]) if not i and not k.endswith("ro")])
        co = {"c": c, "kind": kind, "held": Held("cell_radius", *cell_radii_array(c, kind))}
        held.append(co["held"])
        ent["cells"].append(co)
        return co

    def idx_rows(res, as_mask, single):
        res = np.asarray(res)
        if single:
            res = res[np.newaxis, :]
        rows = []
        for row in res:
            if as_mask:
                rows.append(np.nonzero(row)[0].tolist())
            else:
                rows.append(sorted(set(v for v in row.tolist() if v != -1)))
        return rows

    def finish(ev, oc, out, as_mask=False, single=False):
        ev["out"] = oc
        ev["changed"] = changed_names(held, resnap=True)
        ev["got"] = idx_rows(out, as_mask, single) if oc == "ok" else []
        if oc != "ok":
            ev["error"] = out
        events.append(ev)

    for _ in range(item["length"]):
        k = rng.random()
        as_mask = rng.random() < 0.4
        if k < 0.55:
            ent = query_object()
            single = rng.random() < 0.25
            multi = (not single) and rng.random() < 0.5
            m = 1 if single else len(ent["q"])
            q = ent["q"][:m]
            qa = ent["held"].arr
            ev = {"op": "get_atoms", "q": q, "as_mask": as_mask, "single": single, "multi": multi, "qk": ent["kind"], "rk": "f4"}
            progress({"inp": inp, "form": form, "kinds": kinds, "scale": scale, "variant": variant, "call": "get_atoms", "event": ev})
            if multi:
                ro = radii_object(ent)
                ev.update(rho=ro["rho"], rk=ro["kind"])
                oc, out = _call_outcome(lambda: cl.get_atoms(qa, ro["held"].arr, as_mask=as_mask))
            else:
                rho = _rand_rho(rng, True)
                ev["rho"] = [rho] * m
                oc, out = _call_outcome(lambda: cl.get_atoms(qa[0] if single else qa, radius_of(rho, scale), as_mask=as_mask))
            finish(ev, oc, out, as_mask, single)
        elif k < 0.85:
            ent = query_object()
            single = rng.random() < 0.25
            multi = (not single) and rng.random() < 0.5
            m = 1 if single else len(ent["q"])
            qa = ent["held"].arr
            ev = {"op": "cells", "q": ent["q"][:m], "as_mask": as_mask, "single": single, "multi": multi, "qk": ent["kind"], "rk": "f4"}
            progress({"inp": inp, "form": form, "kinds": kinds, "scale": scale, "variant": variant, "call": "get_atoms_in_cells", "event": ev})
            if multi:
                co = cells_object(ent)
                ev.update(c=co["c"], rk=co["kind"])
                oc, out = _call_outcome(lambda: cl.get_atoms_in_cells(qa, co["held"].arr, as_mask=as_mask))
            else:
                c = rng.randint(0, 3)
                ev["c"] = [c] * m
                oc, out = _call_outcome(lambda: cl.get_atoms_in_cells(qa[0] if single else qa, c, as_mask=as_mask))
            finish(ev, oc, out, as_mask, single)
        elif k < 0.93:
            rho = _rand_rho(rng, False)
            ev = {"op": "adjacency", "rho": rho, "qk": "f4", "rk": "f4"}
            progress({"inp": inp, "form": form, "kinds": kinds, "scale": scale, "variant": variant, "call": "create_adjacency_matrix", "rho": rho})
            oc, out = _call_outcome(lambda: cl.create_adjacency_matrix(radius_of(rho, scale)))
            finish(ev, oc, out, True, False)
        else:
            # the library's own pairwise distance matrix: entries (projected to integer squared
            # distances, -1 = not a lattice distance) and its thresholded form
            pform = rng.choice(PAIR_FORMS)
            rho = _rand_rho(rng, False)
            progress({"inp": inp, "form": form, "scale": scale, "variant": variant, "call": "pair_distance", "pform": pform, "rho": rho})
            try:
                dist = pair_distance_matrix(inp, scale, variant, pform)
            except Exception as e:      # a public call raised on a well-formed input
                if not _from_biotite(e):
                    raise
                return {"events": events, "mismatch": [{"kind": "exception", "stage": "S3", "inp": inp, "scale": scale,
                                                        "variant": variant, "error": repr(e)}]}
            d2 = project_d2(dist, scale)
            prs = [[rng.randrange(n), rng.randrange(n)] for _ in range(min(n * n, 40))]
            common = {"form": pform, "box_used": box, "qk": "f4", "rk": "f4", "out": "ok", "changed": changed_names(held, resnap=True)}
            events.append(dict(common, op="pairdist", pairs=prs, got=[int(d2[a][b]) for a, b in prs]))
            selmask = np.array(sel[0], dtype=bool) if sel else np.ones(n, dtype=bool)
            events.append(dict(common, op="distadj", rho=rho, got=threshold_rows(dist, radius_of(rho, scale), selmask)))
    return {"events": events}


# --------------------------------------------------------------------------- verdict plumbing
def classify(mm):
    return None   # no known findings for C14


def replay(record):
    """Re-execute one stored mismatch against the current code."""
    import numpy as np

    if record.get("kind") == "session":
        # the whole history again: one cell list, one set of argument objects
        case, args, hist = record["case"], record["args"], record["hist"]
        if "res" not in record:
            return {"error": "session record without the expected answers; rerun the check", "record": record}
        mism, ncalls, outcomes = run_session(case, record["con"], args, hist, record["res"], record["idx"])
        return {"mismatch": bool(mism), "calls": ncalls, "outcomes": outcomes, "disagreements": mism[:5]}
    if record.get("kind") == "query":
        inp, scale, variant = record["inp"], record["scale"], record["variant"]
        kinds = record.get("kinds")
        if record["call"] == "callers_array_changed":
            return {"error": "a changed caller's array is observed while the whole input is checked; rerun the check", "record": record}
        cl, dt = build(inp, scale, variant, kinds=kinds)
        call = record["call"]
        out = {"call": call, "expected": record["expected"]}
        n = len(inp[0])
        pos = None
        if kinds and record.get("query") is not None:
            # the query point in an array of the recorded kind, with its neighbours in the batch
            # (the memory around a point matters for defects in the handling of strides); a
            # batched call is repeated as a batched call and the row of the point is compared
            pos, rows = record.get("window") or [0, [record["query"]]]
            qk = make_array(scaled(rows, scale, kinds[1]), kinds[1])[0]
            if call == "get_atoms_single":
                qk, pos = qk[pos], None
        else:
            qk = None

        def row(res):
            res = np.asarray(res)
            return sorted(set(v for v in (res if pos is None else res[pos]).tolist() if v != -1))

        if call in ("get_atoms", "get_atoms_single") and record.get("query") is not None:
            q = qk if qk is not None else np.array(record["query"], dtype=dt) / scale
            got = row(cl.get_atoms(q, radius_of(record["rho"], scale)))
            out.update(observed=got, mismatch=got != record["expected"])
            return out
        if call == "get_atoms_in_cells" and record.get("query") is not None:
            q = qk if qk is not None else np.array(record["query"], dtype=dt) / scale
            got = row(cl.get_atoms_in_cells(q, record["c"]))
            out.update(observed=got, mismatch=not set(record["expected"]) <= set(got))
            return out
        if call == "create_adjacency_matrix":
            m = cl.create_adjacency_matrix(radius_of(record["rho"], scale))
            got = [np.nonzero(row)[0].tolist() for row in m]
            out.update(observed=got, mismatch=got != record["expected"])
            return out
        if call in ("pair_distance", "distance_matrix_threshold"):
            import numpy as np

            dist = pair_distance_matrix(inp, scale, variant, record["form"])
            exact = record["pair_exact"]
            if call == "pair_distance":
                got = project_d2(dist, scale).tolist()
                exp = record["expected"]
                bad = any((g != e) if exact else (g < e) for gr, er in zip(got, exp) for g, e in zip(gr, er))
            else:
                selmask = np.array(inp[3][0], dtype=bool) if inp[3] else np.ones(n, dtype=bool)
                got = threshold_rows(dist, radius_of(record["rho"], scale), selmask)
                exp = record["expected"]
                bad = any((g != e) if exact else (not set(g) <= set(e)) for g, e in zip(got, exp))
            out.update(observed=got, relation=record["relation"], mismatch=bad)
            return out
        return {"error": "record not replayable in isolation; rerun the check", "record": record}
    if record.get("kind") == "event":
        tr = record["trace"]
        first = tr[0]
        e = record["event"]
        scale = first["scale"]
        if isinstance(record["expected"], str):
            return {"error": f"'{record['expected']}' is observed in the course of a session; rerun the check", "record": record}
        inp = [first["atoms"], first["cs"], eff_box(first["form"]), first["sel"]]
        cl, dt = build([first["atoms"], first["cs"], [], first["sel"]], scale, first["variant"], kinds=first["kinds"], form=first["form"])
        if e["op"] == "get_atoms":
            j = max(record["position"] - 1, 0)
            # the batch again, in arrays of the recorded kinds (first use of fresh argument objects)
            qa = make_array(scaled(e["q"], scale, e.get("qk", "f8")), e.get("qk", "f8"))[0]
            if e.get("multi"):
                rk = e.get("rk", "f8")
                ra = make_array([int(radius_of(r, scale)) if rk[0] == "i" else radius_of(r, scale) for r in e["rho"]], rk)[0]
                got = np.asarray(cl.get_atoms(qa, ra))[j]
            elif e.get("single"):
                got = np.asarray(cl.get_atoms(qa[0], radius_of(e["rho"][0], scale)))
            else:
                got = np.asarray(cl.get_atoms(qa, radius_of(e["rho"][0], scale)))[j]
            got = sorted(set(v for v in got.tolist() if v != -1))
            return {"observed": got, "expected": record["expected"], "mismatch": got != record["expected"]}
        if e["op"] == "adjacency":
            m = cl.create_adjacency_matrix(radius_of(e["rho"], scale))
            a = max(record["position"] - 1, 0)
            got = np.nonzero(m[a])[0].tolist()
            return {"observed": got, "expected": record["expected"], "mismatch": got != record["expected"]}
        if e["op"] in ("pairdist", "distadj"):
            dist = pair_distance_matrix(inp, scale, first["variant"], e["form"])
            j = max(record["position"] - 1, 0)
            if e["op"] == "pairdist":
                a, b = e["pairs"][j]
                got = int(project_d2(dist, scale)[a][b])
                # (outside Dom_Images8 a larger value is allowed; every tabulated box is inside)
                return {"observed": got, "expected": record["expected"], "mismatch": got != record["expected"]}
            selmask = np.array(first["sel"][0], dtype=bool) if first["sel"] else np.ones(len(inp[0]), dtype=bool)
            got = threshold_rows(dist, radius_of(e["rho"], scale), selmask)[j]
            return {"observed": got, "expected": record["expected"], "mismatch": got != record["expected"]}
        if e["op"] == "cells":
            j = max(record["position"] - 1, 0)
            got = sorted(set(v for v in cl.get_atoms_in_cells(np.array(e["q"][j], dtype=dt) / scale, e["c"][j]).tolist() if v != -1))
            return {"observed": got, "must_contain": record["expected"], "mismatch": not set(record["expected"]) <= set(got)}
    return {"error": "unknown record kind", "record": record}


def run(ctx):
    from harness.tlabind import helpers, pool, tlc
    from harness.tlabind.core import Vacuity

    quick = ctx.quick
    ctx.assumptions += [
        "Dom_Atoms/Dom_CellSize/Dom_Sel: >=1 atom, cell size > 0, selection with >= 1 selected atom and one flag per atom",
        "coordinates, box vectors: integers divided by 1, 2 or 4 (dyadic rationals: float32 arithmetic is exact); cell sizes p/q with q in {1,2}",
        "Dom_Radius: radius is an integer (pairs exactly on the sphere allowed) or sqrt(k+1/2) (no lattice pair on the sphere)",
        "Dom_Images8: the library's pairwise distance matrix (index_distance(periodic=True), distance(box=)) must equal the minimum-image distances only for boxes in which the 8 periodic copies w + k.B, k in {-1,0}^3, of a wrapped displacement always contain a shortest one (documented limitation of the distance functions for skewed boxes); TLC evaluates this per box (true for all tabulated boxes); outside it only 'not smaller' / thresholded matrix contained in the adjacency matrix is required",
        "distances returned by the library are projected to integer squared distances in ticks^2 (|d^2 - integer| <= 1e-3, else reported as not-a-lattice-distance)",
        "Dom_Images27: periodic boxes are the twelve boxes of TabBoxes (all 8 tilt patterns), for each of which TLC checked that the 27 stored images contain a minimum image of every in-box displacement (strongly skewed boxes excluded)",
        "results are compared as sets of atom indices (padding and repeated periodic copies ignored); get_atoms_in_cells only as must <= result <= selection",
        "exhaustive model: <= 3 atoms; up to 60 atoms only through recorded executions",
        "Dom_Form: construction form = (ndarray | AtomArray) x own box (none | B) x box= (none | B) x periodic flag; the effective box is EffBox (box= overrides the own box, boxes are ignored when not periodic, periodic without any box must be refused with any exception)",
        "Dom_Kinds / Dom_KindValues: caller's arrays are float32, float64, int64, int32; C order, Fortran order, every second row / column / element of a larger array, both axes reversed, write-protected; integer kinds only where the values are integers (scale 1, integer radii)",
        "RefusableKinds: a write-protected float32 array (coordinates, queries, radii, box) and a selection that is write-protected or not contiguous may be refused by a call (any exception, nothing changed); every other kind must be answered; an answer is always judged",
        "sessions: histories of 2 (thorough 3) calls out of 8 (get_atoms scalar / per-query radii, index / mask, single position, get_atoms_in_cells scalar / per-query, adjacency matrix) on one cell list with one set of argument objects",
        "trusted: TLC, the dump parser of this driver, numpy",
    ]
    # ---- S1 (+ dump used by S2) -------------------------------------------------------
    d = tlc.scratch_dir("c14")
    prefix = os.path.join(d, "states")
    res = ctx.tlc("CellGrid", "MC.cfg" if quick else "MC_thorough.cfg", stage="S1", dump=prefix,
                  workers=16, timeout=900 if quick else 3000)
    ctx.exhaustive = True
    consts = tlc.printed_values(res.out, "C14CONST")
    if not consts:
        raise RuntimeError("C14CONST not printed by TLC")
    C = tla_to_py(consts[0].replace('"C14CONST",', "", 1))
    CONSTS = {"grid": C[:4], "few": [C[4]] + C[1:4]}
    kk = tlc.printed_values(res.out, "C14KINDS")
    if not kk:
        raise RuntimeError("C14KINDS not printed by TLC")
    KK = tla_to_py(kk[0].replace('"C14KINDS",', "", 1))
    CONSTS["kinds"] = {"coord": KK[0][0], "coord_int": KK[0][1], "coord_refusable": KK[0][2],
                       "radii": KK[1][0], "radii_int": KK[1][1], "radii_refusable": KK[1][2],
                       "sel": KK[2][0], "sel_int": KK[2][1], "sel_refusable": KK[2][2]}
    path = prefix + ".dump" if os.path.exists(prefix + ".dump") else prefix
    states = parse_dump(path)
    if 2 * len(states) != res.distinct:
        raise RuntimeError(f"dump has {len(states)} evaluated states, TLC reported {res.distinct} states")
    states.sort(key=lambda s: json.dumps(s[0]))
    npairs = sum(1 for st in states if st[2] == "few")
    ctx.log(f"S1: {len(states) - npairs} inputs x {len(C[0])} queries + {npairs} two-atom inputs (every displacement class of every box) x {len(C[4])} queries, {len(C[1])} radii")
    for inp, r, _tag in states:
        if r[1] != [True] * 5:
            # also reported by TLC as a violated invariant; keep the input for the record
            ctx.note(f"design claim false for input {inp}: {r[1]}")
    # vacuity: the families must contain periodic, selected, duplicate inputs
    kinds = {"periodic": 0, "selection": 0, "duplicates": 0, "triclinic": 0, "n3": 0, "pair_family": npairs,
             "periodic_selection": 0}
    # which pairs of box vectors are not perpendicular (a.b, a.c, b.c): all 8 patterns must occur,
    # in the query-heavy family and in the pair family, and the pair distances must be decisive
    # (some pair whose plain difference is NOT the shortest image) for each of them
    tilt = {"grid": {}, "few": {}}
    tilt_wrapped = {}
    nontrivial = 0
    for inp, r, tag in states:
        nq = len(CONSTS[tag][0])
        if inp[2]:
            b = inp[2][0]
            pat = "".join("T" if sum(b[i][k] * b[j][k] for k in range(3)) != 0 else "F" for i, j in ((0, 1), (0, 2), (1, 2)))
            tilt[tag][pat] = tilt[tag].get(pat, 0) + 1
            pd2 = r[0][5][0]
            at = inp[0]
            if any(pd2[k][m] < sum((at[k][i] - at[m][i]) ** 2 for i in range(3)) for k in range(len(at)) for m in range(len(at))):
                tilt_wrapped[pat] = tilt_wrapped.get(pat, 0) + 1
            kinds["periodic_selection"] += bool(inp[3])
        kinds["periodic"] += bool(inp[2])
        kinds["selection"] += bool(inp[3])
        kinds["duplicates"] += len({tuple(a) for a in inp[0]}) < len(inp[0])
        kinds["n3"] += len(inp[0]) == 3
        if inp[2]:
            b = inp[2][0]
            kinds["triclinic"] += any(sum(b[i][k] * b[j][k] for k in range(3)) != 0 for i, j in ((0, 1), (0, 2), (1, 2)))
        full = (1 << len(inp[0])) - 1
        rows = [unpack_row(p, nq) for p in r[0][0]]
        if any(any(v not in (0, full) for v in row) for row in rows):
            nontrivial += 1
    ctx.cov["input_kinds"] = kinds
    ctx.cov["box_tilt_patterns"] = {"grid": tilt["grid"], "pairs": tilt["few"], "with_wrapped_pair": tilt_wrapped}
    if not all(kinds.values()):
        raise Vacuity(f"input families miss a kind: {kinds}")
    allpat = {a + b + c for a in "FT" for b in "FT" for c in "FT"}
    for name, got in (("query-heavy family", tilt["grid"]), ("pair family", tilt["few"]), ("inputs with a wrapped pair", tilt_wrapped)):
        if set(got) != allpat:
            raise Vacuity(f"{name}: box tilt patterns {sorted(allpat - set(got))} never occur")
    ctx.cov["rule"] = "an input is non-trivial when some query/radius pair has a result that is neither empty nor the whole atom set"
    ctx.nontrivial += nontrivial
    # ---- S2 ------------------------------------------------------------------------------
    cfile = os.path.join(d, "const.json")
    with open(cfile, "w") as f:
        json.dump(CONSTS, f)
    per = 40
    items = []
    for lo in range(0, len(states), per):
        fn = os.path.join(d, f"s2_{lo}.json")
        with open(fn, "w") as f:
            json.dump(states[lo:lo + per], f)
        items.append({"type": "group", "lo": lo, "file": fn, "light": bool(quick)})
    # ---- sessions: construction forms x kinds of caller's arrays x histories (CellSession.tla) ------
    sprefix = os.path.join(d, "sessions")
    sres = ctx.tlc("CellSession", "MCS.cfg" if quick else "MCS_thorough.cfg", stage="S1-session", dump=sprefix,
                   workers=4, timeout=900 if quick else 3000)
    spath = sprefix + ".dump" if os.path.exists(sprefix + ".dump") else sprefix
    sstates = parse_session_dump(spath)
    if len(sstates) != sres.distinct:
        raise RuntimeError(f"session dump has {len(sstates)} states, TLC reported {sres.distinct}")
    ncalls_max = max(len(st[3]) for st in sstates)
    complete = [st for st in sstates if len(st[3]) == ncalls_max or (st[1][0] == "Rejected" and not st[3])]
    complete.sort(key=lambda st: json.dumps(st))
    sitems = []
    for lo in range(0, len(complete), 400):
        fn = os.path.join(d, f"sess_{lo}.json")
        with open(fn, "w") as f:
            json.dump(complete[lo:lo + 400], f)
        sitems.append({"type": "sessions", "lo": lo, "file": fn})
    # ---- S3 items (recorded sessions; validated by TLC below) -------------------------------------------
    ntr = 60 if quick else 1200
    length = 10 if quick else 14
    seeds = [ctx.rng.randrange(1 << 30) for _ in range(ntr)]
    titems = [{"type": "trace", "seed": s, "length": length, "nmax": 60 if k % 4 == 0 else 21} for k, s in enumerate(seeds)]
    # one pool for the three kinds of items (every pool start costs ~30 interpreter starts)
    pooled = run_items(ctx, items + sitems + titems, env={"C14_CONST": cfile})
    results = pooled[:len(items)]
    calls = sum(r.get("calls", 0) for r in results)
    diag = sum(r.get("diag_cells", 0) for r in results)
    done = sum(r.get("inputs", 0) for r in results)
    ctx.traces_validated += done
    ctx.evaluations += calls
    ctx.cov["s2_inputs"] = done
    ctx.cov["s2_calls"] = calls
    ctx.cov["s2_cell_prediction_differences"] = diag
    if diag:
        ctx.note(f"get_atoms_in_cells differs from the implementation-shaped grid prediction in {diag} rows (diagnostic: the grid layout of the code is not the modelled one)")
    if calls == 0:
        raise Vacuity("S2 executed no call")
    kinds_used = {}
    for r in results:
        for key, v in (r.get("kinds_used") or {}).items():
            kinds_used[key] = kinds_used.get(key, 0) + v
    ctx.cov["s2_array_kinds"] = {name: {k.split(":")[1]: v for k, v in sorted(kinds_used.items()) if k.startswith(f"{pos}:")}
                                 for pos, name in enumerate(("coordinates", "queries", "radii", "selection", "box"))}
    KD = CONSTS["kinds"]
    must_coord = {k for k, rf in zip(KD["coord"], KD["coord_refusable"]) if not rf}
    for name in ("coordinates", "queries", "box"):
        if set(ctx.cov["s2_array_kinds"][name]) != must_coord:
            raise Vacuity(f"S2: {name} arrays never had the kinds {sorted(must_coord - set(ctx.cov['s2_array_kinds'][name]))}")
    mid = states[len(states) // 2]
    ctx.sample({"s2_input": mid[0], "expected_near_r4_unpacked": unpack_row(mid[1][0][0][4], len(CONSTS[mid[2]][0]))[:20],
                "expected_pair_d2": mid[1][0][5][0]})
    ctx.log(f"S2: {done} inputs, {calls} calls executed against CellList")
    # ---- S2, sessions: the complete histories of CellSession.tla ---------------------------------------
    sresults = pooled[len(items):len(items) + len(sitems)]
    scalls = sum(r.get("calls", 0) for r in sresults)
    sdone = sum(r.get("sessions", 0) for r in sresults)
    outcomes = {}
    for r in sresults:
        for key, v in (r.get("outcomes") or {}).items():
            outcomes[key] = outcomes.get(key, 0) + v
    forms_seen = {json.dumps(st[0][3]) for st in complete}
    forms_override = sum(1 for st in complete if st[0][3][1] and st[0][3][2] and st[0][3][1] != st[0][3][2] and st[0][3][3])
    kinds_seen = [sorted({st[0][4][i] for st in complete}) for i in range(5)]
    hists_seen = {tuple(st[3]) for st in complete if st[3]}
    ops_seen = {op for h in hists_seen for op in h}
    ctx.traces_validated += sdone
    ctx.evaluations += scalls
    ctx.nontrivial += sum(1 for st in complete if st[3])
    ctx.cov.update({"s2_sessions": sdone, "s2_session_calls": scalls, "s2_session_call_outcomes": dict(sorted(outcomes.items())),
                    "s2_session_construction_forms": len(forms_seen), "s2_session_forms_explicit_box_overrides_own": forms_override,
                    "s2_session_array_kinds": dict(zip(("coordinates", "queries", "radii", "selection", "box"), kinds_seen)),
                    "s2_session_histories": len(hists_seen), "s2_session_history_length": ncalls_max})
    want_hist = len(ops_seen) ** ncalls_max
    if (sdone != len(complete) or scalls == 0 or forms_override == 0 or len(hists_seen) != want_hist
            or set(kinds_seen[0]) != set(KD["coord"]) or set(kinds_seen[1]) != set(KD["coord"]) or set(kinds_seen[4]) != set(KD["coord"])
            or set(kinds_seen[2]) != set(KD["radii"]) or set(kinds_seen[3]) != set(KD["sel"])
            or not outcomes.get("construct_Rejected") or not outcomes.get("multi_ok")):
        raise Vacuity(f"sessions: {sdone}/{len(complete)} replayed, {scalls} calls, {len(hists_seen)}/{want_hist} histories, "
                      f"{forms_override} overriding forms, kinds {kinds_seen}, outcomes {outcomes}")
    ctx.sample({"s2_session": complete[len(complete) // 3]})
    ctx.log(f"S2-session: {sdone} complete histories of {ncalls_max} calls ({len(forms_seen)} construction forms, "
            f"{sum(len(k) for k in kinds_seen)} array kinds), {scalls} calls executed against CellList")
    # ---- S3 ------------------------------------------------------------------------------
    tres = pooled[len(items) + len(sitems):]
    traces = [r["events"] for r in tres if r and r.get("events")]
    keep = ("op", "atoms", "cs", "box", "sel", "q", "rho", "c", "got", "pairs", "container", "own", "periodic", "kinds",
            "scale", "out", "changed", "multi", "qk", "rk", "box_used")
    mms = []
    for chunk in helpers.chunked(traces, 400):
        mms_c = helpers.tlc_validate(ctx, chunk, keep=keep, timeout=1500)
        for m in mms_c:
            _tag, tid, l, pos, exp = m
            tr = chunk[tid - 1]
            ctx.mismatch({"stage": "S3", "kind": "event", "op": tr[l - 1]["op"], "what": exp if isinstance(exp, str) else "answer",
                          "trace": tr[:1] + [tr[l - 1]], "event": tr[l - 1], "position": pos, "expected": exp})
        mms += mms_c
    nev = sum(len(t) for t in traces)
    ctx.traces_validated += len(traces)
    ctx.evaluations += nev
    ctx.cov["s3_traces"] = len(traces)
    ctx.cov["s3_events"] = nev
    ctx.cov["s3_max_atoms"] = max((len(t[0]["atoms"]) for t in traces), default=0)
    ctx.nontrivial += sum(1 for t in traces if any(e["op"] == "get_atoms" and any(0 < len(g) < len(t[0]["atoms"]) for g in e["got"]) for e in t[1:]))
    if traces:
        ctx.sample({"s3_events": [{k: v for k, v in e.items() if k != "atoms"} for e in traces[0][:3]]})

    def corrupt(tr):
        if tr[0].get("corrupt") == "frame":
            tr[1]["changed"] = ["radius"]          # a call that changed a caller's array
            return True
        if tr[0].get("corrupt") == "form":
            tr[0].update(own=[], box=[], periodic=True)     # a periodic list without any box that answered
            return True
        for e in tr[1:]:
            if e["op"] == "pairdist" and e["got"]:
                e["got"][0] -= 1      # smaller than the minimum-image distance: wrong in every domain
                return True
            if e["op"] == "distadj" and e["got"]:
                g = e["got"][0]
                cand = [k for k in range(len(tr[0]["atoms"])) if (not tr[0]["sel"] or tr[0]["sel"][0][k]) and k not in g]
                if cand:
                    g.append(cand[0])     # an atom beyond the threshold: wrong in every domain
                else:
                    g.pop()
                return True
            if e["op"] in ("get_atoms", "adjacency") and e["got"]:
                g = e["got"][0]
                n = len(tr[0]["atoms"])
                if g:
                    g.pop()
                else:
                    cand = [k for k in range(n) if not tr[0]["sel"] or tr[0]["sel"][0][k]]
                    g.append(cand[0])
                return True
        return False

    # the self-test must reach the pairwise-distance events too: one short trace per such op first
    npd = sum(1 for t in traces for e in t[1:] if e["op"] == "pairdist")
    npd_wrapped = sum(1 for t in traces if t[0]["box"] for e in t[1:] if e["op"] == "pairdist")
    ctx.cov["s3_pair_distance_events"] = npd
    ctx.cov["s3_pair_distance_events_periodic"] = npd_wrapped
    if not npd_wrapped:
        raise Vacuity("S3 recorded no pairwise distance matrix of a periodic system")
    # coverage of the session dimensions in the recorded runs
    def overrides(t0):
        return bool(t0["periodic"] and t0["own"] and t0["box"] and t0["own"] != t0["box"])
    s3cov = {
        "constructions_refused": sum(1 for t in traces if t[0]["out"] != "ok"),
        "forms_explicit_box_overrides_own": sum(1 for t in traces if overrides(t[0]) and len(t) > 1),
        "forms_box_ignored_not_periodic": sum(1 for t in traces if not t[0]["periodic"] and (t[0]["own"] or t[0]["box"])),
        "atomarray_containers": sum(1 for t in traces if t[0]["container"] == "aa"),
        "coordinate_kinds": sorted({t[0]["kinds"][0] for t in traces}),
        "query_kinds": sorted({e["qk"] for t in traces for e in t[1:] if e["op"] in ("get_atoms", "cells")}),
        "radii_kinds": sorted({e["rk"] for t in traces for e in t[1:] if e["op"] == "get_atoms" and e["multi"]}),
        "calls_refused": sum(1 for t in traces for e in t[1:] if e["out"] != "ok"),
        "argument_arrays_used_again": sum(1 for t in traces for i, e in enumerate(t[1:]) if e["op"] in ("get_atoms", "cells")
                                          and any(f["op"] == e["op"] and f.get("q", [])[:1] == e["q"][:1] and f["qk"] == e["qk"] for f in t[1:1 + i])),
    }
    ctx.cov["s3_sessions"] = s3cov
    if not (s3cov["forms_explicit_box_overrides_own"] and s3cov["forms_box_ignored_not_periodic"] and s3cov["atomarray_containers"]
            and s3cov["argument_arrays_used_again"] and len(s3cov["query_kinds"]) >= 4 and len(s3cov["radii_kinds"]) >= 2):
        raise Vacuity(f"S3 sessions miss a dimension: {s3cov}")
    st = []
    for op in ("pairdist", "distadj"):
        for t in traces:
            ev = [e for e in t[1:] if e["op"] == op and e["got"]]
            if ev:
                st.append([t[0], ev[0]])
                break
    st += [t for t in traces if len(t) > 1][:1]
    # ... and the session dimensions: a changed caller's array, a construction that had to be refused
    for t in traces:
        ev = [e for e in t[1:] if e["op"] == "get_atoms" and e["out"] == "ok"]
        if ev:
            st.append([dict(t[0], corrupt="frame"), ev[0]])
            break
    for t in traces:
        if len(t) > 1:
            st.append([dict(t[0], corrupt="form"), t[1]])
            break
    helpers.binding_selftest(ctx, [[{k: e[k] for k in keep + ("corrupt",) if k in e} for e in t] for t in st], corrupt, max_traces=len(st))
    ctx.log(f"S3: {len(traces)} traces / {nev} events validated by TLC, {len(mms)} mismatches")
