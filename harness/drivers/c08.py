"""C08 - align_optimal returns the true optimum.

S1  TLC checks specs/C08/OptimalAlign.tla: for every input of the bounded domain the
    dynamic programme written in the shape of pairwise.pyx / tracetable.pyx (PairAlign!DPOptimal)
    has the score of the optimum *by definition* (maximum of the documented score over all
    candidate alignments), its trace-backs are optimal candidates, complete in the end-to-end
    modes and minimal in local mode.
S2  every input enumerated by TLC is executed against the real align_optimal (three values
    of max_number, rotating alphabet sizes / code dtypes); the reported score is compared
    with TLC's optimum, and everything returned is validated by TLC (specs/C08/Trace.tla:
    validity, end-to-end, recomputed score, distinctness, count, align.score()).
S3  seeded random inputs beyond the exhaustive bounds (alphabets <= 5, lengths <= 12,
    scores -5..5, all penalty shapes, refusals) are recorded and validated by TLC, which
    recomputes the optimum with the same operators.
"""

from __future__ import annotations

import json
import os
import random
import re

PROPERTY = "C08"

MANIFEST = {
    "technique": "TLA+ specification of the alignment scoring model, the candidate alignments and the dynamic programmes of align_optimal (specs/lib/PairAlign.tla, specs/C08) model-checked by TLC (DP = optimum by definition on all bounded inputs); every TLC-enumerated input executed against the real align_optimal; recorded calls on larger random inputs re-computed by TLC",
    "level_text": "TLC enumerates every pair of sequences over a 2-letter alphabet up to length 3 (thorough: 4, and a 3-letter alphabet up to length 3) with six substitution matrices (identity, all-zero, negative-only, asymmetric, rewarded mismatch, steep), linear and affine penalties including 0 and open weaker than extend, in global, semi-global and local mode, and checks that the code-shaped linear and three-table affine recurrences with their trace-back reach exactly the maximum of the documented score over all candidate alignments (affine: without abutting gaps), that every trace-back is an optimal valid alignment, that end-to-end modes return all optima and local mode only minimal ones. Every enumerated input is then run through the real align_optimal with max_number 1, 2 and 1000 under rotating alphabet sizes (uint8/uint16/uint32 codes, different alphabets per sequence); TLC validates every returned trace (contiguous, order preserving, end-to-end unless local, recomputed score = reported = optimum, distinct, count <= max_number, align.score() agrees). Random inputs with up to 5 symbols and length 12 are recorded and re-computed by TLC.",
    "level_note": "Bounded: the optimum by definition is enumerated only up to length 3 (4 in the thorough tier); beyond that the expected score is the specification's own dynamic programme, proven equal to the definition on the bounded domain only. int32 overflow for huge scores / penalties and 64-bit symbol codes are not modelled (scores and penalties are kept within -5..5 / -6..0). Completeness of the returned list (all optima) is a diagnostic only, the property does not promise it. Trusted: TLC, the dump parser, numpy, the projection Alignment.trace/score -> lists. Cython is unavailable: defects in pairwise.pyx / tracetable.pyx can only be recorded as known findings.",
}

MAXNS = (1, 2, 1000)
# alphabet-size variants (first alphabet, second alphabet); sizes decide the code dtype
# a third component "F" makes the score matrix Fortran-ordered (what SubstitutionMatrix.transpose()
# and matrices built from arr.T are): memory layout is a realisation detail, not an input
REPS = [("u8", "u8"), ("u16", "u8"), ("u8", "u16"), ("u16", "u16"), ("u32", "u8"), ("u8", "u32"),
        ("u8p", "u8p"), ("u8", "u8", "F"), ("u16", "u8p", "F")]
SIZES = {"u8": None, "u8p": 11, "u16": 300, "u32": 70000}
FILL = 77           # score of symbol pairs that never occur: a wrong table lookup becomes visible

_ALPH = {}


# --------------------------------------------------------------------------- real side
def _alphabet(size):
    import biotite.sequence as seq

    if size not in _ALPH:
        _ALPH[size] = seq.Alphabet(list(range(size)))
    return _ALPH[size]


def _embed(c, size, k):
    """code of abstract symbol c in an alphabet of `size` symbols"""
    if size == k:
        return c
    return size - 1 - c * ((size - 1) // k)


def build(inp, rep):
    """abstract input -> (seq1, seq2, SubstitutionMatrix)"""
    import numpy as np
    import biotite.sequence as seq
    import biotite.sequence.align as align

    M = inp["M"]
    k1, k2 = len(M), len(M[0])
    z1 = SIZES[rep[0]] or k1
    z2 = SIZES[rep[1]] or k2
    a1, a2 = _alphabet(z1), _alphabet(z2)
    mat = np.full((z1, z2), FILL, dtype=np.int64)
    for a in range(k1):
        for b in range(k2):
            mat[_embed(a, z1, k1), _embed(b, z2, k2)] = M[a][b]
    if len(rep) > 2 and rep[2] == "F":
        mat = np.asfortranarray(mat)
    sm = align.SubstitutionMatrix(a1, a2, mat)
    if len(rep) > 2 and rep[2] == "F" and not sm.score_matrix().flags["F_CONTIGUOUS"]:
        sm = align.SubstitutionMatrix(a2, a1, mat.T.copy()).transpose()
    s1 = seq.GeneralSequence(a1)
    s1.code = np.array([_embed(c, z1, k1) for c in inp["s1"]], dtype=np.int64)
    s2 = seq.GeneralSequence(a2)
    s2.code = np.array([_embed(c, z2, k2) for c in inp["s2"]], dtype=np.int64)
    return s1, s2, sm


def _gap_arg(gap):
    return int(gap[0]) if len(gap) == 1 else (int(gap[0]), int(gap[1]))


def run_case(inp, maxns, rep, ideal=0):
    """Execute align_optimal for one abstract input and every max_number; returns the event."""
    import biotite.sequence.align as align

    s1, s2, sm = build(inp, rep)
    gap = _gap_arg(inp["gap"])
    mode = inp["mode"]
    kw = {"gap_penalty": gap, "terminal_penalty": mode == "global", "local": mode == "local"}
    ev = {"s1": inp["s1"], "s2": inp["s2"], "M": inp["M"], "gap": inp["gap"], "mode": mode,
          "oc": "ok", "scores": [], "traces": [], "rescore": [], "calls": [], "ideal": ideal,
          "rep": list(rep), "exc": "", "dtypes": [str(s1.code.dtype), str(s2.code.dtype)]}
    index = {}
    scores = set()
    try:
        for mx in maxns:
            res = align.align_optimal(s1, s2, sm, max_number=mx, **kw)
            idx = []
            for al in res:
                tr = [[int(a), int(b)] for a, b in al.trace.tolist()]
                key = json.dumps(tr)
                if key not in index:
                    index[key] = len(ev["traces"]) + 1
                    ev["traces"].append(tr)
                    try:
                        v = align.score(al, sm, gap_penalty=gap, terminal_penalty=(mode != "semi"))
                        ev["rescore"].append([int(v)])
                    except Exception:
                        # find_terminal_gaps() needs every sequence to be present in the alignment
                        ev["rescore"].append([])
                idx.append(index[key])
                scores.add(int(al.score))
                if al.sequences[0] is not s1 and list(al.sequences[0].code) != list(s1.code):
                    scores.add(-999999)      # returned alignment refers to other sequences
            ev["calls"].append({"maxn": int(mx), "idx": idx})
    except (ValueError, TypeError, IndexError, MemoryError, OverflowError) as e:
        ev.update(oc="Rejected", exc=type(e).__name__, scores=[], traces=[], rescore=[],
                  calls=[{"maxn": int(m), "idx": []} for m in maxns])
        return ev
    ev["scores"] = sorted(scores)
    return ev


def warmup():
    import biotite.sequence.align  # noqa: F401

    for z in (300, 70000):
        _alphabet(z)


# --------------------------------------------------------------------------- S2 child
def exec_inputs(item):
    """item: {"cases": [{"inp", "opt", "ndp", "rep"}]} - cases enumerated by TLC."""
    from harness.tlabind.pool import progress

    events, mism = [], []
    n_incomplete = 0
    for k, c in enumerate(item["cases"]):
        if k < item.get("skip", 0):
            continue
        progress({"op": "align_optimal", "inp": c["inp"], "rep": c["rep"], "k": k})
        ev = run_case(c["inp"], MAXNS, tuple(c["rep"]))
        ev["ndp"] = c["ndp"]
        events.append(ev)
        if ev["oc"] == "ok":
            if ev["scores"] != [c["opt"]]:
                mism.append({"kind": "score", "op": "align_optimal", "inp": c["inp"], "rep": c["rep"],
                             "expected": {"opt": c["opt"]},
                             "observed": {"scores": ev["scores"], "traces": ev["traces"][:5]}})
            # diagnostic only: does max_number=1000 return every trace-back of the model?
            if len(ev["calls"][-1]["idx"]) != min(c["ndp"], 1000) and c["inp"]["mode"] != "local":
                n_incomplete += 1
    return {"events": events, "mismatch": mism, "incomplete": n_incomplete}


# --------------------------------------------------------------------------- S3 child
def _rand_input(rng, big):
    k1 = rng.randint(1, 5)
    k2 = rng.randint(1, 5)
    lim = 12 if big else 6
    n = rng.randint(0, lim) if rng.random() < 0.9 else 0
    m = rng.randint(0, lim) if rng.random() < 0.9 else 0
    style = rng.random()
    if style < 0.25:      # near-identity: many ties and long diagonals
        M = [[(2 if a == b else -1) for b in range(k2)] for a in range(k1)]
    elif style < 0.35:    # few distinct values
        M = [[rng.choice([-1, 0, 1]) for _ in range(k2)] for _ in range(k1)]
    elif style < 0.45:    # negative only
        M = [[rng.randint(-5, -1) for _ in range(k2)] for _ in range(k1)]
    else:
        M = [[rng.randint(-5, 5) for _ in range(k2)] for _ in range(k1)]
    s1 = [rng.randrange(k1) for _ in range(n)]
    if rng.random() < 0.5 and k1 == k2 and n:    # related sequences
        s2 = [c for c in s1 if rng.random() < 0.8][:m] + [rng.randrange(k2) for _ in range(rng.randint(0, 2))]
        s2 = s2[:lim]
    else:
        s2 = [rng.randrange(k2) for _ in range(m)]
    g = rng.random()
    if g < 0.45:
        gap = [rng.choice([0, -1, -1, -2, -3, -6])]
    else:
        gap = [rng.choice([0, -1, -2, -3, -6]), rng.choice([0, -1, -1, -2, -4])]
    mode = rng.choice(["global", "semi", "local"])
    return {"s1": s1, "s2": s2, "M": M, "gap": gap, "mode": mode}


def gen_events(item):
    from harness.tlabind.pool import progress

    rng = random.Random(item["seed"])
    events = []
    for k in range(item["count"]):
        inp = _rand_input(rng, item["big"])
        r = rng.random()
        maxns = [rng.choice([1, 2, 3, 5]), 1000] if r < 0.9 else [rng.choice([1, 4])]
        if r >= 0.94:       # documented refusals
            if rng.random() < 0.5:
                inp["gap"] = [1] if len(inp["gap"]) == 1 else rng.choice([[1, -1], [-1, 2]])
            else:
                maxns = [0]
        rep = REPS[rng.randrange(len(REPS))]
        small = len(inp["s1"]) <= 3 and len(inp["s2"]) <= 3
        if k < item.get("skip", 0):
            continue
        progress({"op": "align_optimal", "inp": inp, "rep": rep, "maxns": maxns, "k": k})
        ev = run_case(inp, maxns, rep, ideal=1 if small else 0)
        # keep events small: an all-ties input can return 1000 alignments
        if len(ev["traces"]) > 120:
            continue
        events.append(ev)
    return {"events": events}


# --------------------------------------------------------------------------- classification
def _is_affine_empty(inp):
    return (len(inp.get("gap", [])) == 2 and inp.get("mode") in ("global", "semi")
            and (len(inp.get("s1", [0])) == 0 or len(inp.get("s2", [0])) == 0))


def classify(mm):
    """C08-affine-empty-sequence: affine penalty, not local, one sequence empty -> IndexError
    from the table initialisation instead of the (all-gap) optimum."""
    if mm.get("kind") == "event" and mm.get("op") == "align_optimal":
        inp = mm.get("inp", {})
        obs = mm.get("observed", {})
        exp = mm.get("expected", {})
        if (_is_affine_empty(inp) and exp.get("oc") == "ok" and obs.get("oc") == "Rejected"
                and obs.get("exc") == "IndexError"):
            return "C08-affine-empty-sequence"
    return None


# --------------------------------------------------------------------------- TLC side
_KEEP = ("s1", "s2", "M", "gap", "mode", "oc", "scores", "traces", "rescore", "calls", "ideal")
FLAGS = ("oc", "score", "ideal", "traces", "count", "distinct", "rescore")


def validate(ctx, events, *, stage, selftest=False, workers=8, per_trace=40, timeout=1500, chunk=60000):
    """TLC validates events (specs/C08/Trace.tla), at most `chunk` events per TLC run.
    Returns list of (event_index, flags, exp_oc, exp_score)."""
    if len(events) > chunk:
        out = []
        for off in range(0, len(events), chunk):
            o = validate(ctx, events[off:off + chunk], stage=stage, selftest=selftest, workers=workers,
                         per_trace=per_trace, timeout=timeout, chunk=chunk)
            out += [(ix + off, *rest) for ix, *rest in o]
        return out
    from harness.tlabind import tlc as T
    from harness.tlabind.tlaval import parse_value, to_py

    if not events:
        return []
    traces = [events[i:i + per_trace] for i in range(0, len(events), per_trace)]
    d = T.scratch_dir("c08tr")
    tf = os.path.join(d, "traces.json")
    with open(tf, "w") as f:
        json.dump([[{k: e[k] for k in _KEEP} for e in tr] for tr in traces], f)
    res = ctx.tlc("Trace", "Trace.cfg", stage=stage + ("-selftest" if selftest else ""),
                  workers=workers, env={"TRACE_FILE": tf}, count=not selftest, timeout=timeout)
    expect = sum(len(t) + 1 for t in traces)
    if res.distinct != expect:
        raise RuntimeError(f"C08 {stage}: trace validation visited {res.distinct} states, expected {expect}")
    out = []
    for txt in T.printed_values(res.out, "MISMATCH"):
        v = to_py(parse_value(txt))
        _tag, tid, l, flags, eoc, esc = v
        out.append(((tid - 1) * per_trace + (l - 1), flags, eoc, esc))
    return out


def _event_mismatch(ev, flags, eoc, esc, stage):
    bad = [n for n, ok in zip(FLAGS, flags) if not ok]
    return {"stage": stage, "kind": "event", "op": "align_optimal",
            "inp": {k: ev[k] for k in ("s1", "s2", "M", "gap", "mode")},
            "rep": ev.get("rep"), "maxns": [c["maxn"] for c in ev["calls"]], "bad": bad,
            "expected": {"oc": eoc, "score": esc},
            "observed": {"oc": ev["oc"], "exc": ev.get("exc", ""), "scores": ev["scores"],
                         "traces": ev["traces"][:8], "rescore": ev["rescore"][:8],
                         "counts": [len(c["idx"]) for c in ev["calls"]]},
            "ideal": ev.get("ideal", 0)}


_RE_STATE = re.compile(
    r'/\\ inp = \[ ?s1 \|-> (.*?), s2 \|-> (.*?), mat \|-> (.*?), gap \|-> (.*?), mode \|-> "(\w+)" ?\] '
    r'/\\ phase = "done" '
    r'/\\ out = \[ ?opt \|-> (-?\d+), dp \|-> (-?\d+), ndp \|-> (\d+), nopt \|-> (\d+),')


def _seq(txt):
    return json.loads(txt.replace("<<", "[").replace(">>", "]"))


def parse_dump_fast(path):
    """The dump has one fixed record layout; a regular expression is much faster than the
    general value parser (the general parser is used to cross-check a sample)."""
    with open(path) as f:
        text = f.read()
    blocks = text.split("\nState ")
    out = []
    for b in blocks:
        if '"done"' not in b:
            continue
        b = " ".join(b.split())
        m = _RE_STATE.search(b)
        if not m:
            raise RuntimeError(f"unparsable dump state: {b[:300]}")
        out.append({"s1": _seq(m.group(1)), "s2": _seq(m.group(2)), "M": _seq(m.group(3)),
                    "gap": _seq(m.group(4)), "mode": m.group(5), "opt": int(m.group(6)),
                    "dp": int(m.group(7)), "ndp": int(m.group(8)), "nopt": int(m.group(9))})
    return out, blocks


def run(ctx):
    from harness.tlabind import pool, tlc
    from harness.tlabind.core import Vacuity
    from harness.tlabind.tlaval import parse_dump, to_py

    quick = ctx.quick
    ctx.assumptions += [
        "Dom_Gap: penalties <= 0 (positive penalties / max_number < 1 are modelled as the outcome Rejected)",
        "scores within -5..5 and penalties within -6..0: int32 overflow is outside the model",
        "exhaustive model: 2-letter alphabet, length <= 3 (thorough: <= 4; 3 letters, length <= 3); larger inputs only through recorded calls, where the expected optimum is the specification's dynamic programme",
        "symbol codes up to uint32 (alphabets of 300 / 70000 symbols); 64-bit codes are not reachable",
        "trusted: TLC, the dump parser (cross-checked against the general TLA+ value parser), numpy, the projection Alignment.trace/score -> lists",
    ]
    ctx.cov["rule"] = ("non-trivial = the optimum is not reached by the gap-free diagonal alignment alone: "
                       "the model has more than one optimal trace-back, or a returned trace contains a gap, "
                       "or (local) covers only part of the sequences")
    # ---- S1 ----------------------------------------------------------------------------
    cfgs = [("MC.cfg", 2)] if quick else [("MC_thorough2.cfg", 2), ("MC_thorough.cfg", 2), ("MC_thorough3.cfg", 3)]
    cases = []
    for cfg, k in cfgs:
        d = tlc.scratch_dir("c08dump")
        prefix = os.path.join(d, "states")
        res = ctx.tlc("OptimalAlign", cfg, stage="S1", dump=prefix, workers=12, timeout=9000)
        path = prefix + ".dump" if os.path.exists(prefix + ".dump") else prefix
        sts, blocks = parse_dump_fast(path)
        if 2 * len(sts) != res.distinct:
            raise RuntimeError(f"dump has {len(sts)} result states, TLC reported {res.distinct} states")
        # cross-check the fast parser on a sample with the general parser
        sample_txt = "\n".join("State " + b for b in blocks[1:400])
        sp = os.path.join(d, "sample.dump")
        with open(sp, "w") as f:
            f.write(sample_txt)
        gen = [{kk: to_py(v) for kk, v in st.items()} for st in parse_dump(sp)]
        gen = [g for g in gen if g["phase"] == "done"]
        fast = {json.dumps([s["s1"], s["s2"], s["M"], s["gap"], s["mode"]]): s for s in sts}
        for g in gen:
            key = json.dumps([g["inp"]["s1"], g["inp"]["s2"], g["inp"]["mat"], g["inp"]["gap"], g["inp"]["mode"]])
            f_ = fast.get(key)
            if f_ is None or f_["opt"] != g["out"]["opt"] or f_["ndp"] != g["out"]["ndp"]:
                raise RuntimeError("fast dump parser disagrees with the general parser")
        for s in sts:
            cases.append({"inp": {"s1": s["s1"], "s2": s["s2"], "M": s["M"], "gap": s["gap"],
                                  "mode": s["mode"]},
                          "opt": s["opt"], "ndp": s["ndp"], "nopt": s["nopt"]})
    ctx.exhaustive = True
    # TLC writes the dump in a worker-dependent order: make the order canonical (determinism)
    cases.sort(key=lambda c: json.dumps(c["inp"], sort_keys=True))
    # vacuity: the bounded domain must contain the interesting situations
    seen = {
        "modes": {c["inp"]["mode"] for c in cases},
        "affine": any(len(c["inp"]["gap"]) == 2 for c in cases),
        "linear": any(len(c["inp"]["gap"]) == 1 for c in cases),
        "ties": sum(1 for c in cases if c["ndp"] > 1),
        "local_positive": sum(1 for c in cases if c["inp"]["mode"] == "local" and c["opt"] > 0),
        "local_zero": sum(1 for c in cases if c["inp"]["mode"] == "local" and c["opt"] == 0),
        "negative_opt": sum(1 for c in cases if c["opt"] < 0),
        "empty_seq": sum(1 for c in cases if not c["inp"]["s1"] or not c["inp"]["s2"]),
    }
    if (seen["modes"] != {"global", "semi", "local"} or not seen["affine"] or not seen["linear"]
            or min(seen["ties"], seen["local_positive"], seen["local_zero"], seen["negative_opt"],
                   seen["empty_seq"]) == 0):
        raise Vacuity(f"bounded domain misses a situation: {seen}")
    ctx.cov["s1_inputs"] = len(cases)
    ctx.cov["s1_situations"] = {k: (sorted(v) if isinstance(v, set) else v) for k, v in seen.items()}
    # ---- S2 ----------------------------------------------------------------------------
    order = list(range(len(cases)))
    ctx.rng.shuffle(order)
    for pos, ci in enumerate(order):
        cases[ci]["rep"] = list(REPS[pos % len(REPS)] if pos % 3 else REPS[0])
    per = 150
    items = [{"cases": [cases[ci] for ci in order[i:i + per]]} for i in range(0, len(order), per)]
    results = _run_pool(ctx, "harness.drivers.c08:exec_inputs", items, "S2")
    events = []
    incomplete = 0
    for r in results:
        if r and "events" in r:
            events += r["events"]
            incomplete += r.get("incomplete", 0)
    ctx.log(f"S2: {len(events)} inputs executed ({sum(len(e['calls']) for e in events)} calls)")
    mms = validate(ctx, events, stage="S2", workers=12)
    for ix, flags, eoc, esc in mms:
        ctx.mismatch(_event_mismatch(events[ix], flags, eoc, esc, "S2"))
    if incomplete:
        ctx.note(f"S2 diagnostic (no verdict): {incomplete} end-to-end inputs where max_number=1000 did not "
                 "return exactly the model's number of optimal trace-backs")
    ctx.traces_validated += len(events)
    ctx.evaluations += sum(len(e["calls"]) for e in events)
    ctx.cov["s2_inputs"] = len(events)
    ctx.cov["s2_calls"] = sum(len(e["calls"]) for e in events)
    ctx.cov["s2_alignments_validated"] = sum(len(e["traces"]) for e in events)
    ctx.cov["s2_reps"] = _count(e["dtypes"][0] + "/" + e["dtypes"][1] for e in events)
    ctx.cov["s2_outcomes"] = _count(e["oc"] for e in events)
    ctx.cov["s2_complete_diag_misses"] = incomplete
    ctx.nontrivial += sum(1 for e in events if _nontrivial(e))
    for e in events[:2]:
        ctx.sample({"s2_event": {k: e[k] for k in _KEEP}})
    # ---- S3 ----------------------------------------------------------------------------
    nitems, count = (16, 60) if quick else (64, 250)
    sitems = [{"seed": ctx.rng.randrange(1 << 30), "count": count, "big": (k % 2 == 1)} for k in range(nitems)]
    sres = _run_pool(ctx, "harness.drivers.c08:gen_events", sitems, "S3")
    sev = []
    for r in sres:
        if r and "events" in r:
            sev += r["events"]
    mms = validate(ctx, sev, stage="S3", per_trace=25)
    for ix, flags, eoc, esc in mms:
        ctx.mismatch(_event_mismatch(sev[ix], flags, eoc, esc, "S3"))
    ctx.traces_validated += len(sev)
    ctx.evaluations += sum(len(e["calls"]) for e in sev)
    ctx.cov["s3_events"] = len(sev)
    ctx.cov["s3_outcomes"] = _count(e["oc"] for e in sev)
    ctx.cov["s3_ideal_checked"] = sum(1 for e in sev if e["ideal"] == 1)
    ctx.cov["s3_max_len"] = max([max(len(e["s1"]), len(e["s2"])) for e in sev] or [0])
    ctx.cov["s3_alignments_validated"] = sum(len(e["traces"]) for e in sev)
    ctx.nontrivial += sum(1 for e in sev if _nontrivial(e))
    if not any(e["oc"] == "Rejected" for e in sev) or not any(e["oc"] == "ok" and len(e["s1"]) > 4 for e in sev):
        vacuity(ctx, "S3 generated no refusal or no input beyond the exhaustive bounds")
    for e in sev[:2]:
        ctx.sample({"s3_event": {k: e[k] for k in _KEEP}})
    # ---- binding self-test -------------------------------------------------------------
    good = [e for e in sev if e["oc"] == "ok" and e["traces"] and len(e["traces"][0]) >= 2][:12]
    bad = []
    for n, e in enumerate(good):
        e = json.loads(json.dumps(e))
        kind = n % 4
        if kind == 0:
            e["scores"] = [e["scores"][0] + 1]                      # reported score off by one
        elif kind == 1:
            e["traces"][0] = e["traces"][0][:-1]                    # truncated trace
        elif kind == 2:
            e["calls"][0]["idx"] = e["calls"][0]["idx"] + [e["calls"][0]["idx"][0]] * e["calls"][0]["maxn"]
        else:
            e["traces"][0][0], e["traces"][0][1] = e["traces"][0][1], e["traces"][0][0]   # order broken
        bad.append(e)
    if len(bad) < 4:
        vacuity(ctx, "binding self-test: not enough recorded events to corrupt")
        return
    rej = validate(ctx, bad, stage="S3", selftest=True, per_trace=1, workers=2)
    hit = {ix for ix, *_ in rej}
    if len(hit) < len(bad):
        raise Vacuity(f"binding self-test: {len(bad)} corrupted events, only {len(hit)} rejected")
    ctx.cov["selftest_corrupted_rejected"] = len(hit)


def _count(it):
    out = {}
    for x in it:
        out[x] = out.get(x, 0) + 1
    return out


def _nontrivial(e):
    if e["oc"] != "ok":
        return False
    if e.get("ndp", 1) > 1 or len(e["traces"]) > 1:
        return True
    n, m = len(e["s1"]), len(e["s2"])
    for t in e["traces"]:
        if any(a == -1 or b == -1 for a, b in t):
            return True
        if e["mode"] == "local" and 0 < len(t) < min(n, m):
            return True
    return False


def _run_pool(ctx, target, items, stage, rounds=8):
    """Crash-isolated execution that does not lose the rest of an item: when a child dies
    in call number k of an item (known from the progress record), the crash becomes a mismatch
    record and the item is resubmitted with skip = k + 1."""
    from harness.tlabind import pool

    out = []
    todo = [dict(it, skip=it.get("skip", 0)) for it in items]
    for _ in range(rounds):
        if not todo:
            break
        results = pool.run_isolated(target, todo, item_timeout=300)
        nxt = []
        for it, r in zip(todo, results):
            if r is None:
                raise RuntimeError(f"{stage}: missing result")
            if "driver_error" in r:
                raise RuntimeError(f"{stage}: driver error {r['driver_error']}\n{r.get('tb', '')}")
            if "crash" in r:
                prog = r.get("progress") or {}
                ctx.mismatch({"stage": stage, "kind": "crash", "signal": r["crash"], "progress": prog})
                if isinstance(prog.get("k"), int):
                    nxt.append(dict(it, skip=prog["k"] + 1))
                continue
            for mm in r.get("mismatch", ()):
                mm.setdefault("stage", stage)
                ctx.mismatch(mm)
            out.append(r)
        todo = nxt
    return out


def vacuity(ctx, msg):
    """A missing situation is a machinery failure - unless violations were found, which are the
    likely cause (crashed children lose calls) and must be reported first."""
    from harness.tlabind.core import Vacuity

    if ctx.violations:
        ctx.note("vacuity guard not evaluated because violations were found: " + msg)
    else:
        raise Vacuity(msg)


# --------------------------------------------------------------------------- replay
def replay(record):
    """Re-execute one stored mismatch against the current code; TLC judges the fresh event."""
    from harness.tlabind import tlc as T

    inp = record.get("inp")
    if not inp:
        return {"error": "record has no input", "record": record}
    rep = tuple(record.get("rep") or REPS[0])
    maxns = record.get("maxns") or list(MAXNS)
    small = len(inp["s1"]) <= 3 and len(inp["s2"]) <= 3
    ev = run_case(inp, maxns, rep, ideal=1 if small else 0)
    out = {"observed": {"oc": ev["oc"], "exc": ev["exc"], "scores": ev["scores"], "traces": ev["traces"][:8],
                        "counts": [len(c["idx"]) for c in ev["calls"]]},
           "expected": record.get("expected")}
    if record.get("kind") == "score":
        out["mismatch"] = ev["oc"] != "ok" or ev["scores"] != [record["expected"]["opt"]]
        return out
    d = T.scratch_dir("c08replay")
    tf = os.path.join(d, "t.json")
    with open(tf, "w") as f:
        json.dump([[{k: ev[k] for k in _KEEP}]], f)
    res = T.run_tlc(os.path.join(T.VERIF, "specs", "C08"), "Trace", "Trace.cfg", workers=1,
                    env={"TRACE_FILE": tf}, timeout=600)
    T.require_ok(res, "C08 replay")
    mm = T.printed_values(res.out, "MISMATCH")
    out["tlc"] = mm
    out["mismatch"] = bool(mm)
    return out
