"""C08 - align_optimal returns the true optimum.

S1  TLC checks specs/C08/OptimalAlign.tla: for every input of the bounded domain the
    dynamic programme written in the shape of pairwise.pyx / tracetable.pyx (PairAlign!DPOptimal)
    has the score of the optimum *by definition* (maximum of the documented score over all
    candidate alignments), its trace-backs are optimal candidates, complete in the end-to-end
    modes and minimal in local mode.
    specs/C08/MatrixForms.tla states what "the substitution matrix" of the property is: the
    scores as the caller specifies them in one of the documented construction forms (ndarray,
    transposed ndarray, dictionary of symbol pairings, text / database name); S1 checks that
    every form denotes the same table.
S2  every input enumerated by TLC is executed against the real align_optimal (three values
    of max_number, rotating construction forms, ndarray realisations, alphabet relations,
    symbol kinds, alphabet sizes / code dtypes: COMBOS); the reported score is compared
    with TLC's optimum, and everything returned is validated by TLC (specs/C08/Trace.tla:
    the scoring table is re-derived from the recorded source handed to the constructor, never
    from the constructed object; validity, end-to-end, recomputed score, distinctness, count,
    align.score()).
S3  seeded random inputs beyond the exhaustive bounds (alphabets <= 5, lengths <= 12,
    scores -5..5, all penalty shapes, every construction form incl. database names over
    sub-alphabets, refusals) are recorded and validated by TLC, which recomputes the optimum
    with the same operators.
"""

from __future__ import annotations

import json
import os
import random
import re

PROPERTY = "C08"

MANIFEST = {
    "technique": "TLA+ specification of the alignment scoring model, the candidate alignments and the dynamic programmes of align_optimal (specs/lib/PairAlign.tla, specs/C08) model-checked by TLC (DP = optimum by definition on all bounded inputs); every TLC-enumerated input executed against the real align_optimal; recorded calls on larger random inputs re-computed by TLC",
    "level_text": "TLC enumerates every pair of sequences over a 2-letter alphabet up to length 3 (thorough: 4, and a 3-letter alphabet up to length 3) with six substitution matrices (identity, all-zero, negative-only, asymmetric, rewarded mismatch, steep), linear and affine penalties including 0 and open weaker than extend, in global, semi-global and local mode, and checks that the code-shaped linear and three-table affine recurrences with their trace-back reach exactly the maximum of the documented score over all candidate alignments (affine: without abutting gaps), that every trace-back is an optimal valid alignment, that end-to-end modes return all optima and local mode only minimal ones. The substitution matrix of the property is the matrix as the caller specifies it (MatrixForms.tla: ndarray, transposed ndarray, dictionary of symbol pairings, text / database file; TLC checks that all forms denote the same table). Every enumerated input is then run through the real align_optimal with max_number 1, 2 and 1000 under rotating construction forms (ndarray of int8..int64, C / Fortran / strided / negative-stride / read-only memory, matrix.transpose(), dictionaries with python / numpy values and additional pairings, texts with permuted lines and columns), alphabet relations (same object, equal, permuted, overlapping, disjoint), symbol kinds and alphabet sizes (uint8/uint16/uint32 codes, different alphabets per sequence); TLC re-derives the scoring table from the recorded source and validates every returned trace (contiguous, order preserving, end-to-end unless local, recomputed score = reported = optimum, distinct, count <= max_number, align.score() agrees). Random inputs with up to 5 symbols and length 12 under random construction forms, and sequences over sub-alphabets of the database matrices constructed by name, are recorded and re-computed by TLC.",
    "level_note": "Bounded: the optimum by definition is enumerated only up to length 3 (4 in the thorough tier); beyond that the expected score is the specification's own dynamic programme, proven equal to the definition on the bounded domain only. int32 overflow for huge scores / penalties and 64-bit symbol codes are not modelled (scores and penalties are kept within -5..5 / -6..0; database matrices within -40..40 / -12..0). Dictionary and text sources only over alphabets of at most 7 symbols; the text layout (comments, blank lines, indentation, column width) is varied only lightly (specs/X07 covers the parser). Completeness of the returned list (all optima) is a diagnostic only, the property does not promise it. Trusted: TLC, the dump parser, numpy, the projection Alignment.trace/score -> lists. Cython is unavailable: defects in pairwise.pyx / tracetable.pyx can only be recorded as known findings.",
}

MAXNS = (1, 2, 1000)
FILL = 77           # score of symbol pairs that never occur: a wrong table lookup becomes visible

# ---------------------------------------------------------------------------------------------
# How the caller hands the substitution matrix over (specs/C08/MatrixForms.tla).  A "combo" is
#   z     [size kind of alphabet 1, of alphabet 2]; the size decides the dtype of the codes:
#         "u8" = exactly the symbols in use, "k2" = two more, "u8p" = 11, "u16" = 300, "u32" = 70000
#   form  "array" | "transposed" | "dict" | "text" (| "db": text taken from the matrix database)
#   arr   realisation of the ndarray (dtype / memory order / strides / writability)
#   rel   relation of the alphabets: "same" object, "equal" (another object, same symbols),
#         "perm" (same symbols, other codes), "over" (overlapping prefixes), "disj" (disjoint)
#   sym   kind of the real symbols: "int" | "str" | "letter" (LetterAlphabet) | "tuple"
#   val   type of the dictionary values: "int" | "np32" | "np64"
# None of these is an input of the property: every combo denotes the same scoring function.
SIZES = {"u8": 0, "k2": 2, "u8p": 11, "u16": 300, "u32": 70000}
SMALL = 16          # alphabets up to this size are recorded in full (codes, complete source)


def _combo(z1, z2, form="array", arr="i64", rel="same", sym="int", val="int"):
    return {"z": [z1, z2], "form": form, "arr": arr, "rel": rel, "sym": sym, "val": val}


DEFAULT = _combo("u8", "u8")
COMBOS = [
    # ndarray: code widths (the former REPS) ...
    _combo("u16", "u8"), _combo("u8", "u16"), _combo("u16", "u16"), _combo("u32", "u8"), _combo("u8", "u32"),
    _combo("u8p", "u8p"), _combo("u8", "u8", arr="F"), _combo("u16", "u8p", arr="F"),
    # ... dtypes, memory orders, strides, writability, alphabet relations
    _combo("u8", "u8", arr="i32", rel="equal"), _combo("u8", "u8", arr="i16", rel="perm", sym="str"),
    _combo("u8p", "u8", arr="i8", rel="disj", sym="letter"), _combo("u8", "u8p", arr="strided"),
    _combo("u8", "u8", arr="rev", sym="tuple"), _combo("u16", "u16", arr="ro"), _combo("k2", "k2", arr="F", rel="equal"),
    # the caller built the matrix for (alphabet 2, alphabet 1) and transposed it
    _combo("u8", "u8", "transposed"), _combo("u16", "u8p", "transposed", arr="i32"), _combo("u8", "u32", "transposed"),
    _combo("k2", "u8", "transposed", rel="disj", sym="letter"),
    # dictionary of symbol pairings
    _combo("u8", "u8", "dict"), _combo("u8", "u8", "dict", rel="equal", sym="str", val="np64"),
    _combo("u8", "u8", "dict", rel="perm", sym="letter"), _combo("u8", "u8", "dict", rel="disj", sym="tuple", val="np32"),
    _combo("k2", "k2", "dict", sym="letter"), _combo("k2", "k2", "dict", rel="equal"),
    _combo("k2", "u8", "dict", rel="over", sym="str"), _combo("u8", "k2", "dict", rel="disj", val="np64"),
    # text in the format of the matrix database (dict_from_str)
    _combo("u8", "u8", "text", sym="letter"), _combo("u8", "u8", "text", rel="equal", sym="str"),
    _combo("u8", "u8", "text", rel="perm", sym="letter"), _combo("u8", "u8", "text", rel="disj", sym="str"),
    _combo("k2", "k2", "text", sym="str"), _combo("k2", "u8", "text", rel="over", sym="letter"),
]
ARR_KINDS = ("i64", "i32", "i16", "i8", "F", "strided", "rev", "ro")
DB_MAXABS = 40      # Dom_DbScores: database files whose scores stay within -40..40

_ALPH = {}
_DB = {}


# --------------------------------------------------------------------------- real side
def _sym(kind, i):
    """real symbol of the abstract symbol id i"""
    if kind == "int":
        return int(i)
    if kind == "str":
        return f"s{i}"
    if kind in ("letter", "str1"):
        return chr(i)
    return (int(i), "t")


def _alphabet(kind, ids, tag=""):
    import biotite.sequence as seq

    key = (kind, tag, "range", len(ids)) if isinstance(ids, range) else (kind, tag, tuple(ids))
    if key not in _ALPH:
        syms = [_sym(kind, i) for i in ids]
        _ALPH[key] = seq.LetterAlphabet(syms) if kind == "letter" else seq.Alphabet(syms)
    return _ALPH[key]


def _embed(c, size, k):
    """code of abstract symbol c in an alphabet of `size` symbols"""
    if size == k:
        return c
    return size - 1 - c * ((size - 1) // k)


def _sizes(combo, k1, k2):
    z = []
    for kind, k in zip(combo["z"], (k1, k2)):
        z.append(SIZES[kind] if SIZES[kind] > 2 else k + SIZES[kind])
    return z


def _ids(combo, z1, z2):
    """abstract symbol ids of both alphabets and the effective relation"""
    rel = combo["rel"]
    if max(z1, z2) > SMALL:
        return range(z1), range(z2), ("same" if z1 == z2 else "over")
    if rel in ("same", "equal") and z1 != z2:
        rel = "over"
    a1 = [65 + i for i in range(z1)]
    if rel == "perm":
        a2 = [65 + z2 - 1 - j for j in range(z2)]
    elif rel == "disj":
        a2 = [97 + j for j in range(z2)]
    else:
        a2 = [65 + j for j in range(z2)]
    return a1, a2, rel


def _realise_array(mat, kind):
    import numpy as np

    if kind in ("i32", "i16", "i8"):
        return mat.astype({"i32": np.int32, "i16": np.int16, "i8": np.int8}[kind])
    if kind == "F":
        return np.asfortranarray(mat)
    if kind == "strided":       # a window of a larger array: neither C- nor F-contiguous
        big = np.full((2 * mat.shape[0] + 1, 3 * mat.shape[1] + 2), -99, dtype=np.int64)
        view = big[1::2, 2::3][: mat.shape[0], : mat.shape[1]]
        view[...] = mat
        return view
    if kind == "rev":           # negative strides
        return mat[::-1, ::-1].copy()[::-1, ::-1]
    if kind == "ro":
        m = mat.astype(np.int32)
        m.setflags(write=False)
        return m
    return mat


def _text_of(hdr, rows, rng):
    w = rng.choice([1, 3, 5])
    lines = []
    if rng.random() < 0.5:
        lines.append("# generated by the C08 driver")
    lines.append(" " * rng.randint(0, 3) + "".join(" %*s" % (w, h) for h in hdr))
    for k, (label, vals) in enumerate(rows):
        if k == 1 and rng.random() < 0.3:
            lines.append("")
        lines.append(label + "".join(" %*d" % (w, v) for v in vals))
    return "\n".join(lines) + ("\n" if rng.random() < 0.5 else "")


def _db_grid(name):
    """tokens of a database file (lines stripped, empty and # lines dropped, split at white space)"""
    if name not in _DB:
        with open(os.path.join(_db_dir(), name + ".mat")) as f:
            lines = [ln.strip() for ln in f.read().split("\n")]
        lines = [ln.split() for ln in lines if ln and ln[0] != "#"]
        _DB[name] = (lines[0], [(ln[0], [int(x) for x in ln[1:]]) for ln in lines[1:]])
    return _DB[name]


def _db_dir():
    # located without importing biotite (run() calls db_names() outside the pool)
    import importlib.util

    return os.path.join(importlib.util.find_spec("biotite").submodule_search_locations[0],
                        "sequence", "align", "matrix_data")


def db_names():
    """Dom_DbScores: database files with one-character symbols and scores within -40..40"""
    out = []
    for name in sorted(f[:-4] for f in os.listdir(_db_dir()) if f.endswith(".mat")):
        hdr, rows = _db_grid(name)
        if (all(len(h) == 1 for h in hdr) and all(len(l) == 1 for l, _ in rows)
                and all(abs(v) <= DB_MAXABS for _, vs in rows for v in vs)):
            out.append(name)
    return out


def build(inp, combo, rng):
    """abstract input + combo -> (seq1, seq2, SubstitutionMatrix or raised exception, tr)
    tr = what trace validation sees: codes s1 / s2 and the source `src` handed to the constructor."""
    import numpy as np
    import biotite.sequence as seq
    import biotite.sequence.align as align

    form = combo["form"]
    src = {"form": form, "a1": [], "a2": [], "tab": [], "dict": [], "hdr": [], "rows": []}
    if form == "db":
        hdr, rows = _db_grid(combo["name"])
        kind = combo["sym"]
        ids1, ids2 = [ord(c) for c in combo["a1"]], [ord(c) for c in combo["a2"]]
        a1 = _alphabet(kind, ids1)
        a2 = a1 if combo["rel"] == "same" and ids1 == ids2 else _alphabet(kind, ids2, "copy")
        src.update(form="text", a1=ids1, a2=ids2, hdr=[ord(h) for h in hdr],
                   rows=[{"l": ord(l), "v": vs} for l, vs in rows])
        c1, c2 = list(inp["s1"]), list(inp["s2"])
        small = True
        make = lambda: align.SubstitutionMatrix(a1, a2, combo["name"])      # noqa: E731
    else:
        M = inp["M"]
        k1, k2 = len(M), len(M[0])
        z1, z2 = _sizes(combo, k1, k2)
        ids1, ids2, rel = _ids(combo, z1, z2)
        small = max(z1, z2) <= SMALL
        kind = combo["sym"] if small else "int"
        if form in ("dict", "text") and not small:
            raise ValueError("dictionary / text sources need small alphabets")
        a1 = _alphabet(kind, ids1)
        a2 = a1 if rel == "same" else _alphabet(kind, ids2, "copy" if rel == "equal" else "")
        mat = np.full((z1, z2), FILL, dtype=np.int64)
        for a in range(k1):
            for b in range(k2):
                mat[_embed(a, z1, k1), _embed(b, z2, k2)] = M[a][b]
        c1 = [_embed(c, z1, k1) for c in inp["s1"]]
        c2 = [_embed(c, z2, k2) for c in inp["s2"]]
        full = mat.tolist() if small else None
        if small:
            src.update(a1=list(ids1), a2=list(ids2))
        else:                   # large alphabets: the embedding stays a realisation detail
            src.update(a1=list(range(k1)), a2=list(range(k2)))
        if form == "array":
            arr = _realise_array(mat, combo["arr"])
            src["tab"] = full if small else [list(r) for r in M]

            def make():
                sm = align.SubstitutionMatrix(a1, a2, arr)
                if combo["arr"] == "F" and not sm.score_matrix().flags["F_CONTIGUOUS"]:
                    sm = align.SubstitutionMatrix(a2, a1, mat.T.copy()).transpose()
                return sm
        elif form == "transposed":
            arr_t = _realise_array(np.ascontiguousarray(mat.T), combo["arr"])
            src["tab"] = arr_t.tolist() if small else [[M[a][b] for a in range(k1)] for b in range(k2)]
            make = lambda: align.SubstitutionMatrix(a2, a1, arr_t).transpose()   # noqa: E731
        elif form == "dict":
            conv = {"int": int, "np32": np.int32, "np64": np.int64}[combo["val"]]
            entries = [(ids1[i], ids2[j], full[i][j]) for i in range(z1) for j in range(z2)]
            need = {(x, y) for x, y, _ in entries}
            extra = [(y, x, 55) for x, y, _ in entries if (y, x) not in need]     # mirrored pairings
            extra = rng.sample(extra, min(len(extra), 3)) + [(ids1[0], 120, 56), (121, ids2[-1], 57)]
            entries += [e for e in extra if rng.random() < 0.6]
            rng.shuffle(entries)
            D = {(_sym(kind, x), _sym(kind, y)): conv(v) for x, y, v in entries}
            src["dict"] = [[x, y, v] for x, y, v in entries]
            make = lambda: align.SubstitutionMatrix(a1, a2, D)                   # noqa: E731
        elif form == "text":
            p1 = list(range(z1))
            p2 = list(range(z2))
            if rng.random() < 0.5:
                rng.shuffle(p1)
                rng.shuffle(p2)
            hdr = [ids2[j] for j in p2]
            rows = [(ids1[i], [full[i][j] for j in p2]) for i in p1]
            text = _text_of([str(_sym(kind, h)) for h in hdr], [(str(_sym(kind, l)), vs) for l, vs in rows], rng)
            src.update(hdr=hdr, rows=[{"l": l, "v": vs} for l, vs in rows])
            make = lambda: align.SubstitutionMatrix(a1, a2, align.SubstitutionMatrix.dict_from_str(text))  # noqa: E731
        else:
            raise ValueError(f"unknown form {form}")
    s1 = seq.GeneralSequence(a1)
    s1.code = np.array(c1, dtype=np.int64)
    s2 = seq.GeneralSequence(a2)
    s2.code = np.array(c2, dtype=np.int64)
    if form != "db" and not small:       # large alphabets: trace validation sees the abstract codes
        c1, c2 = inp["s1"], inp["s2"]
    return s1, s2, make, {"s1": [int(c) for c in c1], "s2": [int(c) for c in c2], "src": src}


def _gap_arg(gap):
    return int(gap[0]) if len(gap) == 1 else (int(gap[0]), int(gap[1]))


def run_case(inp, maxns, combo, ideal=0, seed=0):
    """Execute align_optimal for one abstract input and every max_number; returns the event."""
    import biotite.sequence.align as align

    s1, s2, make, tr = build(inp, combo, random.Random(seed))
    gap = _gap_arg(inp["gap"])
    mode = inp["mode"]
    kw = {"gap_penalty": gap, "terminal_penalty": mode == "global", "local": mode == "local"}
    ev = {"s1": tr["s1"], "s2": tr["s2"], "src": tr["src"], "gap": inp["gap"], "mode": mode,
          "oc": "ok", "scores": [], "traces": [], "rescore": [], "calls": [], "ideal": ideal,
          "inp": inp, "combo": combo, "seed": seed, "exc": "", "where": "",
          "dtypes": [str(s1.code.dtype), str(s2.code.dtype)]}
    index = {}
    scores = set()
    where = "construct"
    try:
        sm = make()
        where = "align"
        for mx in maxns:
            res = align.align_optimal(s1, s2, sm, max_number=mx, **kw)
            idx = []
            for al in res:
                tr_ = [[int(a), int(b)] for a, b in al.trace.tolist()]
                key = json.dumps(tr_)
                if key not in index:
                    index[key] = len(ev["traces"]) + 1
                    ev["traces"].append(tr_)
                    try:
                        v = align.score(al, sm, gap_penalty=gap, terminal_penalty=(mode != "semi"))
                        ev["rescore"].append([int(v)])
                    except Exception:
                        # find_terminal_gaps() needs every sequence to be present in the alignment
                        ev["rescore"].append([])
                idx.append(index[key])
                scores.add(int(al.score))
                if al.sequences[0] is not s1 and list(al.sequences[0].code) != list(s1.code):
                    scores.add(-999999)      # returned alignment refers to other sequences
            ev["calls"].append({"maxn": int(mx), "idx": idx})
    except (ValueError, TypeError, IndexError, KeyError, MemoryError, OverflowError) as e:
        ev.update(oc="Rejected", exc=type(e).__name__, where=where, scores=[], traces=[], rescore=[],
                  calls=[{"maxn": int(m), "idx": []} for m in maxns])
        return ev
    ev["scores"] = sorted(scores)
    return ev


def warmup():
    import biotite.sequence.align  # noqa: F401

    for z in (300, 70000):
        _alphabet("int", range(z))


# --------------------------------------------------------------------------- S2 child
def exec_inputs(item):
    """item: {"cases": [{"inp", "opt", "ndp", "combo", "seed"}]} - cases enumerated by TLC."""
    from harness.tlabind.pool import progress

    events = []
    n_incomplete = 0
    for k, c in enumerate(item["cases"]):
        if k < item.get("skip", 0):
            continue
        progress({"op": "align_optimal", "inp": c["inp"], "combo": c["combo"], "seed": c["seed"], "k": k})
        ev = run_case(c["inp"], MAXNS, c["combo"], seed=c["seed"])
        ev["ndp"] = c["ndp"]
        ev["opt"] = c["opt"]        # the optimum TLC computed for the enumerated input (compared in run())
        events.append(ev)
        # diagnostic only: does max_number=1000 return every trace-back of the model?
        # (not for text sources: finding C08-text-matrix-transposed changes the scoring table)
        if (ev["oc"] == "ok" and ev["scores"] == [c["opt"]] and c["inp"]["mode"] != "local"
                and c["combo"]["form"] != "text" and len(ev["calls"][-1]["idx"]) != min(c["ndp"], 1000)):
            n_incomplete += 1
    return {"events": events, "incomplete": n_incomplete}


# --------------------------------------------------------------------------- S3 child
def _rand_input(rng, big):
    k1 = rng.randint(1, 5)
    k2 = rng.randint(1, 5)
    if rng.random() < 0.4:
        k2 = k1
    lim = 12 if big else 6
    n = rng.randint(0, lim) if rng.random() < 0.9 else 0
    m = rng.randint(0, lim) if rng.random() < 0.9 else 0
    style = rng.random()
    if style < 0.25:      # near-identity: many ties and long diagonals
        M = [[(2 if a == b else -1) for b in range(k2)] for a in range(k1)]
    elif style < 0.35:    # few distinct values
        M = [[rng.choice([-1, 0, 1]) for _ in range(k2)] for _ in range(k1)]
    elif style < 0.45:    # negative only
        M = [[rng.randint(-5, -1) for _ in range(k2)] for _ in range(k1)]
    else:
        M = [[rng.randint(-5, 5) for _ in range(k2)] for _ in range(k1)]
    s1 = [rng.randrange(k1) for _ in range(n)]
    if rng.random() < 0.5 and k1 == k2 and n:    # related sequences
        s2 = [c for c in s1 if rng.random() < 0.8][:m] + [rng.randrange(k2) for _ in range(rng.randint(0, 2))]
        s2 = s2[:lim]
    else:
        s2 = [rng.randrange(k2) for _ in range(m)]
    return {"s1": s1, "s2": s2, "M": M, "gap": _rand_gap(rng), "mode": rng.choice(["global", "semi", "local"])}


def _rand_gap(rng):
    if rng.random() < 0.45:
        return [rng.choice([0, -1, -1, -2, -3, -6])]
    return [rng.choice([0, -1, -2, -3, -6]), rng.choice([0, -1, -1, -2, -4])]


def _rand_combo(rng):
    """any construction form under any realisation (S3)"""
    r = rng.random()
    rel = rng.choice(["same", "equal", "perm", "over", "disj"])
    sym = rng.choice(["int", "str", "letter", "tuple"])
    if r < 0.45:
        z = rng.choice([["u8", "u8"], ["u8", "u8"], ["u16", "u8"], ["u8", "u16"], ["u16", "u16"], ["u32", "u8"],
                        ["u8", "u32"], ["u8p", "u8p"], ["u16", "u8p"], ["k2", "u8"], ["u8", "k2"]])
        arr = rng.choice(ARR_KINDS)
        if "u32" in z and arr == "strided":
            arr = "F"
        return _combo(z[0], z[1], "array", arr=arr, rel=rel, sym=sym)
    if r < 0.55:
        z = rng.choice([["u8", "u8"], ["u16", "u8p"], ["u8", "u32"], ["k2", "u8"], ["u8p", "u8p"]])
        return _combo(z[0], z[1], "transposed", arr=rng.choice(["i64", "i32", "i8", "F", "ro"]), rel=rel, sym=sym)
    z = rng.choice([["u8", "u8"], ["u8", "u8"], ["k2", "k2"], ["k2", "u8"], ["u8", "k2"]])
    if r < 0.8:
        return _combo(z[0], z[1], "dict", rel=rel, sym=sym, val=rng.choice(["int", "np32", "np64"]))
    return _combo(z[0], z[1], "text", rel=rel, sym=rng.choice(["str", "letter"]))


def _rand_db_case(rng, names, big):
    """SubstitutionMatrix(alphabet1, alphabet2, "NAME"): sequences over sub-alphabets of a database file"""
    name = rng.choice(names)
    hdr, _rows = _db_grid(name)
    a1 = rng.sample(hdr, rng.randint(1, 5))
    r = rng.random()
    a2 = list(a1) if r < 0.5 else (rng.sample(a1, len(a1)) if r < 0.7 else rng.sample(hdr, rng.randint(1, 5)))
    lim = 10 if big else 5
    s1 = [rng.randrange(len(a1)) for _ in range(rng.randint(0, lim))]
    s2 = [rng.randrange(len(a2)) for _ in range(rng.randint(0, lim))]
    gap = rng.choice([[-3], [-8], [-12, -2], [-5, -5], [0], [-4, 0]])
    combo = {"z": ["db", "db"], "form": "db", "name": name, "a1": a1, "a2": a2, "arr": "", "val": "",
             "rel": rng.choice(["same", "equal"]), "sym": rng.choice(["letter", "str1"])}
    return {"s1": s1, "s2": s2, "gap": gap, "mode": rng.choice(["global", "semi", "local"])}, combo


def gen_events(item):
    from harness.tlabind.pool import progress

    rng = random.Random(item["seed"])
    names = item["db"]
    events = []
    for k in range(item["count"]):
        if names and rng.random() < 0.07:
            inp, combo = _rand_db_case(rng, names, item["big"])
        else:
            inp = _rand_input(rng, item["big"])
            combo = _rand_combo(rng)
        r = rng.random()
        maxns = [rng.choice([1, 2, 3, 5]), 1000] if r < 0.9 else [rng.choice([1, 4])]
        if r >= 0.94:       # documented refusals
            if rng.random() < 0.5:
                inp["gap"] = [1] if len(inp["gap"]) == 1 else rng.choice([[1, -1], [-1, 2]])
            else:
                maxns = [0]
        seed = rng.randrange(1 << 30)
        small = len(inp["s1"]) <= 3 and len(inp["s2"]) <= 3
        if k < item.get("skip", 0):
            continue
        progress({"op": "align_optimal", "inp": inp, "combo": combo, "seed": seed, "maxns": maxns, "k": k})
        ev = run_case(inp, maxns, combo, ideal=1 if small else 0, seed=seed)
        # keep events small: an all-ties input can return 1000 alignments
        if len(ev["traces"]) > 120:
            continue
        events.append(ev)
    return {"events": events}


# --------------------------------------------------------------------------- classification
def _is_affine_empty(inp):
    return (len(inp.get("gap", [])) == 2 and inp.get("mode") in ("global", "semi")
            and (len(inp.get("s1", [0])) == 0 or len(inp.get("s2", [0])) == 0))


def classify(mm):
    """C08-affine-empty-sequence: affine penalty, not local, one sequence empty -> IndexError
    from the table initialisation of align_optimal instead of the (all-gap) optimum.
    C08-text-matrix-transposed: matrix handed over as text (dict_from_str); square block: the
    recorded call is exactly what the property demands under the block-transposed reading
    (decided by TLC: KB_AsTransposedText); non-square block: IndexError while constructing."""
    if mm.get("kind") == "event" and mm.get("op") == "align_optimal":
        inp = mm.get("inp", {})
        obs = mm.get("observed", {})
        exp = mm.get("expected", {})
        if (_is_affine_empty(inp) and exp.get("oc") == "ok" and obs.get("oc") == "Rejected"
                and obs.get("exc") == "IndexError" and obs.get("where") == "align"):
            return "C08-affine-empty-sequence"
        if mm.get("src_form") == "text" and exp.get("oc") == "ok":
            grid = mm.get("grid") or [0, 0]
            if grid[0] == grid[1] and obs.get("oc") == "ok" and mm.get("kb_transposed_text") is True:
                return "C08-text-matrix-transposed"
            if (grid[0] != grid[1] and obs.get("oc") == "Rejected" and obs.get("exc") == "IndexError"
                    and obs.get("where") == "construct"):
                return "C08-text-matrix-transposed"
    return None


# --------------------------------------------------------------------------- TLC side
_KEEP = ("s1", "s2", "src", "gap", "mode", "oc", "scores", "traces", "rescore", "calls", "ideal")
FLAGS = ("oc", "score", "ideal", "traces", "count", "distinct", "rescore")


def validate(ctx, events, *, stage, selftest=False, workers=8, per_trace=40, timeout=1500, chunk=60000):
    """TLC validates events (specs/C08/Trace.tla), at most `chunk` events per TLC run.
    Returns list of (event_index, flags, exp_oc, exp_score, kb) - kb: TLC's verdict that the event
    has exactly the shape of the known finding C08-text-matrix-transposed."""
    if len(events) > chunk:
        out = []
        for off in range(0, len(events), chunk):
            o = validate(ctx, events[off:off + chunk], stage=stage, selftest=selftest, workers=workers,
                         per_trace=per_trace, timeout=timeout, chunk=chunk)
            out += [(ix + off, *rest) for ix, *rest in o]
        return out
    from harness.tlabind import tlc as T
    from harness.tlabind.tlaval import parse_value, to_py

    if not events:
        return []
    traces = [events[i:i + per_trace] for i in range(0, len(events), per_trace)]
    d = T.scratch_dir("c08tr")
    tf = os.path.join(d, "traces.json")
    with open(tf, "w") as f:
        json.dump([[{k: e[k] for k in _KEEP} for e in tr] for tr in traces], f)
    res = ctx.tlc("Trace", "Trace.cfg", stage=stage + ("-selftest" if selftest else ""),
                  workers=workers, env={"TRACE_FILE": tf}, count=not selftest, timeout=timeout)
    expect = sum(len(t) + 1 for t in traces)
    if res.distinct != expect:
        raise RuntimeError(f"C08 {stage}: trace validation visited {res.distinct} states, expected {expect}")
    if T.printed_values(res.out, "BADEVENT"):
        raise RuntimeError(f"C08 {stage}: the driver recorded an event outside Dom_Event: "
                           f"{T.printed_values(res.out, 'BADEVENT')[:3]}")
    out = []
    for txt in T.printed_values(res.out, "MISMATCH"):
        v = to_py(parse_value(txt))
        _tag, tid, l, flags, eoc, esc, kb = v
        out.append(((tid - 1) * per_trace + (l - 1), flags, eoc, esc, kb))
    return out


def _event_mismatch(ev, flags, eoc, esc, kb, stage):
    bad = [n for n, ok in zip(FLAGS, flags) if not ok]
    src = ev["src"]
    return {"stage": stage, "kind": "event", "op": "align_optimal",
            "inp": ev["inp"], "combo": ev["combo"], "seed": ev["seed"],
            "src_form": src["form"], "grid": [len(src["rows"]), len(src["hdr"])],
            "kb_transposed_text": bool(kb),
            "maxns": [c["maxn"] for c in ev["calls"]], "bad": bad,
            "expected": {"oc": eoc, "score": esc},
            "observed": {"oc": ev["oc"], "exc": ev.get("exc", ""), "where": ev.get("where", ""),
                         "scores": ev["scores"],
                         "traces": ev["traces"][:8], "rescore": ev["rescore"][:8],
                         "counts": [len(c["idx"]) for c in ev["calls"]]},
            "ideal": ev.get("ideal", 0)}


def _asymmetric(M):
    return M is not None and len(M) == len(M[0]) and any(M[a][b] != M[b][a] for a in range(len(M)) for b in range(a))


_RE_STATE = re.compile(
    r'/\\ inp = \[ ?s1 \|-> (.*?), s2 \|-> (.*?), mat \|-> (.*?), gap \|-> (.*?), mode \|-> "(\w+)" ?\] '
    r'/\\ phase = "done" '
    r'/\\ out = \[ ?opt \|-> (-?\d+), dp \|-> (-?\d+), ndp \|-> (\d+), nopt \|-> (\d+),')


def _seq(txt):
    return json.loads(txt.replace("<<", "[").replace(">>", "]"))


def parse_dump_fast(path):
    """The dump has one fixed record layout; a regular expression is much faster than the
    general value parser (the general parser is used to cross-check a sample)."""
    with open(path) as f:
        text = f.read()
    blocks = text.split("\nState ")
    out = []
    for b in blocks:
        if '"done"' not in b:
            continue
        b = " ".join(b.split())
        m = _RE_STATE.search(b)
        if not m:
            raise RuntimeError(f"unparsable dump state: {b[:300]}")
        out.append({"s1": _seq(m.group(1)), "s2": _seq(m.group(2)), "M": _seq(m.group(3)),
                    "gap": _seq(m.group(4)), "mode": m.group(5), "opt": int(m.group(6)),
                    "dp": int(m.group(7)), "ndp": int(m.group(8)), "nopt": int(m.group(9))})
    return out, blocks


def run(ctx):
    from harness.tlabind import pool, tlc
    from harness.tlabind.core import Vacuity
    from harness.tlabind.tlaval import parse_dump, to_py

    quick = ctx.quick
    ctx.assumptions += [
        "Dom_Gap: penalties <= 0 (positive penalties / max_number < 1 are modelled as the outcome Rejected)",
        "scores within -5..5 and penalties within -6..0 (database matrices: Dom_DbScores, files with one-character symbols and scores within -40..40, penalties within -12..0): int32 overflow is outside the model",
        "Dom_Src: well-formed matrix sources only (rectangular ndarray of the alphabets' shape and an integer dtype, complete dictionary with unique keys, text with a header line, distinct labels and one number per column); dictionaries and texts over alphabets of at most 7 symbols; a missing pairing (documented KeyError) is not exercised here (specs/X07)",
        "the dtype, memory order, strides and writability of an ndarray, the type of dictionary values, the kind of the symbols and the layout of a text are realisations of the same source (not inputs of the specification)",
        "exhaustive model: 2-letter alphabet, length <= 3 (thorough: <= 4; 3 letters, length <= 3); larger inputs only through recorded calls, where the expected optimum is the specification's dynamic programme",
        "symbol codes up to uint32 (alphabets of 300 / 70000 symbols); 64-bit codes are not reachable",
        "trusted: TLC, the dump parser (cross-checked against the general TLA+ value parser), numpy, the projection Alignment.trace/score -> lists",
    ]
    ctx.cov["rule"] = ("non-trivial = the optimum is not reached by the gap-free diagonal alignment alone: "
                       "the model has more than one optimal trace-back, or a returned trace contains a gap, "
                       "or (local) covers only part of the sequences")
    # ---- S1 ----------------------------------------------------------------------------
    cfgs = [("MC.cfg", 2)] if quick else [("MC_thorough2.cfg", 2), ("MC_thorough.cfg", 2), ("MC_thorough3.cfg", 3)]
    cases = []
    for cfg, k in cfgs:
        d = tlc.scratch_dir("c08dump")
        prefix = os.path.join(d, "states")
        res = ctx.tlc("OptimalAlign", cfg, stage="S1", dump=prefix, workers=12, timeout=9000)
        path = prefix + ".dump" if os.path.exists(prefix + ".dump") else prefix
        sts, blocks = parse_dump_fast(path)
        if 2 * len(sts) != res.distinct:
            raise RuntimeError(f"dump has {len(sts)} result states, TLC reported {res.distinct} states")
        # cross-check the fast parser on a sample with the general parser
        sample_txt = "\n".join("State " + b for b in blocks[1:400])
        sp = os.path.join(d, "sample.dump")
        with open(sp, "w") as f:
            f.write(sample_txt)
        gen = [{kk: to_py(v) for kk, v in st.items()} for st in parse_dump(sp)]
        gen = [g for g in gen if g["phase"] == "done"]
        fast = {json.dumps([s["s1"], s["s2"], s["M"], s["gap"], s["mode"]]): s for s in sts}
        for g in gen:
            key = json.dumps([g["inp"]["s1"], g["inp"]["s2"], g["inp"]["mat"], g["inp"]["gap"], g["inp"]["mode"]])
            f_ = fast.get(key)
            if f_ is None or f_["opt"] != g["out"]["opt"] or f_["ndp"] != g["out"]["ndp"]:
                raise RuntimeError("fast dump parser disagrees with the general parser")
        for s in sts:
            cases.append({"inp": {"s1": s["s1"], "s2": s["s2"], "M": s["M"], "gap": s["gap"],
                                  "mode": s["mode"]},
                          "opt": s["opt"], "ndp": s["ndp"], "nopt": s["nopt"]})
    ctx.exhaustive = True
    # TLC writes the dump in a worker-dependent order: make the order canonical (determinism)
    cases.sort(key=lambda c: json.dumps(c["inp"], sort_keys=True))
    # vacuity: the bounded domain must contain the interesting situations
    seen = {
        "modes": {c["inp"]["mode"] for c in cases},
        "affine": any(len(c["inp"]["gap"]) == 2 for c in cases),
        "linear": any(len(c["inp"]["gap"]) == 1 for c in cases),
        "ties": sum(1 for c in cases if c["ndp"] > 1),
        "local_positive": sum(1 for c in cases if c["inp"]["mode"] == "local" and c["opt"] > 0),
        "local_zero": sum(1 for c in cases if c["inp"]["mode"] == "local" and c["opt"] == 0),
        "negative_opt": sum(1 for c in cases if c["opt"] < 0),
        "empty_seq": sum(1 for c in cases if not c["inp"]["s1"] or not c["inp"]["s2"]),
    }
    if (seen["modes"] != {"global", "semi", "local"} or not seen["affine"] or not seen["linear"]
            or min(seen["ties"], seen["local_positive"], seen["local_zero"], seen["negative_opt"],
                   seen["empty_seq"]) == 0):
        raise Vacuity(f"bounded domain misses a situation: {seen}")
    ctx.cov["s1_inputs"] = len(cases)
    ctx.cov["s1_situations"] = {k: (sorted(v) if isinstance(v, set) else v) for k, v in seen.items()}
    # ---- S2 ----------------------------------------------------------------------------
    # every enumerated input is executed under one construction form / realisation: a third under
    # the plain one, the others rotate through COMBOS (the assignment depends on VERIF_SEED only)
    order = list(range(len(cases)))
    ctx.rng.shuffle(order)
    for pos, ci in enumerate(order):
        cases[ci]["combo"] = COMBOS[(pos - pos // 3 - 1) % len(COMBOS)] if pos % 3 else DEFAULT
        cases[ci]["seed"] = ctx.rng.randrange(1 << 30)
    per = 150
    items = [{"cases": [cases[ci] for ci in order[i:i + per]]} for i in range(0, len(order), per)]
    results = _run_pool(ctx, "harness.drivers.c08:exec_inputs", items, "S2")
    events = []
    incomplete = 0
    for r in results:
        if r and "events" in r:
            events += r["events"]
            incomplete += r.get("incomplete", 0)
    ctx.log(f"S2: {len(events)} inputs executed ({sum(len(e['calls']) for e in events)} calls)")
    mms = validate(ctx, events, stage="S2", workers=12)
    flagged = {}
    for ix, flags, eoc, esc, kb in mms:
        flagged[ix] = flags
        ctx.mismatch(_event_mismatch(events[ix], flags, eoc, esc, kb, "S2"))
    # the optimum TLC computed for the enumerated input (S1) against the reported score; when TLC
    # has already rejected the reported score of the recorded call, that record carries the verdict
    for ix, e in enumerate(events):
        if e["oc"] == "ok" and e["scores"] != [e["opt"]] and (ix not in flagged or flagged[ix][1]):
            ctx.mismatch({"stage": "S2", "kind": "score", "op": "align_optimal", "inp": e["inp"],
                          "combo": e["combo"], "seed": e["seed"], "expected": {"opt": e["opt"]},
                          "observed": {"scores": e["scores"], "traces": e["traces"][:5]}})
    # vacuity: every construction form met a non-symmetric matrix over identical / equal alphabets
    forms_asym = _count(e["src"]["form"] for e in events
                        if _asymmetric(e["inp"].get("M")) and e["src"]["a1"] == e["src"]["a2"])
    if set(forms_asym) != {"array", "transposed", "dict", "text"}:
        vacuity(ctx, f"S2: a construction form never met a non-symmetric matrix: {forms_asym}")
    ctx.cov["s2_forms"] = _count(e["src"]["form"] for e in events)
    ctx.cov["s2_forms_asymmetric_same_alphabet"] = forms_asym
    ctx.cov["s2_combos"] = _count(_combo_name(e["combo"]) for e in events)
    if incomplete:
        ctx.note(f"S2 diagnostic (no verdict): {incomplete} end-to-end inputs where max_number=1000 did not "
                 "return exactly the model's number of optimal trace-backs")
    ctx.traces_validated += len(events)
    ctx.evaluations += sum(len(e["calls"]) for e in events)
    ctx.cov["s2_inputs"] = len(events)
    ctx.cov["s2_calls"] = sum(len(e["calls"]) for e in events)
    ctx.cov["s2_alignments_validated"] = sum(len(e["traces"]) for e in events)
    ctx.cov["s2_reps"] = _count(e["dtypes"][0] + "/" + e["dtypes"][1] for e in events)
    ctx.cov["s2_outcomes"] = _count(e["oc"] for e in events)
    ctx.cov["s2_complete_diag_misses"] = incomplete
    ctx.nontrivial += sum(1 for e in events if _nontrivial(e))
    for e in events[:2]:
        ctx.sample({"s2_event": {k: e[k] for k in _KEEP}})
    # ---- S3 ----------------------------------------------------------------------------
    nitems, count = (16, 60) if quick else (64, 250)
    names = db_names()
    if len(names) < 20:
        raise Vacuity(f"only {len(names)} database matrices within Dom_DbScores")
    sitems = [{"seed": ctx.rng.randrange(1 << 30), "count": count, "big": (k % 2 == 1), "db": names}
              for k in range(nitems)]
    sres = _run_pool(ctx, "harness.drivers.c08:gen_events", sitems, "S3")
    sev = []
    for r in sres:
        if r and "events" in r:
            sev += r["events"]
    mms = validate(ctx, sev, stage="S3", per_trace=25)
    for ix, flags, eoc, esc, kb in mms:
        ctx.mismatch(_event_mismatch(sev[ix], flags, eoc, esc, kb, "S3"))
    ctx.traces_validated += len(sev)
    ctx.evaluations += sum(len(e["calls"]) for e in sev)
    ctx.cov["s3_events"] = len(sev)
    ctx.cov["s3_outcomes"] = _count(e["oc"] for e in sev)
    ctx.cov["s3_forms"] = _count(e["combo"]["form"] for e in sev)
    if set(ctx.cov["s3_forms"]) != {"array", "transposed", "dict", "text", "db"}:
        vacuity(ctx, f"S3 missed a construction form: {ctx.cov['s3_forms']}")
    ctx.cov["s3_ideal_checked"] = sum(1 for e in sev if e["ideal"] == 1)
    ctx.cov["s3_max_len"] = max([max(len(e["s1"]), len(e["s2"])) for e in sev] or [0])
    ctx.cov["s3_alignments_validated"] = sum(len(e["traces"]) for e in sev)
    ctx.nontrivial += sum(1 for e in sev if _nontrivial(e))
    if not any(e["oc"] == "Rejected" for e in sev) or not any(e["oc"] == "ok" and len(e["s1"]) > 4 for e in sev):
        vacuity(ctx, "S3 generated no refusal or no input beyond the exhaustive bounds")
    for e in sev[:2]:
        ctx.sample({"s3_event": {k: e[k] for k in _KEEP}})
    # ---- binding self-test -------------------------------------------------------------
    flagged3 = {ix for ix, *_ in mms}
    clean = [e for ix, e in enumerate(sev) if ix not in flagged3]
    good = [e for e in clean if e["oc"] == "ok" and e["traces"] and len(e["traces"][0]) >= 2][:12]
    bad = []
    for n, e in enumerate(good):
        e = json.loads(json.dumps(e))
        kind = n % 4
        if kind == 0:
            e["scores"] = [e["scores"][0] + 1]                      # reported score off by one
        elif kind == 1:
            e["traces"][0] = e["traces"][0][:-1]                    # truncated trace
        elif kind == 2:
            e["calls"][0]["idx"] = e["calls"][0]["idx"] + [e["calls"][0]["idx"][0]] * e["calls"][0]["maxn"]
        else:
            e["traces"][0][0], e["traces"][0][1] = e["traces"][0][1], e["traces"][0][0]   # order broken
        bad.append(e)
    # the caller's source is what TLC judges against: one event per form whose source is changed
    # (every score one higher; the recorded optimal alignment has a pair column, so the optimum moves)
    shifted = {}
    for e in clean:
        form = e["src"]["form"]
        if (form not in shifted and e["oc"] == "ok" and e["traces"]
                and all(any(a >= 0 and b >= 0 for a, b in t) for t in e["traces"])):
            e = json.loads(json.dumps(e))
            src = e["src"]
            src["tab"] = [[v + 1 for v in row] for row in src["tab"]]
            src["dict"] = [[x, y, v + 1] for x, y, v in src["dict"]]
            src["rows"] = [{"l": r["l"], "v": [v + 1 for v in r["v"]]} for r in src["rows"]]
            shifted[form] = e
    if set(shifted) != {"array", "transposed", "dict", "text"}:
        vacuity(ctx, f"binding self-test: no recorded event to corrupt for some form: {sorted(shifted)}")
    bad += [shifted[k] for k in sorted(shifted)]
    if len(bad) < 4:
        vacuity(ctx, "binding self-test: not enough recorded events to corrupt")
        return
    rej = validate(ctx, bad, stage="S3", selftest=True, per_trace=1, workers=2)
    hit = {ix for ix, *_ in rej}
    if len(hit) < len(bad):
        raise Vacuity(f"binding self-test: {len(bad)} corrupted events, only {len(hit)} rejected")
    ctx.cov["selftest_corrupted_rejected"] = len(hit)


def _combo_name(c):
    return "/".join([c["form"], c["z"][0], c["z"][1], c["arr"] if c["form"] in ("array", "transposed") else c["val"],
                     c["rel"], c["sym"]])


def _count(it):
    out = {}
    for x in it:
        out[x] = out.get(x, 0) + 1
    return out


def _nontrivial(e):
    if e["oc"] != "ok":
        return False
    if e.get("ndp", 1) > 1 or len(e["traces"]) > 1:
        return True
    n, m = len(e["s1"]), len(e["s2"])
    for t in e["traces"]:
        if any(a == -1 or b == -1 for a, b in t):
            return True
        if e["mode"] == "local" and 0 < len(t) < min(n, m):
            return True
    return False


def _run_pool(ctx, target, items, stage, rounds=8):
    """Crash-isolated execution that does not lose the rest of an item: when a child dies
    in call number k of an item (known from the progress record), the crash becomes a mismatch
    record and the item is resubmitted with skip = k + 1."""
    from harness.tlabind import pool

    out = []
    todo = [dict(it, skip=it.get("skip", 0)) for it in items]
    for _ in range(rounds):
        if not todo:
            break
        results = pool.run_isolated(target, todo, item_timeout=300)
        nxt = []
        for it, r in zip(todo, results):
            if r is None:
                raise RuntimeError(f"{stage}: missing result")
            if "driver_error" in r:
                raise RuntimeError(f"{stage}: driver error {r['driver_error']}\n{r.get('tb', '')}")
            if "crash" in r:
                prog = r.get("progress") or {}
                ctx.mismatch({"stage": stage, "kind": "crash", "signal": r["crash"], "progress": prog})
                if isinstance(prog.get("k"), int):
                    nxt.append(dict(it, skip=prog["k"] + 1))
                continue
            for mm in r.get("mismatch", ()):
                mm.setdefault("stage", stage)
                ctx.mismatch(mm)
            out.append(r)
        todo = nxt
    return out


def vacuity(ctx, msg):
    """A missing situation is a machinery failure - unless violations were found, which are the
    likely cause (crashed children lose calls) and must be reported first."""
    from harness.tlabind.core import Vacuity

    if ctx.violations:
        ctx.note("vacuity guard not evaluated because violations were found: " + msg)
    else:
        raise Vacuity(msg)


# --------------------------------------------------------------------------- replay
def replay(record):
    """Re-execute one stored mismatch against the current code; TLC judges the fresh event."""
    from harness.tlabind import tlc as T

    inp = record.get("inp")
    if not inp:
        return {"error": "record has no input", "record": record}
    combo = record.get("combo") or DEFAULT
    maxns = record.get("maxns") or list(MAXNS)
    small = len(inp["s1"]) <= 3 and len(inp["s2"]) <= 3
    ev = run_case(inp, maxns, combo, ideal=1 if small else 0, seed=record.get("seed", 0))
    out = {"observed": {"oc": ev["oc"], "exc": ev["exc"], "scores": ev["scores"], "traces": ev["traces"][:8],
                        "counts": [len(c["idx"]) for c in ev["calls"]]},
           "expected": record.get("expected")}
    if record.get("kind") == "score":
        out["mismatch"] = ev["oc"] != "ok" or ev["scores"] != [record["expected"]["opt"]]
        return out
    d = T.scratch_dir("c08replay")
    tf = os.path.join(d, "t.json")
    with open(tf, "w") as f:
        json.dump([[{k: ev[k] for k in _KEEP}]], f)
    res = T.run_tlc(os.path.join(T.VERIF, "specs", "C08"), "Trace", "Trace.cfg", workers=1,
                    env={"TRACE_FILE": tf}, timeout=600)
    T.require_ok(res, "C08 replay")
    mm = T.printed_values(res.out, "MISMATCH")
    out["tlc"] = mm
    out["mismatch"] = bool(mm)
    return out
