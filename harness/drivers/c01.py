"""C01 — atom arrays and stacks stay coherent under any sequence of operations.

S1  TLC: specs/C01/AtomContainer.tla (reference list-of-atoms model, all operations of the
    property, every index in every form numpy accepts), invariants Coherent / RefusalIsNoOp /
    BondsFollowAtoms.
S2  every transition of the state graph replayed against real AtomArray / AtomArrayStack
    objects: after each call the real object is projected (annotations, coordinates of every
    model, box, bonds, optional annotations) and compared with the spec state, and compared
    through the public `==` with an object built from scratch from the spec state.
S3  random histories on bigger objects recorded and validated by TLC (Trace.tla).
"""

from __future__ import annotations

import json
import os
import random

PROPERTY = "C01"
EXTRAS = ("b_factor", "flag", "label", "vec", "grid", "names")
# specification: ShapedExtras / PerAtomShape - optional annotations whose per-atom value is an array
SHAPED = {"vec": ((3,), "f"), "grid": ((2, 2), "iu"), "names": ((2,), "U")}
_G = None


def warmup():
    import biotite.structure  # noqa: F401

    if "C01_GRAPH" in os.environ:
        _graph()


def _graph():
    global _G
    if _G is None:
        with open(os.environ["C01_GRAPH"]) as f:
            _G = json.load(f)
    return _G


# --------------------------------------------------------------------------- abstract <-> real
def _np():
    import numpy as np

    return np


def cell_coord(c):
    return [float(c), float(c) / 2.0, -float(c)]


def chain_of(uid):
    """chain_id is a function of the atom's uid whose *width* differs between the atoms an
    object is built from (uid <= 50) and the atoms of concatenation operands (uid > 50), so
    that concatenation has to widen the annotation dtype."""
    return f"CHN{uid}" if 51 <= uid <= 59 else "X"


def extra_value(name, uid):
    if name == "b_factor":
        # integral for constructed atoms (stored with an integer dtype), fractional for operands
        return float(uid) + 0.5 if 51 <= uid <= 59 else uid
    if name == "flag":
        return bool(uid % 2)
    if name == "label":
        return f"L{uid:02d}"
    # array-valued (nested lists of the per-atom shape); exact in float32; the strings of
    # concatenation operands are wider than those of constructed atoms
    if name == "vec":
        return [float(uid) + 0.5, float(2 * uid), -float(uid)]
    if name == "grid":
        return [[uid, uid + 1], [2 * uid, -uid]]
    if name == "names":
        return [f"NAME{uid}", f"M{uid}"] if 51 <= uid <= 59 else [f"N{uid:02d}", f"M{uid:02d}"]
    raise KeyError(name)


def extra_array(name, uids):
    """The annotation array of an optional category for the atoms `uids` (specification:
    AnnotShape = (n,) + PerAtomShape)."""
    np = _np()
    vals = [extra_value(name, u) for u in uids]
    if name in SHAPED:
        shape = (len(uids),) + SHAPED[name][0]
        if name == "vec":
            return np.array(vals, dtype=np.float32).reshape(shape)
        if name == "grid":
            return np.array(vals, dtype=np.int64).reshape(shape)
        wide = any(51 <= u <= 59 for u in uids)
        return np.array(vals, dtype="U6" if wide else "U3").reshape(shape)
    dt = {"b_factor": int if all(isinstance(v, int) for v in vals) else float,
          "flag": bool, "label": "U3"}[name]
    return np.array(vals, dtype=dt)


def set_extra(obj, name, uids):
    """Give obj the optional annotation `name`: through add_annotation() with a sub-array dtype
    followed by filling in place ("vec" on an object that does not have it), otherwise through
    set_annotation() with the complete array."""
    np = _np()
    arr = extra_array(name, uids)
    if name == "vec" and name not in obj.get_annotation_categories():
        obj.add_annotation(name, dtype=(np.float32, 3))
        obj.get_annotation(name)[...] = arr
    else:
        obj.set_annotation(name, arr)


def atom_extras(atom):
    """Optional annotations an Atom object carries, each required to hold the value of the atom's
    uid (specification: AtomOut, 4th component)."""
    np = _np()
    uid = int(atom.atom_name[1:])
    out = []
    for name in EXTRAS:
        try:
            v = getattr(atom, name)
        except AttributeError:
            continue
        want = extra_value(name, uid)
        if name in SHAPED:
            v = np.asarray(v)
            good = v.shape == SHAPED[name][0] and v.dtype.kind in SHAPED[name][1] and v.tolist() == want
        else:
            good = bool(v == want)
        out.append(name if good else f"{name}!not-the-atoms-value")
    return sorted(out)


def name_of(uid):
    return f"A{uid:02d}"


def make_atom(uid, tag, cell, ex, float_b=False):
    import biotite.structure as struc

    kw = {name: (extra_array(name, [uid])[0] if name in SHAPED else extra_value(name, uid)) for name in ex}
    if float_b and "b_factor" in kw:
        kw["b_factor"] = float(kw["b_factor"])  # array() takes the dtype from the first atom
    return struc.Atom(cell_coord(cell), atom_name=name_of(uid), res_id=int(tag), chain_id=chain_of(uid),
                      res_name="RES", element="C", **kw)


def box_matrix(v):
    np = _np()
    return np.eye(3, dtype=np.float32) * float(v)


def build(S, via_constructors=False):
    """Abstract object -> real object. With via_constructors the public builders
    array()/stack() are used (this is the plain list-of-atoms reference construction)."""
    import biotite.structure as struc

    np = _np()
    n = len(S["a"])
    d = len(S["z"])
    ex = list(S["ex"])
    uids = [u for u, _ in S["a"]]
    if via_constructors and n > 0 and d > 0:
        # array() derives the dtype of a category from type(value) of the first Atom: Atoms with
        # array-valued annotations give an object array, which is outside the statement
        # (construction from Atoms is not one of its operations) - the array-valued categories
        # are added to the constructed arrays with add_annotation / set_annotation
        scalar_ex = [e for e in ex if e not in SHAPED]
        arrays = []
        for k in range(d):
            fb = any(51 <= u <= 59 for u, _ in S["a"])
            atoms = [make_atom(u, t, S["z"][k][i], scalar_ex, fb) for i, (u, t) in enumerate(S["a"])]
            arr = struc.array(atoms)
            for name in ex:
                if name in SHAPED:
                    set_extra(arr, name, uids)
            arrays.append(arr)
        obj = arrays[0] if S["kind"] == "array" else struc.stack(arrays)
    else:
        obj = struc.AtomArray(n) if S["kind"] == "array" else struc.AtomArrayStack(d, n)
        obj.atom_name = np.array([name_of(u) for u, _ in S["a"]], dtype="U6")
        obj.res_id = np.array([t for _, t in S["a"]], dtype=int)
        obj.chain_id = np.array([chain_of(u) for u, _ in S["a"]]) if n else np.array([], dtype="U1")
        obj.res_name = np.array(["RES"] * n, dtype="U5")
        obj.element = np.array(["C"] * n, dtype="U2")
        for name in ex:
            obj.set_annotation(name, extra_array(name, uids))
        co = np.array([[cell_coord(c) for c in row] for row in S["z"]], dtype=np.float32).reshape(d, n, 3)
        obj.coord = co[0] if S["kind"] == "array" else co
    if S["box"]:
        b = np.stack([box_matrix(v) for v in S["box"][0]]) if S["box"][0] else np.zeros((0, 3, 3), np.float32)
        obj.box = b[0] if S["kind"] == "array" else b
    else:
        obj.box = None
    if S["bonds"]:
        rows = [list(r) for r in S["bonds"][0]]
        obj.bonds = struc.BondList(n, np.array(rows, dtype=np.int64).reshape(-1, 3)) if rows else struc.BondList(n)
    else:
        obj.bonds = None
    return obj


def _cells(co):
    """(n,3) coordinates -> list of cells, or a marker when the triple is not (c, c/2, -c)."""
    np = _np()
    out = []
    for x, y, z in co.tolist():
        if x == int(x) and y == x / 2.0 and z == -x:
            out.append(int(x))
        else:
            out.append(f"corrupt:{x},{y},{z}")
    return out


def _project(obj):
    import biotite.structure as struc

    np = _np()
    kind = "array" if isinstance(obj, struc.AtomArray) else "stack"
    n = obj.array_length()
    cats = obj.get_annotation_categories()
    # coherence of the representation is part of the observation
    problems = []
    for c in cats:
        if len(obj.get_annotation(c)) != n:
            problems.append(f"annotation {c} has length {len(obj.get_annotation(c))} != {n}")
    co = obj.coord
    want_shape = (n, 3) if kind == "array" else (obj.stack_depth(), n, 3)
    if co is None or co.ndim != len(want_shape) or co.shape[-2:] != (n, 3):
        # length / depth / dimensionality of the coordinates do not match the container
        return {"kind": kind, "a": [], "z": [[]], "box": [], "bonds": [], "ex": [],
                "incoherent": [f"coord shape {None if co is None else tuple(co.shape)} on a {kind} of "
                               f"{n} atoms"]}
    names = obj.atom_name.tolist()
    a = []
    for nm, tag in zip(names, obj.res_id.tolist()):
        try:
            a.append([int(nm[1:]), int(tag)])
        except ValueError:
            a.append([f"corrupt:{nm}", int(tag)])
    if kind == "array":
        z = [_cells(co)]
    else:
        z = [_cells(co[k]) for k in range(co.shape[0])]
    box = []
    if obj.box is not None:
        bx = obj.box if kind == "stack" else obj.box[None]
        if bx.ndim != 3 or bx.shape[1:] != (3, 3):
            problems.append(f"box shape {tuple(obj.box.shape)} on a {kind}")
            bx = np.zeros((0, 3, 3))
        elif kind == "stack" and bx.shape[0] != co.shape[0]:
            problems.append(f"{bx.shape[0]} boxes for {co.shape[0]} models")
        vals = []
        for m in bx:
            v = float(m[0, 0])
            vals.append(int(v) if np.array_equal(m, box_matrix(v)) and v == int(v) else f"corrupt:{m.tolist()}")
        box = [vals]
    bonds = []
    if obj.bonds is not None:
        if obj.bonds.get_atom_count() != n:
            problems.append(f"bond list has {obj.bonds.get_atom_count()} atoms != {n}")
        bonds = [sorted([int(x), int(y), int(t)] for x, y, t in obj.bonds.as_array().tolist())]
    ex = []
    for name in EXTRAS:
        if name in cats:
            arr = obj.get_annotation(name)
            # specification: AnnotShape(S, name) = (n,) + PerAtomShape(name)
            pshape, kinds = SHAPED.get(name, ((), None))
            if arr.shape != (n,) + pshape:
                ex.append(f"{name}!shape{tuple(arr.shape)}")
                continue
            if kinds is not None and arr.dtype.kind not in kinds:
                ex.append(f"{name}!dtype-{arr.dtype}")
                continue
            vals = arr.tolist()
            good = all(isinstance(u, int) and v == extra_value(name, u) for (u, _), v in zip(a, vals))
            ex.append(name if good else f"{name}!not-following-atoms")
    if obj.chain_id.tolist() != [chain_of(u) if isinstance(u, int) else None for u, _ in a]:
        ex.append("chain_id!not-following-atoms")
    other = sorted(set(cats) - set(EXTRAS) - {"chain_id", "res_id", "ins_code", "res_name", "hetero",
                                             "atom_name", "element"})
    ex += [f"unexpected:{c}" for c in other]
    out = {"kind": kind, "a": a, "z": z, "box": box, "bonds": bonds, "ex": sorted(ex)}
    if problems:
        out["incoherent"] = problems
    return out


def project(obj):
    """Real object -> the specification's abstract value (plus an "incoherent" list when length,
    depth or shapes of the parts do not describe the same atoms and models)."""
    import biotite.structure as struc

    try:
        return _project(obj)
    except Exception as e:  # noqa: BLE001 - an object that cannot even be read is incoherent
        kind = "array" if isinstance(obj, struc.AtomArray) else "stack"
        return {"kind": kind, "a": [], "z": [[]], "box": [], "bonds": [], "ex": [],
                "incoherent": [f"projection failed: {type(e).__name__}: {e}"]}


class DriverError(Exception):
    """A request the driver cannot realise (outside the form domain): machinery, never a verdict."""


_NPT = {"i8": "int8", "i16": "int16", "i32": "int32", "i64": "int64",
        "u8": "uint8", "u16": "uint16", "u32": "uint32", "u64": "uint64"}
INT_FORMS = ("py",) + tuple(_NPT) + ("a0",)
SCALAR_INT_FORMS = ("py",) + tuple(_NPT)
ARR_FORMS = ("list",) + tuple(_NPT)
MASK_FORMS = ("np", "list")
SLICE_FORMS = ("py", "np")


def fits_form(v, form):
    """The specification's FitsForm."""
    np = _np()
    if form in _NPT:
        info = np.iinfo(_NPT[form])
        return info.min <= int(v) <= info.max
    return True


def int_form(v, form):
    """Integer v handed over in the given form (specification: IntForms)."""
    np = _np()
    v = int(v)
    if form == "py":
        return v
    if form == "a0":
        return np.array(v, dtype=np.int64)  # zero-dimensional integer array
    if form in _NPT:
        if not fits_form(v, form):
            raise DriverError(f"{v} does not fit {form} (outside Dom_Form)")
        return getattr(np, _NPT[form])(v)
    raise DriverError(f"unknown integer form {form!r}")


def scalar_form(v, form):
    """Integer position of a deletion / assignment (specification: Dom_IntForm)."""
    if form not in SCALAR_INT_FORMS:
        raise DriverError(f"form {form!r} is not a scalar integer form (outside Dom_IntForm)")
    return int_form(v, form)


def to_index(x):
    """Index object <<kind, payload, form>> of the specification -> the real index object."""
    np = _np()
    kind, p, form = x[0], x[1], x[2]
    if kind == "int":
        return int_form(p[0], form)
    if kind == "slice":
        if form not in SLICE_FORMS:
            raise DriverError(f"unknown slice form {form!r}")
        conv = np.int64 if form == "np" else int
        a, b, c = [None if len(o) == 0 else conv(int(o[0])) for o in p]
        return slice(a, b, c)
    if kind == "mask":
        if form == "list":
            return [bool(v) for v in p]
        if form != "np":
            raise DriverError(f"unknown mask form {form!r}")
        return np.array([bool(v) for v in p], dtype=bool)
    if kind == "arr":
        if form == "list":
            return [int(v) for v in p]
        if form not in _NPT:
            raise DriverError(f"unknown array form {form!r}")
        if not all(fits_form(v, form) for v in p):
            raise DriverError(f"{p} does not fit {form} (outside Dom_Form)")
        return np.array([int(v) for v in p], dtype=_NPT[form])
    if form != "py":
        raise DriverError(f"unknown form {form!r} for {kind}")
    if kind == "all":
        return slice(None)
    if kind == "ell":
        return Ellipsis
    raise DriverError(kind)


def operand(obj, desc):
    """The spec's Operand(S, desc): same kind and depth as obj, k fresh atoms."""
    import biotite.structure as struc

    k, has_bonds, has_box, ex = desc
    kind = "array" if isinstance(obj, struc.AtomArray) else "stack"
    d = 1 if kind == "array" else obj.stack_depth()
    S = {"kind": kind, "a": [[50 + i, 0] for i in range(1, k + 1)],
         "z": [[1000 * m + 10 * (50 + i) for i in range(1, k + 1)] for m in range(1, d + 1)],
         "box": [[9] * d] if has_box else [],
         "bonds": [[[i - 1, i, 1] for i in range(1, k)]] if has_bonds else [],
         "ex": list(ex)}
    return build(S)


def _shifted(obj, delta):
    np = _np()
    c = obj.copy()
    x = obj.coord[..., 0] + np.float32(delta)
    c.coord = np.stack([x, x / 2, -x], axis=-1).astype(np.float32)
    return c


def _poke(o):
    """Overwrite every mutable part of o in place."""
    np = _np()
    o.coord[...] = o.coord + 1
    for c in o.get_annotation_categories():
        arr = o.get_annotation(c)
        if arr.dtype.kind in "US":
            arr[...] = "?"
        elif arr.dtype.kind == "b":
            arr[...] = ~arr
        else:
            arr[...] = arr + 3
    if o.box is not None:
        o.box[...] = 0
    if o.bonds is not None and o.array_length() >= 2:
        o.bonds.remove_bonds_to(0)
        o.bonds.add_bond(0, o.array_length() - 1, 3)
        o.bonds.remove_bond_order()


def apply_real(obj, op, arg):
    """Returns (obj', oc, out)."""
    import biotite.structure as struc

    np = _np()
    out = []
    try:
        if op == "new":
            return build(_canon(arg), via_constructors=True), "ok", []
        kind = "array" if isinstance(obj, struc.AtomArray) else "stack"
        n = obj.array_length()
        d = 1 if kind == "array" else obj.stack_depth()
        if op == "index":
            if arg[0] == "1d":
                r = obj[to_index(arg[1])]
            else:
                r = obj[to_index(arg[1]), to_index(arg[2])]
            if isinstance(r, struc.Atom):
                cell = _cells(np.asarray(r.coord)[None])[0]
                return obj, "ok", [int(r.atom_name[1:]), int(r.res_id), cell, atom_extras(r)]
            return r, "ok", []
        if op == "concat":
            return obj + operand(obj, arg), "ok", []
        if op == "rconcat":
            return struc.concatenate([operand(obj, arg), obj]), "ok", []
        if op == "to_stack":
            if kind != "array":
                raise TypeError("to_stack is defined for arrays")
            return struc.stack([_shifted(obj, 100000 * j) for j in range(arg[0])]), "ok", []
        if op == "repeat":
            k = arg[0]
            reps = [obj.coord[..., 0] + np.float32(200000 * j) for j in range(k)]
            x = np.stack(reps, axis=0) if k else np.empty((0,) + obj.coord[..., 0].shape, dtype=np.float32)
            co = np.stack([x, x / 2, -x], axis=-1).astype(np.float32)
            return struc.repeat(obj, co), "ok", []
        if op == "del_atom":
            if kind != "array":
                raise TypeError("no public atom deletion on stacks")
            del obj[scalar_form(arg[0], arg[1])]
            return obj, "ok", []
        if op == "del_model":
            if kind != "stack":
                raise TypeError("del_model is defined for stacks")
            del obj[scalar_form(arg[0], arg[1])]
            return obj, "ok", []
        if op == "set_atom":
            if kind != "array":
                raise TypeError("stack[i] = atom is not part of the API")
            ex = [c for c in EXTRAS if c in obj.get_annotation_categories()]
            obj[scalar_form(arg[0], arg[4])] = make_atom(arg[1], arg[2], arg[3], ex)
            return obj, "ok", []
        if op == "swap_atoms":
            if kind != "array":
                raise TypeError("swap_atoms is defined for arrays")
            # fresh index objects for every use (a numpy scalar is immutable, but so is the habit)
            tmp = obj[scalar_form(arg[0], arg[2])]
            obj[scalar_form(arg[0], arg[2])] = obj[scalar_form(arg[1], arg[3])]
            obj[scalar_form(arg[1], arg[3])] = tmp
            return obj, "ok", []
        if op == "take_then_overwrite":
            if kind != "array":
                raise TypeError("take_then_overwrite is defined for arrays")
            ex = [c for c in EXTRAS if c in obj.get_annotation_categories()]
            tmp = obj[scalar_form(arg[0], arg[4])]
            obj[scalar_form(arg[0], arg[4])] = make_atom(arg[1], arg[2], arg[3], ex)
            cell = _cells(np.asarray(tmp.coord)[None])[0]
            return obj, "ok", [int(tmp.atom_name[1:]), int(tmp.res_id), cell, atom_extras(tmp)]
        if op == "set_model":
            if kind != "stack":
                raise TypeError("set_model is defined for stacks")
            arr = _shifted(obj.get_array(scalar_form(arg[1], arg[4])), arg[2])
            obj[scalar_form(arg[0], arg[3])] = arr
            return obj, "ok", []
        if op == "set_annot":
            o = obj
            o.res_id = np.array(arg[0], dtype=int)
            return o, "ok", []
        if op == "add_extra":
            o = obj
            uids = [int(x[1:]) for x in o.atom_name.tolist()]
            set_extra(o, arg[0], uids)
            return o, "ok", []
        if op == "del_extra":
            o = obj
            o.del_annotation(arg[0])
            return o, "ok", []
        if op == "set_bonds":
            o = obj
            rows = arg[1]
            o.bonds = (struc.BondList(int(arg[0]), np.array(rows, dtype=np.int64).reshape(-1, 3))
                       if rows else struc.BondList(int(arg[0])))
            return o, "ok", []
        if op == "clear_bonds":
            o = obj
            o.bonds = None
            return o, "ok", []
        if op == "set_box":
            o = obj
            b = np.stack([box_matrix(arg[0] + k) for k in range(1, d + 1)]) if d else np.zeros((0, 3, 3), np.float32)
            o.box = b[0] if kind == "array" else b
            return o, "ok", []
        if op == "clear_box":
            o = obj
            o.box = None
            return o, "ok", []
        if op == "copy":
            c = obj.copy()
            if c is obj:
                raise AssertionError("copy returned self")
            return c, "ok", []
        if op == "copy_poke":
            before = project(obj)
            c = obj.copy()
            same = bool(c == obj)
            _poke(c)
            after = project(obj)
            ok = same and before == after
            return obj, "ok", "original_unchanged" if ok else f"changed(eq={same})"
        if op == "derived_edit":
            before = project(obj)
            how = arg[0]
            if how == "slice":
                b = obj[..., 0:n] if kind == "stack" else obj[0:n]
            elif how == "model":
                b = (obj[0] if obj.stack_depth() >= 1 else obj[:, 0:n]) if kind == "stack" else obj[0:n]
            elif how == "repeat1":
                b = struc.repeat(obj, obj.coord[None].copy())
            else:
                b = struc.stack([obj]) if kind == "array" else obj[..., 0:n]
            for c in b.get_annotation_categories():
                a0 = b.get_annotation(c)
                if a0.dtype.kind in "US":
                    new = np.full(a0.shape, "?", dtype=a0.dtype)
                elif a0.dtype.kind == "b":
                    new = ~a0
                else:
                    new = (a0 + 3).astype(a0.dtype)
                b.set_annotation(c, new)
            # the bond list is edited only where indexing had to build a new one; stack() hands the first
            # array's BondList object on by design (atoms.py: "Take bond list from first array"), so
            # sharing of bond lists between a container and what is derived from it is not judged
            if how == "slice" and b.bonds is not None and b.array_length() >= 2:
                b.bonds.remove_bonds_to(0)
                b.bonds.add_bond(0, b.array_length() - 1, 3)
                b.bonds.remove_bond_order()
            ok = project(obj) == before
            return obj, "ok", "source_unchanged" if ok else "changed"
        if op == "poke_after_copy":
            c1 = obj.copy()
            c2 = c1.copy()
            snap = project(c2)
            _poke(c1)
            ok = project(c2) == snap and project(obj) == snap
            return obj, "ok", "copy_unchanged" if ok else "changed"
        if op == "from_template":
            k, with_box = arg
            x = np.array([[300000 + 1000 * m + i for i in range(1, n + 1)] for m in range(1, k + 1)],
                         dtype=np.float32).reshape(k, n)
            co = np.stack([x, x / 2, -x], axis=-1).astype(np.float32)
            bx = np.stack([box_matrix(4) for _ in range(k)]) if with_box else None
            return struc.from_template(obj, co, bx), "ok", []
        raise ValueError(op)
    except (AssertionError, DriverError):
        raise
    except Exception:  # noqa: BLE001 - "Rejected" = any exception
        return obj, "Rejected", []


def _canon(S):
    return {"kind": S["kind"], "a": [list(x) for x in S["a"]], "z": [list(r) for r in S["z"]],
            "box": [list(S["box"][0])] if S["box"] else [],
            "bonds": [sorted(list(b) for b in S["bonds"][0])] if S["bonds"] else [],
            "ex": sorted(S["ex"])}


def check_step(obj2, oc, out, exp):
    """Compare one executed step with the spec state exp = {S, oc, out}."""
    bad = []
    if oc != exp["oc"]:
        bad.append("oc")
    obs = project(obj2)
    want = _canon(exp["S"])
    if obs != want:
        bad.append("state")
    if oc == "ok" and exp["oc"] == "ok":
        eo = exp["out"]
        if isinstance(eo, (list, tuple)):
            eo = list(eo)
            if len(eo) == 4:  # an Atom: uid, tag, cell, set of optional annotations
                eo[3] = sorted(eo[3])
        if out != eo:
            bad.append("out")
        if not bad:
            # the property's literal statement: equal (==) to the list-of-atoms reference result
            ref = build(want, via_constructors=True)
            try:
                if not (obj2 == ref and ref == obj2):
                    bad.append("eq_reference")
            except Exception as e:  # noqa: BLE001
                bad.append(f"eq_reference_raised:{type(e).__name__}")
    return bad, obs


# --------------------------------------------------------------------------- S2 child
def exec_path(item):
    from harness.tlabind.pool import progress

    G = _graph()
    states, labels = G["states"], G["labels"]
    mism = []
    n = 0
    for path in item["paths"]:
        obj = build(_canon(states[path["init"]]["S"]))
        done = []
        for li, dst in path["steps"]:
            op, arg = labels[li]
            exp = states[dst]
            progress({"op": op, "arg": arg, "done": done})
            obj2, oc, out = apply_real(obj, op, arg)
            n += 1
            done.append([op, arg])
            bad, obs = check_step(obj2, oc, out, exp)
            if bad:
                rec = {"kind": "step", "op": op, "arg": arg, "bad": bad, "history": list(done),
                       "expected": {"oc": exp["oc"], "out": exp["out"], "S": _canon(exp["S"])},
                       "observed": {"oc": oc, "out": out, "S": obs}}
                mism.append(rec)
                if classify(rec) is None:
                    break
                # a listed finding: go on from the specification's state so that the transitions
                # behind this one are still executed
                obj2 = build(_canon(exp["S"]))
                done = [["new", _canon(exp["S"])]]
            obj = obj2
    return {"mismatch": mism, "steps": n}


# --------------------------------------------------------------------------- S3 child
def _rand_obj(rng, nmax, dmax):
    kind = rng.choice(["array", "stack"])
    n = rng.randint(0, nmax)
    d = 1 if kind == "array" else rng.randint(1, dmax)
    uids = rng.sample(range(1, 50), n)
    ex = [e for e in EXTRAS if rng.random() < 0.4]
    bonds = []
    if rng.random() < 0.6:
        pairs = set()
        for _ in range(rng.randint(0, 2 * n)):
            if n >= 2:
                i, j = sorted(rng.sample(range(n), 2))
                pairs.add((i, j))
        bonds = [sorted([i, j, rng.randint(0, 9)] for i, j in pairs)]
    box = [[rng.randint(1, 9) for _ in range(d)]] if rng.random() < 0.5 else []
    return {"kind": kind, "a": [[u, rng.randint(-5, 60)] for u in uids],
            "z": [[1000 * (m + 1) + 10 * u for u in uids] for m in range(d)],
            "box": box, "bonds": bonds, "ex": sorted(ex)}


def _pick_form(rng, forms, default, values=()):
    """Half of the time the default form, otherwise any form of the family that can hold the
    values (specification: Dom_Form / FitsForm)."""
    if rng.random() < 0.5:
        return default
    ok = [f for f in forms if all(fits_form(v, f) for v in values)]
    return rng.choice(ok)


def _int_form(rng, v, scalar_only=False):
    if scalar_only:
        return _pick_form(rng, SCALAR_INT_FORMS, "py", [v])
    if rng.random() < 0.05:
        return "a0"
    return _pick_form(rng, SCALAR_INT_FORMS, "py", [v])


def _rand_1d(rng, n):
    k = rng.random()
    if k < 0.15 and n > 0:
        v = rng.randint(-n, n - 1)
        return ["int", [v], _int_form(rng, v)]
    if k < 0.45:
        def c():
            return [] if rng.random() < 0.3 else [rng.randint(-n - 2, n + 2)]
        return ["slice", [c(), c(), [] if rng.random() < 0.4 else [rng.choice([-3, -2, -1, 1, 2, 3])]],
                _pick_form(rng, SLICE_FORMS, "py")]
    if k < 0.65:
        return ["mask", [rng.random() < 0.6 for _ in range(n)], _pick_form(rng, MASK_FORMS, "np")]
    if k < 0.9:
        pool = list(range(n))
        rng.shuffle(pool)
        arr = [p if rng.random() < 0.5 else p - n for p in pool[:rng.randint(0, n)]]
        if rng.random() < 0.12 and arr:
            arr.append(arr[0])
        if rng.random() < 0.08:
            arr.append(n)
        return ["arr", arr, _pick_form(rng, ARR_FORMS, "i64", arr)]
    return ["all", [], "py"]


ELL = ["ell", [], "py"]


def _has_str(x):
    if isinstance(x, str):
        return True
    if isinstance(x, (list, tuple)):
        return any(_has_str(v) for v in x)
    return False


def _tlc_safe(obs):
    """An observation that cannot be written as a value of the specification (incoherent parts,
    values that are not the realisation of any abstract value) is logged as an object that no
    expected state equals - TLC reports the event, the raw projection is kept aside."""
    if "incoherent" not in obs and not any(_has_str(obs[k]) for k in ("a", "z", "box", "bonds")):
        return obs, True
    return {"kind": obs["kind"], "a": [], "z": [[]], "box": [], "bonds": [],
            "ex": ["!incoherent"], "raw": json.dumps(obs, default=str)}, False


def gen_trace(item):
    import biotite.structure as struc
    from harness.tlabind.pool import progress

    rng = random.Random(item["seed"])
    S0 = _rand_obj(rng, item["nmax"], item["dmax"])
    events = []
    obj, oc, out = apply_real(None, "new", S0)
    obs, good = _tlc_safe(project(obj))
    events.append({"op": "new", "arg": S0, "oc": oc, "out": out, "obs": obs})
    for _ in range(item["length"]):
        if not good or any("!" in x for x in obs["ex"]):
            break  # nothing can be said about what follows an incoherent / corrupted object
        kind = "array" if isinstance(obj, struc.AtomArray) else "stack"
        n = obj.array_length()
        d = 1 if kind == "array" else obj.stack_depth()
        op = rng.choice(["index", "index", "index", "concat", "rconcat", "to_stack", "repeat", "swap_atoms",
                         "take_then_overwrite",
                         "del_atom", "del_model", "set_atom", "set_model", "set_annot", "add_extra",
                         "del_extra", "set_bonds", "clear_bonds", "set_box", "clear_box", "copy",
                         "copy_poke", "poke_after_copy", "derived_edit", "from_template"])
        if op == "index":
            if kind == "array":
                if rng.random() < 0.8:
                    arg = ["1d", _rand_1d(rng, n)]
                else:
                    arg = ["2d", ELL, _rand_1d(rng, n)]
            else:
                if rng.random() < 0.3:
                    i0 = _rand_1d(rng, d)
                    arg = ["1d", i0 if rng.random() < 0.9 else ELL]
                else:
                    i0 = _rand_1d(rng, d) if rng.random() < 0.7 else ELL
                    arg = ["2d", i0, _rand_1d(rng, n)]
        elif op in ("concat", "rconcat"):
            if n > item["nmax"] * 2:
                continue
            arg = [rng.randint(0, 3), rng.random() < 0.5, rng.random() < 0.5,
                   sorted(e for e in EXTRAS if rng.random() < 0.5)]
        elif op == "to_stack":
            if kind != "array":
                continue
            arg = [rng.randint(1, 3)]
        elif op == "repeat":
            if n > item["nmax"] or n == 0:
                continue
            arg = [rng.choice([0, 1, 1, 2, 2, 3])]
        elif op == "del_atom":
            if kind != "array":
                continue
            i = rng.randint(-n - 1, n)
            arg = [i, _int_form(rng, i, True)]
        elif op == "del_model":
            if kind != "stack":
                continue
            i = rng.randint(-d - 1, d)
            arg = [i, _int_form(rng, i, True)]
        elif op == "set_atom":
            if kind != "array":
                continue
            i = rng.randint(-n - 1, n)
            arg = [i, rng.randint(60, 99), rng.randint(0, 9), rng.randint(1, 9) * 1000, _int_form(rng, i, True)]
        elif op == "swap_atoms":
            if kind != "array" or n == 0:
                continue
            i, j = rng.randint(-n, n), rng.randint(0, n - 1)
            arg = [i, j, _int_form(rng, i, True), _int_form(rng, j, True)]
        elif op == "take_then_overwrite":
            if kind != "array":
                continue
            i = rng.randint(-n - 1, n)
            arg = [i, rng.randint(60, 99), rng.randint(0, 9), rng.randint(1, 9) * 1000, _int_form(rng, i, True)]
        elif op == "set_model":
            if kind != "stack" or d == 0:
                continue
            i, j = rng.randint(-d, d - 1), rng.randint(0, d - 1)
            arg = [i, j, rng.randint(1, 7), _int_form(rng, i, True), _int_form(rng, j, True)]
        elif op == "set_annot":
            m = n if rng.random() < 0.85 else n + 1
            arg = [[rng.randint(-9, 99) for _ in range(m)]]
        elif op in ("add_extra", "del_extra"):
            arg = [rng.choice(EXTRAS)]
        elif op == "set_bonds":
            rows = []
            for _ in range(rng.randint(0, n + 1)):
                if n >= 2:
                    i, j = rng.sample(range(n), 2)
                    rows.append([i - n if rng.random() < 0.3 else i, j, rng.randint(0, 9)])
            arg = [n if rng.random() < 0.9 else n + 1, rows]
        elif op == "set_box":
            arg = [rng.randint(1, 9)]
        elif op == "from_template":
            arg = [rng.randint(1, 3), rng.random() < 0.5]
        elif op == "derived_edit":
            arg = [rng.choice(["slice", "model", "repeat1", "stack1"])]
        else:
            arg = []
        progress({"op": op, "arg": arg, "events": len(events)})
        obj, oc, out = apply_real(obj, op, arg)
        obs, good = _tlc_safe(project(obj))
        events.append({"op": op, "arg": arg, "oc": oc, "out": out, "obs": obs})
    return {"events": events}


# --------------------------------------------------------------------------- classification
F_ZERO_DIM = "C01-zero-dim-array-index"
F_ATOM_VIEW = "C01-get-atom-shares-array-valued-annotation"
F_REPEAT_SHAPED = "C01-repeat-array-valued-annotation"


def _same_but_ex(exp_S, obs_S):
    try:
        a, b = _canon(exp_S), _canon(obs_S)
    except (KeyError, TypeError, IndexError):
        return False
    return all(a[k] == b[k] for k in ("kind", "a", "z", "box", "bonds"))


def _classify_shaped(mm):
    """The two listed findings about array-valued annotations (see findings.d/C01.json); each is
    returned only for exactly its shape."""
    op, arg, bad = mm.get("op"), mm.get("arg"), mm.get("bad")
    exp, obs = mm.get("expected") or {}, mm.get("observed") or {}
    eS, oS = exp.get("S"), obs.get("S")
    if not isinstance(eS, dict) or not isinstance(oS, dict) or exp.get("oc") != "ok":
        return None
    e_ex, o_ex = sorted(eS.get("ex", ())), sorted(oS.get("ex", ()))
    shaped = [x for x in e_ex if x in SHAPED]
    if not shaped or any("!" in x for x in e_ex) or _is_incoherent(oS):
        return None
    n = len(eS["a"])
    if op == "swap_atoms" and bad == ["state"] and obs.get("oc") == "ok":
        # tmp = a[i]; a[i] = a[j]; a[j] = tmp with i, j different atoms: exactly the array-valued
        # categories no longer follow the atoms, everything else is as expected
        want = sorted(f"{x}!not-following-atoms" if x in SHAPED else x for x in e_ex)
        if n and arg[0] % n != arg[1] % n and o_ex == want and _same_but_ex(eS, oS):
            return F_ATOM_VIEW
        return None
    if op == "take_then_overwrite" and bad == ["out"] and obs.get("oc") == "ok":
        eo, oo = exp.get("out"), obs.get("out")
        if (isinstance(eo, (list, tuple)) and isinstance(oo, (list, tuple)) and len(eo) == 4 and len(oo) == 4
                and list(eo[:3]) == list(oo[:3])
                and sorted(oo[3]) == sorted(f"{x}!not-the-atoms-value" if x in SHAPED else x for x in eo[3])):
            return F_ATOM_VIEW
        return None
    if op == "repeat" and arg and arg[0] >= 2:
        if n > 0 and obs.get("oc") == "Rejected" and bad == ["oc", "state"] and len(oS.get("a", ())) * arg[0] == n:
            return F_REPEAT_SHAPED
        if n == 0 and obs.get("oc") == "ok" and bad == ["state"] and _same_but_ex(eS, oS):
            # no atoms: accepted, but the per-atom shape is multiplied instead of the length
            if len(o_ex) == len(e_ex) and all(
                    (o == e) if e not in SHAPED else o.startswith(f"{e}!shape(0, ") for e, o in zip(e_ex, o_ex)):
                return F_REPEAT_SHAPED
    return None


def _is_incoherent(S):
    return isinstance(S, dict) and ("incoherent" in S or "!incoherent" in S.get("ex", ()))


def classify(mm):
    """C01-zero-dim-array-index: `x[i]` / `x[i, j]` (reading) where a component is an in-range
    integer handed over as a zero-dimensional integer ndarray (form "a0").  The specification
    (and numpy, and a list of atoms) read it as that integer; AtomArray.__getitem__ /
    AtomArrayStack.__getitem__ test `isinstance(index, numbers.Integral)` only, so the call is
    either refused (IndexError out of _subarray) or - in the model position of a stack - returns
    an AtomArrayStack whose model axis has collapsed (2-D coord, (3,3) box).  Exactly that shape:
    operation `index`, at least one "a0" component, and either expected ok / observed refusal, or
    observed a stack with collapsed coordinates while an "a0" is in the model position."""
    if mm.get("kind") not in ("step", "event"):
        return None
    if mm.get("op") in ("swap_atoms", "take_then_overwrite", "repeat"):
        return _classify_shaped(mm)
    if mm.get("op") != "index":
        return None
    arg, exp, obs = mm.get("arg"), mm.get("expected") or {}, mm.get("observed") or {}
    if not arg:
        return None
    a0 = [k for k, x in enumerate(arg[1:]) if x[0] == "int" and len(x) > 2 and x[2] == "a0"]
    if not a0:
        return None
    if exp.get("oc") == "ok" and obs.get("oc") == "Rejected":
        return F_ZERO_DIM
    S = obs.get("S")
    if obs.get("oc") == "ok" and 0 in a0 and _is_incoherent(S) and S.get("kind") == "stack":
        return F_ZERO_DIM
    return None


# --------------------------------------------------------------------------- form coverage
CORE_FORMS = {"int": {"py", "i64", "i32", "u8", "u64", "a0"}, "arr": {"list", "i64", "i32", "u8", "u64"},
              "mask": {"np", "list"}, "slice": {"py", "np"}}
_INT_FORM_ARGS = {"del_atom": (1,), "del_model": (1,), "set_atom": (4,), "take_then_overwrite": (4,),
                  "swap_atoms": (2, 3), "set_model": (3, 4)}


def count_forms(calls, into):
    """calls: iterable of (container kind, op, arg).  Counts, per position of an index
    ("array:1d", "array:2d1", "stack:1d", "stack:2d0", "stack:2d1") and per integer position of a
    deletion / assignment, how often every (index kind, form) was handed over."""
    for ckind, op, arg in calls:
        if op == "index":
            for k, x in enumerate(arg[1:]):
                pos = f"{ckind}:1d" if arg[0] == "1d" else f"{ckind}:2d{k}"
                key = f"{x[0]}/{x[2]}"
                into.setdefault(pos, {})
                into[pos][key] = into[pos].get(key, 0) + 1
        elif op in _INT_FORM_ARGS:
            for k in _INT_FORM_ARGS[op]:
                into.setdefault(op, {})
                key = f"int/{arg[k]}"
                into[op][key] = into[op].get(key, 0) + 1
    return into


def require_forms(cov, where, per_position):
    """Vacuity guard.  per_position (S2): every core form at every position of every operation.
    Otherwise (S3, random): every form family somewhere."""
    from harness.tlabind.core import Vacuity

    missing = []
    if per_position:
        for pos in ("array:1d", "array:2d1", "stack:1d", "stack:2d0", "stack:2d1"):
            for kind, forms in CORE_FORMS.items():
                for f in forms:
                    if not cov.get(pos, {}).get(f"{kind}/{f}"):
                        missing.append(f"{pos} {kind}/{f}")
        for op in _INT_FORM_ARGS:
            for f in CORE_FORMS["int"] - {"a0"}:
                if not cov.get(op, {}).get(f"int/{f}"):
                    missing.append(f"{op} int/{f}")
    else:
        idx, sca = {}, {}
        for pos, d in cov.items():
            for key, n in d.items():
                tgt = sca if pos in _INT_FORM_ARGS else idx
                tgt[key] = tgt.get(key, 0) + n
        np_int = sum(n for k, n in idx.items() if k.startswith("int/") and k[4:] in _NPT)
        np_arr = sum(n for k, n in idx.items() if k.startswith("arr/") and k[4:] in _NPT and k != "arr/i64")
        for name, n in (("numpy integer scalar as index", np_int), ("non-default integer ndarray", np_arr),
                        ("list of ints", idx.get("arr/list", 0)), ("list of bools", idx.get("mask/list", 0)),
                        ("slice with numpy bounds", idx.get("slice/np", 0)),
                        ("numpy integer scalar in deletion/assignment",
                         sum(n for k, n in sca.items() if k[4:] in _NPT))):
            if not n:
                missing.append(name)
    if missing:
        raise Vacuity(f"{where}: index forms never handed over: {missing[:12]} ({len(missing)} in all)")


# --------------------------------------------------------------------------- orchestration
def _s2_graph(ctx, d, dotf, tag, limit, forms_required):
    """S2 for one dumped state graph: every transition (or `limit` covering paths) is executed
    against the real classes and compared with the specification's state."""
    from harness.tlabind import dot
    from harness.tlabind.core import Vacuity
    from harness.tlabind.helpers import run_pool
    from harness.tlabind.tlaval import to_py

    g = dot.load(dotf)
    labels, lab_ix, ops_seen, lab_kind = [], {}, {}, []
    form_cov = {}
    for (_s, lab, _d) in g.edges:
        if lab not in lab_ix:
            c = to_py(dot.parse_label(lab)[1][0])
            lab_ix[lab] = len(labels)
            labels.append([c[3], c[4]])
            lab_kind.append(c[0])
        o = labels[lab_ix[lab]][0]
        ops_seen[o] = ops_seen.get(o, 0) + 1
        count_forms([(lab_kind[lab_ix[lab]], o, labels[lab_ix[lab]][1])], form_cov)
    if forms_required:
        require_forms(form_cov, f"S2 (state graph {os.path.basename(dotf)})", True)
    ctx.cov[f"s2_{tag}index_forms"] = form_cov
    need = {"new", "index", "concat", "rconcat", "to_stack", "repeat", "del_atom", "del_model", "set_atom",
            "swap_atoms", "take_then_overwrite",
            "set_model", "set_annot", "add_extra", "del_extra", "set_bonds", "clear_bonds", "set_box",
            "clear_box", "copy", "copy_poke", "poke_after_copy", "derived_edit", "from_template"}
    if need - set(ops_seen):
        raise Vacuity(f"operations never taken: {sorted(need - set(ops_seen))}")
    ctx.cov[f"{tag}transitions_per_op"] = ops_seen
    ids = {nid: k for k, nid in enumerate(g.state_text)}
    states = [None] * len(ids)
    nrej = 0
    for nid, k in ids.items():
        st = g.state(nid)
        states[k] = {"S": to_py(st["S"]), "oc": st["oc"], "out": to_py(st["out"])}
        nrej += st["oc"] == "Rejected"
    if nrej == 0:
        raise Vacuity("no refused call in the model")
    # every operation must be taken on objects that carry array-valued annotations (ShapedExtras),
    # arrays and stacks, and succeed there
    ops_shaped = {}
    for (src, lab, dst) in g.edges:
        S0, st1 = states[ids[src]]["S"], states[ids[dst]]
        if set(S0["ex"]) & set(SHAPED) and st1["oc"] == "ok":
            key = f'{S0["kind"]}:{labels[lab_ix[lab]][0]}'
            ops_shaped[key] = ops_shaped.get(key, 0) + 1
    ctx.cov[f"s2_{tag}ok_transitions_on_shaped_annotations"] = ops_shaped
    need_shaped = ({f"array:{o}" for o in need - {"new", "del_model", "set_model"}}
                   | {f"stack:{o}" for o in need - {"new", "to_stack", "del_atom", "set_atom", "swap_atoms",
                                                     "take_then_overwrite"}})
    if forms_required and need_shaped - set(ops_shaped):
        raise Vacuity(f"operations never taken on an object with array-valued annotations: "
                      f"{sorted(need_shaped - set(ops_shaped))}")
    gfile = os.path.join(d, f"{tag}graph.json")
    with open(gfile, "w") as f:
        json.dump({"states": states, "labels": labels}, f)
    paths, covered = dot.covering_paths(g, max_len=8, limit=limit, rng=ctx.rng)
    plist = [{"init": ids[root], "steps": [[lab_ix[lab], ids[dst]] for lab, dst in steps]}
             for root, steps in paths]
    items = [{"paths": plist[i:i + 60]} for i in range(0, len(plist), 60)]
    ctx.log(f"S2: {len(plist)} paths covering {covered}/{len(g.edges)} transitions")
    results = run_pool(ctx, "harness.drivers.c01:exec_path", items, stage="S2",
                       env={"C01_GRAPH": gfile}, item_timeout=300)
    ctx.traces_validated += len(plist)
    ctx.evaluations += sum(r.get("steps", 0) for r in results if r)
    ctx.nontrivial += sum(1 for p in plist if len(p["steps"]) >= 2)
    ctx.cov[f"s2_{tag}transitions_covered"] = covered
    ctx.cov[f"s2_{tag}transitions_total"] = len(g.edges)
    for p in plist[:2]:
        ctx.sample({"s2_path": [labels[li] for li, _ in p["steps"]]})


def run(ctx):
    from harness.tlabind import tlc
    from harness.tlabind.helpers import binding_selftest, run_pool, tlc_validate

    ctx.assumptions += [
        "annotations other than res_id are fixed functions of the atom's uid (atom_name): 'annotations follow the atom' is observed through them",
        "coordinates are exactly representable float32 triples (c, c/2, -c) of an integer cell c",
        "index arrays with duplicates on an object with a bond list are refused (documented NotImplementedError); boolean masks have exactly n entries",
        "index forms (Dom_Form): an integer is a Python int, a numpy integer scalar (int8..uint64) that can hold it, or - for reading only - a zero-dimensional integer ndarray; an index array is a list of ints or an integer ndarray (int8..uint64); a mask is a bool ndarray or a list of bools; slice bounds are Python or numpy ints. Deletion and assignment positions (documented as int) take the scalar forms only (Dom_IntForm)",
        "optional annotations hold one value per atom that is a scalar (b_factor, flag, label) or an array (specification ShapedExtras / PerAtomShape: vec = 3 float32, grid = 2x2 integers, names = 2 strings; annotation arrays of shape (n,3), (n,2,2), (n,2)); they are given to containers with add_annotation(dtype=(float32, 3)) + in-place fill or set_annotation; array() from Atoms with array-valued keyword arguments is not asserted (construction from Atoms is not an operation of the statement; it yields object arrays); objects with array-valued annotations take the calls of the exhaustive universe in the default index forms only (forms x shapes are mixed in the recorded histories)",
        "aliasing of views (slices, get_array) is not modelled: only copy() independence is claimed",
        "stack[i] = atom and atom deletion on stacks are not public operations and are not generated",
        "exhaustive model: <= 4 atoms, <= 2 models, one or two calls after construction; longer histories through recorded traces",
    ]
    d = tlc.scratch_dir("c01")
    dotf = os.path.join(d, "g.dot")
    if ctx.quick:
        # construction + one call, every call of the universe in every core form
        ctx.tlc("AtomContainer", "MC.cfg", stage="S1", dump_dot=dotf, workers=1, timeout=900)
        ctx.exhaustive = True
        _s2_graph(ctx, d, dotf, "", None, True)
    else:
        ctx.tlc("AtomContainer", "MC_deep.cfg", stage="S1", workers=16, timeout=2400)
        ctx.exhaustive = True
        # construction + one call, the rich universe, every form (all executed)
        ctx.tlc("AtomContainer", "MC_forms.cfg", stage="S1-forms", dump_dot=dotf, workers=1,
                timeout=2400, count=False)
        _s2_graph(ctx, d, dotf, "forms_", None, True)
        # construction + two calls, the rich universe in the default forms (250000 paths)
        dotf2 = os.path.join(d, "g2.dot")
        ctx.tlc("AtomContainer", "MC_thorough.cfg", stage="S1-graph", dump_dot=dotf2, workers=1,
                timeout=2400, count=False)
        _s2_graph(ctx, d, dotf2, "", 250000, False)
    ctx.cov["rule"] = "behaviour = construction followed by calls; non-trivial = at least one call after construction"
    # ---- S3 ----------------------------------------------------------------------------
    ntr = 300 if ctx.quick else 3000
    titems = [{"seed": ctx.rng.randrange(1 << 30), "length": 12 if ctx.quick else 14,
               "nmax": 6 if k % 3 else 12, "dmax": 3} for k in range(ntr)]
    tres = run_pool(ctx, "harness.drivers.c01:gen_trace", titems, stage="S3", item_timeout=120)
    traces = [r["events"] for r in tres if r and r.get("events")]
    s3_forms = {}
    for t in traces:
        count_forms([(p["obs"]["kind"], e["op"], e["arg"]) for p, e in zip(t, t[1:])], s3_forms)
    require_forms(s3_forms, "S3 (recorded histories)", False)
    s3_shaped = {}
    for t in traces:
        for p, e in zip(t, t[1:]):
            if set(p["obs"]["ex"]) & set(SHAPED) and e["oc"] == "ok":
                s3_shaped[e["op"]] = s3_shaped.get(e["op"], 0) + 1
    ctx.cov["s3_ok_events_on_shaped_annotations"] = s3_shaped
    from harness.tlabind.core import Vacuity
    miss = [o for o in ("index", "concat", "rconcat", "del_atom", "del_model", "set_atom", "set_model", "to_stack",
                        "swap_atoms", "take_then_overwrite", "copy", "from_template", "del_extra")
            if not s3_shaped.get(o)]
    if miss:
        raise Vacuity(f"S3: operations never recorded on an object with array-valued annotations: {miss}")
    ctx.cov["s3_index_forms"] = s3_forms
    mms = tlc_validate(ctx, traces, timeout=1800)
    for m in mms:
        _tag, tid, l, flags, eoc, eout, eS = m
        e = traces[tid - 1][l - 1]
        if eoc == "OutsideDomain":
            raise RuntimeError(f"S3: the driver generated a call outside the form domain: {e['op']} {e['arg']}")
        ctx.mismatch({"stage": "S3", "kind": "event", "op": e["op"], "arg": e["arg"],
                      "bad": [n for n, ok in zip(("oc", "state", "out"), flags) if not ok],
                      "history": [[x["op"], x["arg"]] for x in traces[tid - 1][:l]],
                      "expected": {"oc": eoc, "out": eout, "S": eS},
                      "observed": {"oc": e["oc"], "out": e["out"], "S": e["obs"]}})
    ctx.traces_validated += len(traces)
    ctx.evaluations += sum(len(t) for t in traces)
    ctx.nontrivial += sum(1 for t in traces if sum(1 for e in t if e["oc"] == "ok") >= 3)
    ctx.cov["s3_traces"] = len(traces)
    if traces:
        ctx.sample({"s3_events": [{k: e[k] for k in ("op", "arg", "oc")} for e in traces[0][:4]]})

    def corrupt(tr):
        for e in tr[1:]:
            if e["oc"] == "ok" and e["obs"]["a"]:
                e["obs"]["a"][0][1] += 1
                return True
        return False

    binding_selftest(ctx, traces, corrupt)


def replay(record):
    obj = None
    last = None
    for op, arg in record["history"]:
        obj, oc, out = apply_real(obj, op, arg)
        last = {"op": op, "arg": arg, "oc": oc, "out": out, "S": project(obj)}
    exp = record["expected"]
    bad = last["oc"] != exp["oc"] or last["S"] != exp["S"]
    return {"last": last, "expected": exp, "mismatch": bad}


MANIFEST = {
    "technique": "TLA+ reference model of AtomArray/AtomArrayStack (specs/C01) model-checked by TLC; every transition of the state graph replayed into real objects (projection + public == against a from-scratch reference object); recorded random histories validated by TLC",
    "level_text": "The specification is the property's list-of-atoms reference model: atoms with identity, per-model coordinate cells, per-model boxes, a positional bond mapping and optional annotations whose per-atom value is a scalar or itself an array (annotation arrays with more than one dimension), with one operator per public operation (1-D and 2-D indexing with every index kind incl. negatives and Ellipsis, every index and every integer position of deletion / assignment in every FORM numpy accepts - Python int, numpy integer scalars int8..uint64, zero-dimensional integer array, list or integer ndarray of every dtype, bool ndarray or list of bools, slices with numpy bounds - in every tuple position, concatenation in both orders with operands lacking bonds/box/annotations, stack(), repeat(), from_template(), atom and model deletion, element and model assignment, annotation / bonds / box edits, copy and in-place mutation of copies). TLC explores every call on 78 constructed objects (<= 3 atoms, <= 2 models, with and without bonds / box / optional annotations) exhaustively and checks Coherent, RefusalIsNoOp and BondsFollowAtoms; all transitions are executed against the real classes, comparing the full projection, the outcome class, returned atoms, and the public == against an object rebuilt from the expected state with array()/stack(); longer histories on bigger objects are recorded and re-computed by TLC. A composite call derived_edit derives an object holding all atoms (slice, first model, one repetition, stack of one), assigns every annotation of the derived object as a whole and - for the slice - edits its bond list: the object at hand must not move (outcome source_unchanged); repeat() is taken with 0, 1 and 2 repetitions.",
    "level_note": "Bounded exhaustive part: construction + 1 call (quick: core index forms; thorough: all forms) / + 2 calls (thorough, default forms), <= 4 atoms, <= 2 models. Annotation dtypes covered: int, float, bool, str, each also as array-valued per-atom values ((n,3) float32, (n,2,2) int, (n,2) str) on arrays and stacks (22 further constructed objects; default index forms). View aliasing is not modelled. Trusted: TLC, TLA+ value parser, numpy, the projection function.",
}
