"""X04 — sequence search and sequence profiles match their per-position definitions.

Specification: specs/X04/SeqProfileOps.tla (one operator per public call of
biotite/sequence/search.py and biotite/sequence/profile.py, code-shaped next to per-position
definitions, Law_* relating them).

S1  TLC checks the laws on every case of the bounded universes
      MCSearch.tla       all strings x all queries / symbols, all alphabet relations
      MCProfile.tla      all small alignments, count tables, index objects x every call
      ProfileMachine.tla histories of calls on one SequenceProfile object
S2  every (case, result) pair dumped by TLC and every transition of the machine's state graph
    is executed against the real functions / class (each case with several representations
    of the same abstract alphabet: the library's own instance, an equal fresh one, a plain
    `Alphabet`); floats are compared with the exact rationals of the specification.
S3  seeded random calls / histories beyond the bounds (long sequences, nucleotide / protein /
    object alphabets, wide alignments with arbitrary traces) and the calls made by the
    repository's own tests of the area are recorded and re-computed event by event by TLC
    (specs/X04/Trace.tla).

This module is also the pytest plugin that records the repository's tests
(`pytest -p harness.drivers.x04`, see the hooks at the end).
"""

from __future__ import annotations

import json
import math
import os
import random
import re

PROPERTY = "X04"

DNA = ["A", "C", "G", "T"]
RNA = ["A", "C", "G", "U"]
AMB = ["A", "C", "G", "T", "R", "Y", "W", "S", "M", "K", "H", "B", "V", "D", "N"]
PROT = ["A", "C", "D", "E", "F", "G", "H", "I", "K", "L", "M", "N", "P", "Q", "R", "S", "T",
        "V", "W", "Y", "B", "Z", "X", "*"]
NOPROFILE = {"k": 0, "rows": [], "gaps": [], "alph": []}
SEARCH_OPS = ("find_subsequence", "find_symbol", "find_symbol_first", "find_symbol_last")
MAKER_OPS = ("construct", "from_alignment")
NUMERIC_OPS = ("prob", "odds", "seqprob", "seqscore")
COMPARED_OUT = SEARCH_OPS + ("consensus", "eq", "len", "str")
PROFILE_OPS = ("construct", "from_alignment", "set_symbols", "set_gaps", "poke_symbols", "poke_gaps",
               "getitem", "eq", "consensus", "prob", "odds", "seqprob", "seqscore", "len", "str")
TOL = 1e-9
LIMIT = 1 << 30


class DriverError(Exception):
    """A bug of this driver (never an outcome of the library)."""


# --------------------------------------------------------------------------- real side
def _bs():
    import biotite.sequence as bs

    return bs


_OBJ = re.compile(r"^o(\d+)$")


def _sym(tok):
    """abstract symbol token -> real symbol ("o7" stands for the non-letter symbol 7)"""
    m = _OBJ.match(tok) if isinstance(tok, str) else None
    return int(m.group(1)) if m else tok


def _tok(sym):
    if isinstance(sym, bytes):
        sym = sym.decode("ascii")
    if isinstance(sym, str):
        return sym
    try:
        import numbers

        if isinstance(sym, numbers.Integral):
            return f"o{int(sym)}"
    except Exception:
        pass
    return f"?{sym!r}"


_ALPH_CACHE = {}


def mk_alphabet(tokens, rep=0):
    """rep 0: the canonical object (the library's own instance for the well-known alphabets, one
    cached object per abstract alphabet otherwise); rep 1: a fresh equal object; rep 2: a fresh
    plain `Alphabet` (dictionary based) even where a LetterAlphabet would do."""
    bs = _bs()
    tokens = list(tokens)
    key = tuple(tokens)
    letters = all(isinstance(t, str) and len(t) == 1 for t in tokens)
    if rep == 0:
        if key == tuple(DNA):
            return bs.NucleotideSequence.alphabet_unamb
        if key == tuple(AMB):
            return bs.NucleotideSequence.alphabet_amb
        if key == tuple(PROT):
            return bs.ProteinSequence.alphabet
        a = _ALPH_CACHE.get(key)
        if a is None:
            a = bs.LetterAlphabet(tokens) if letters else bs.Alphabet([_sym(t) for t in tokens])
            _ALPH_CACHE[key] = a
        return a
    if rep == 1 and letters:
        return bs.LetterAlphabet(tokens)
    return bs.Alphabet([_sym(t) for t in tokens])


def alph_tokens(alphabet):
    return [_tok(s) for s in alphabet.get_symbols()]


def mk_seq(S, rep=0):
    bs = _bs()
    alph, syms = list(S["alph"]), list(S["sym"])
    if rep == 0 and alph == DNA:
        return bs.NucleotideSequence("".join(syms), ambiguous=False)
    if rep == 0 and alph == AMB:
        return bs.NucleotideSequence("".join(syms), ambiguous=True)
    if rep == 0 and alph == PROT:
        return bs.ProteinSequence("".join(syms))
    return bs.GeneralSequence(mk_alphabet(alph, rep), [_sym(t) for t in syms])


def proj_seq(s):
    bs = _bs()
    kind = ("nuc" if isinstance(s, bs.NucleotideSequence) else
            "prot" if isinstance(s, bs.ProteinSequence) else
            "general" if isinstance(s, bs.GeneralSequence) else f"?{type(s).__name__}")
    return {"kind": kind, "alph": alph_tokens(s.get_alphabet()), "sym": [_tok(x) for x in s.symbols]}


def mk_aln(aln, rep=0):
    import numpy as np
    from biotite.sequence.align import Alignment

    seqs = [mk_seq(S, rep) for S in aln["seqs"]]
    trace = np.array(aln["trace"], dtype=np.int64).reshape(len(aln["trace"]), len(seqs))
    return Alignment(seqs, trace, None)


def _table(k, rows):
    import numpy as np

    return np.array(rows, dtype=int).reshape(len(rows), int(k))


def mk_profile(p, rep=0):
    import numpy as np

    return _bs().SequenceProfile(_table(p["k"], p["rows"]), np.array(p["gaps"], dtype=int),
                                 mk_alphabet(p["alph"], rep))


def proj_profile(obj):
    if obj is None:
        return dict(NOPROFILE)
    sym, gaps = obj.symbols, obj.gaps
    if getattr(sym, "ndim", None) != 2 or getattr(gaps, "ndim", None) != 1:
        raise ValueError(f"count tables of shape {getattr(sym, 'shape', None)} / {getattr(gaps, 'shape', None)}")
    return {"k": int(sym.shape[1]), "rows": [[int(x) for x in r] for r in sym.tolist()],
            "gaps": [int(x) for x in gaps.tolist()], "alph": alph_tokens(obj.alphabet)}


def _f(x):
    """float -> JSON-safe"""
    x = float(x)
    if math.isnan(x):
        return "nan"
    if math.isinf(x):
        return "inf" if x > 0 else "-inf"
    return x


def _matrix(m, shape):
    import numpy as np

    m = np.asarray(m)
    if m.shape != tuple(shape):
        raise ValueError(f"matrix of shape {m.shape}, expected {tuple(shape)}")
    return [[_f(x) for x in r] for r in m.tolist()]


def _positions(r):
    import numpy as np

    r = np.asarray(r)
    if r.ndim != 1:
        raise ValueError(f"positions of shape {r.shape}")
    out = []
    for x in r.tolist():
        if int(x) != x:
            raise ValueError(f"position {x!r}")
        out.append(int(x))
    return out


def _position(r):
    import numbers

    import numpy as np

    if isinstance(r, np.ndarray) and r.ndim == 0:
        r = r.item()
    if not isinstance(r, numbers.Integral):
        raise ValueError(f"position of type {type(r).__name__}")
    return int(r)


def _index(ix):
    import numpy as np

    kind, pl = ix[0], ix[1]
    if kind == "int":
        return int(pl[0])
    if kind == "slice":
        return slice(*[None if len(o) == 0 else int(o[0]) for o in pl])
    if kind == "mask":
        return np.array([bool(b) for b in pl], dtype=bool)
    if kind == "arr":
        return np.array([int(v) for v in pl], dtype=np.int64)
    raise DriverError(f"index kind {kind}")


def _bg(opt):
    import numpy as np

    if len(opt) == 0:
        return None
    return np.array([q[0] / q[1] for q in opt[0]], dtype=float)


def _parse_str(text, k, n):
    """str(profile) -> {w, header, body}; w = -1 when the layout is not the documented grid."""
    bad = {"w": -1, "header": [], "body": []}
    lines = text.split("\n")
    if len(lines) != n + 1:
        return bad
    ln = len(lines[0])
    if (ln - k) % (k + 1) != 0:
        return bad
    w = (ln - k) // (k + 1)
    grid = []
    for line in lines:
        if len(line) != ln:
            return bad
        cells = []
        for c in range(k + 1):
            beg = c * (w + 1)
            cell = line[beg:beg + w]
            if c > 0 and line[beg - 1] != " ":
                return bad
            if cell != cell.strip().rjust(w) or " " in cell.strip():
                return bad
            cells.append(cell.strip())
        grid.append(cells)
    if w < 1 or grid[0][0] != "":
        return bad
    try:
        body = [[int(x) for x in row] for row in grid[1:]]
    except ValueError:
        return bad
    if any(str(v) != cell for row, cells in zip(body, grid[1:]) for v, cell in zip(row, cells)):
        return bad
    return {"w": w, "header": grid[0][1:], "body": body}


_DEFAULT_OUT = {"find_subsequence": [], "find_symbol": [], "find_symbol_first": -2, "find_symbol_last": -2,
                "eq": False, "len": -1, "consensus": {"kind": "?", "alph": [], "sym": []},
                "str": {"w": -1, "header": [], "body": []}}


def apply_real(obj, op, a, rep=0):
    """Execute one call. Returns (obj', oc, out, detail). Any exception of the library is the
    outcome "Rejected"; a result that cannot be projected is the outcome "Broken"."""
    import warnings

    import numpy as np

    bs = _bs()
    out, detail = _DEFAULT_OUT.get(op, []), None
    try:
        with warnings.catch_warnings(), np.errstate(all="ignore"):
            warnings.simplefilter("ignore")
            if op == "find_subsequence":
                r = bs.find_subsequence(mk_seq(a[0], rep), mk_seq(a[1], rep))
                stage = "project"
                out = _positions(r)
                if len(out) == 0 and np.asarray(r).dtype.kind != "i":
                    detail = f"empty result has dtype {np.asarray(r).dtype}"
            elif op == "find_symbol":
                r = bs.find_symbol(mk_seq(a[0], rep), _sym(a[1]))
                out = _positions(r)
            elif op == "find_symbol_first":
                out = _position(bs.find_symbol_first(mk_seq(a[0], rep), _sym(a[1])))
            elif op == "find_symbol_last":
                out = _position(bs.find_symbol_last(mk_seq(a[0], rep), _sym(a[1])))
            elif op == "construct":
                obj = bs.SequenceProfile(_table(a[0], a[1]), np.array(a[2], dtype=int), mk_alphabet(a[3], rep))
            elif op == "from_alignment":
                aln = mk_aln(a[0], rep)
                if len(a[1]) == 0:
                    obj = bs.SequenceProfile.from_alignment(aln) if rep != 1 else \
                        bs.SequenceProfile.from_alignment(aln, alphabet=None)
                else:
                    obj = bs.SequenceProfile.from_alignment(aln, mk_alphabet(a[1][0], rep))
            elif op == "set_symbols":
                obj.symbols = _table(a[0], a[1])
            elif op == "set_gaps":
                obj.gaps = np.array(a[0], dtype=int)
            elif op == "poke_symbols":
                obj.symbols[int(a[0]), int(a[1])] = int(a[2])
            elif op == "poke_gaps":
                obj.gaps[int(a[0])] = int(a[1])
            elif op == "getitem":
                ix = _index(a[0])
                if rep == 1 and isinstance(ix, int):
                    ix = np.int64(ix)
                obj = obj[ix]
            elif op == "eq":
                other = mk_profile(a[0][1], rep) if a[0][0] == "profile" else ("other", 3)
                r1, r2 = obj == other, obj != other
                if not isinstance(r1, (bool, np.bool_)) or bool(r1) == bool(r2):
                    raise ValueError(f"== gives {r1!r}, != gives {r2!r}")
                out = bool(r1)
            elif op == "consensus":
                flag = bool(a[0])
                s = obj.to_consensus(as_general=flag) if (flag or rep == 1) else obj.to_consensus()
                out = proj_seq(s)
            elif op == "prob":
                pc = int(a[0])
                m = obj.probability_matrix(pseudocount=pc) if (pc != 0 or rep != 2) else obj.probability_matrix()
                out = _matrix(m, obj.symbols.shape)
            elif op == "odds":
                pc = int(a[1])
                m = obj.log_odds_matrix(background_frequencies=_bg(a[0]), pseudocount=pc)
                out = _matrix(m, obj.symbols.shape)
            elif op == "seqprob":
                out = _f(obj.sequence_probability(mk_seq(a[0], rep), pseudocount=int(a[1])))
            elif op == "seqscore":
                out = _f(obj.sequence_score(mk_seq(a[0], rep), background_frequencies=_bg(a[1]),
                                            pseudocount=int(a[2])))
            elif op == "len":
                out = int(len(obj))
            elif op == "str":
                out = _parse_str(str(obj), int(obj.symbols.shape[1]), int(obj.symbols.shape[0]))
            else:
                raise DriverError(f"driver: unknown op {op}")
        return obj, "ok", out, detail
    except DriverError:
        raise
    except Exception as e:
        return obj, "Rejected", _DEFAULT_OUT.get(op, []), f"{type(e).__name__}: {e}"[:200]


def observe(obj, op, a, rep=0):
    """apply_real + projection of the object after the call."""
    keep = obj
    obj2, oc, out, detail = apply_real(obj, op, a, rep)
    if oc != "ok":
        obj2 = keep if op not in MAKER_OPS else None
    if op in SEARCH_OPS:
        p = dict(NOPROFILE)
    else:
        try:
            p = proj_profile(obj2)
        except Exception as e:
            p, oc = dict(NOPROFILE), "Broken"
            detail = f"unprojectable profile: {type(e).__name__}: {e}"[:200]
    obs = {"oc": oc, "p": p, "out": out}
    if detail is not None:
        obs["detail"] = detail
    return obj2, obs


# --------------------------------------------------------------------------- comparison
def _num_ok(log, q, x):
    """q = [num, den] from the specification, x the recorded float (or "nan"/"inf"/"-inf").
    log: x is a base-2 logarithm of the specified value."""
    n, d = q
    if d == 0:
        return x == "nan"
    v = n / d
    if log:
        if n == 0:
            return x == "-inf"
        if isinstance(x, str):
            return False
        if x > 40 or x < -1000:
            return False
        return abs(2.0 ** x - v) <= TOL * max(1.0, v)
    if isinstance(x, str):
        return False
    return abs(x - v) <= TOL * max(1.0, abs(v))


def out_ok(op, eout, oout):
    if op in ("prob", "odds"):
        if len(eout) != len(oout):
            return False
        for er, orow in zip(eout, oout):
            if len(er) != len(orow) or not all(_num_ok(op == "odds", q, x) for q, x in zip(er, orow)):
                return False
        return True
    if op in ("seqprob", "seqscore"):
        return _num_ok(op == "seqscore", eout, oout)
    if op in COMPARED_OUT:
        return eout == oout
    return True


def compare(op, exp, obs):
    bad = []
    if exp["oc"] != obs["oc"]:
        bad.append("oc")
    ep = exp["p"]
    if (ep["k"] != obs["p"]["k"] or ep["rows"] != obs["p"]["rows"] or ep["gaps"] != obs["p"]["gaps"]
            or list(ep["alph"]) != obs["p"]["alph"]):
        bad.append("p")
    if exp["oc"] == "ok" and obs["oc"] == "ok" and not out_ok(op, exp["out"], obs["out"]):
        bad.append("out")
    return bad


def run_call(pre, op, a, rep=0):
    """One call from an abstract pre-state (None / the empty profile: no object yet)."""
    obj = None
    if op not in SEARCH_OPS and op not in MAKER_OPS:
        obj = mk_profile(pre, rep)
    return observe(obj, op, a, rep)


def reps_for(key, every):
    """representations of the abstract alphabets a case is executed with: all three (thorough),
    or one chosen by a stable hash of the case (quick)"""
    import zlib

    return (0, 1, 2) if every else (zlib.crc32(key.encode()) % 3,)


# --------------------------------------------------------------------------- S2: dumped cases
def warmup():
    import biotite.sequence  # noqa: F401
    import biotite.sequence.align  # noqa: F401

    if "X04_GRAPH" in os.environ:
        _graph()


def _features(c, r, feats):
    """classes of cases, read off the SPECIFICATION's values (vacuity guards)"""
    op, a, out = c["op"], c["a"], r["out"]
    f = set()
    f.add(f"{op}:{r['oc']}")
    if r["oc"] == "ok":
        if op == "find_subsequence":
            m = len(a[1]["sym"])
            if m == 0:
                f.add("sub:empty_query")
            if m > len(a[0]["sym"]):
                f.add("sub:query_longer")
            if not out:
                f.add("sub:no_match")
            if any(0 < y - x < m for x, y in zip(out, out[1:])):
                f.add("sub:overlap")
            if a[0]["alph"] != a[1]["alph"]:
                f.add("sub:other_alphabet_ok")
        elif op in ("find_symbol_first", "find_symbol_last") and out == -1:
            f.add("sym:absent")
        elif op == "find_symbol" and len(out) >= 2:
            f.add("sym:several")
        elif op == "consensus":
            for x in out["sym"]:
                f.add(f"cons:{out['kind']}:{x}" if out["kind"] == "nuc" else f"cons:{out['kind']}")
            for row, x in zip(c["p"]["rows"], out["sym"]):
                if sum(row) == 0:
                    f.add(f"cons:{out['kind']}:emptycol")
                elif sorted(row)[-1] == sorted(row)[-2]:
                    f.add(f"cons:{out['kind']}:tie")
        elif op in ("prob", "odds"):
            for row in out:
                for q in row:
                    if q[1] == 0:
                        f.add(f"{op}:nan")
                    elif q[0] == 0:
                        f.add(f"{op}:zero")
        elif op in ("seqprob", "seqscore"):
            f.add(f"{op}:nan" if out[1] == 0 else f"{op}:zero" if out[0] == 0 else f"{op}:positive")
        elif op == "eq":
            f.add(f"eq:{out}")
        elif op == "from_alignment":
            if any(g > 0 for g in r["p"]["gaps"]):
                f.add("from:gaps")
            if any(sum(row) == 0 for row in r["p"]["rows"]):
                f.add("from:allgap_column")
            if len({tuple(s["alph"]) for s in a[0]["seqs"]}) > 1:
                f.add("from:mixed_alphabets_ok")
            if len(a[1]) == 1:
                f.add("from:given_alphabet_ok")
    if op == "getitem":
        f.add(f"getitem:{a[0][0]}:{r['oc']}")
    feats.update(f)


def _nontrivial(c, r):
    """the call returns something non-empty, changes the object or is refused"""
    if r["oc"] != "ok":
        return True
    if c["op"] in SEARCH_OPS:
        return r["out"] not in ([], -1)
    return r["p"] != c["p"] or r["out"] not in ([], {}, False, 0)


def exec_cases(item):
    """One chunk of a TLC dump: parse the (c, r) states and execute each case."""
    from harness.tlabind.pool import progress
    from harness.tlabind.tlaval import parse_state, to_py

    with open(item["file"], "rb") as fh:
        fh.seek(item["beg"])
        text = fh.read(item["end"] - item["beg"]).decode()
    mism, n, ncalls, ops, nontriv = [], 0, 0, {}, 0
    feats = set()
    sample = None
    cur = []

    def flush():
        nonlocal n, ncalls, nontriv, sample
        t = "".join(cur).strip()
        cur.clear()
        if not t:
            return
        st = parse_state(t)
        c, r = to_py(st["c"]), to_py(st["r"])
        if c["op"] == "init":
            return
        if "p" not in c:
            c["p"] = dict(NOPROFILE)
        n += 1
        ops[c["op"]] = ops.get(c["op"], 0) + 1
        _features(c, r, feats)
        if _nontrivial(c, r):
            nontriv += 1
        key = json.dumps([c["op"], c["a"], c["p"]], sort_keys=True)
        if sample is None or key < sample[0]:
            sample = (key, {"op": c["op"], "a": c["a"], "p": c["p"], "expected": {k: r[k] for k in ("oc", "p", "out")}})
        for rep in reps_for(key, item.get("all_reps", False)):
            progress({"op": c["op"], "a": c["a"], "pre": c["p"], "rep": rep})
            ncalls += 1
            _o, obs = run_call(c["p"], c["op"], c["a"], rep)
            bad = compare(c["op"], r, obs)
            if bad:
                mism.append({"kind": "case", "op": c["op"], "a": c["a"], "pre": c["p"], "rep": rep,
                             "bad": bad, "expected": r, "observed": obs})
            elif obs.get("detail") and obs["oc"] == "ok":
                feats.add("diag:" + obs["detail"])

    for line in text.splitlines(keepends=True):
        if line.startswith("State ") and line.rstrip().endswith(":"):
            flush()
        else:
            cur.append(line)
    flush()
    return {"mismatch": mism, "n": n, "calls": ncalls, "ops": ops, "nontrivial": nontriv,
            "feats": sorted(feats), "sample": sample}


def _split_dump(path, per_item):
    """Byte ranges of the dump file, `per_item` states each (no parsing in the parent)."""
    offs, pos = [], 0
    with open(path, "rb") as fh:
        for line in fh:
            if line.startswith(b"State ") and line.rstrip().endswith(b":"):
                offs.append(pos)
            pos += len(line)
    offs.append(pos)
    items = []
    for k in range(0, len(offs) - 1, per_item):
        items.append({"file": path, "beg": offs[k], "end": offs[min(k + per_item, len(offs) - 1)]})
    return items, len(offs) - 1


# --------------------------------------------------------------------------- S2: machine paths
_G = None


def _graph():
    global _G
    if _G is None:
        with open(os.environ["X04_GRAPH"]) as f:
            _G = json.load(f)
    return _G


def concretize(op, a, exp):
    """State-relative calls of the machine: the value to pass is published by the specification
    in `out.arg` of the target state."""
    arg = exp["out"]["arg"]
    if op == "set_symbols_k":
        return "set_symbols", arg
    if op == "set_gaps_k":
        return "set_gaps", arg
    if op == "eq_k":
        return "eq", [["profile", arg]]
    if op == "seqprob_k":
        return "seqprob", [arg, a[0]]
    if op == "seqscore_k":
        return "seqscore", [arg, [], a[0]]
    return op, a


def exec_paths(batch):
    mism, steps = [], 0
    for item in batch["paths"]:
        r = exec_path(item)
        mism.extend(r["mismatch"])
        steps += r["steps"]
    return {"mismatch": mism, "steps": steps}


def exec_path(item):
    from harness.tlabind.pool import progress

    G = _graph()
    states, labels = G["states"], G["labels"]
    pre = states[item["init"]]
    rep = item["rep"]
    obj = None
    mism, nsteps, hist = [], 0, []
    for li, dst in item["steps"]:
        mop, ma = labels[li]
        exp = states[dst]
        op, a = concretize(mop, ma, exp)
        hist.append([op, a])
        progress({"op": op, "a": a, "pre": pre["p"], "rep": rep})
        nsteps += 1
        obj2, obs = observe(obj, op, a, rep)
        e = {"oc": exp["oc"], "p": exp["p"], "out": exp["out"]["res"]}
        bad = compare(op, e, obs)
        if bad:
            mism.append({"kind": "step", "op": op, "a": a, "pre": pre["p"], "rep": rep, "bad": bad,
                         "expected": e, "observed": obs, "history": list(hist)})
            # re-synchronise on the specification's state: the rest of the path is still executed
            obj2 = mk_profile(exp["p"], rep) if exp["made"] and exp["p"]["alph"] else None
        obj = obj2
        pre = exp
    return {"mismatch": mism, "steps": nsteps}


# --------------------------------------------------------------------------- S3: generators
def _rand_alphabet(rng):
    """(tokens, class) of a random sequence type"""
    return rng.choice([DNA, DNA, AMB, PROT, ["x", "y", "z"], ["a", "b"], ["o1", "o2", "o3", "o4"],
                       ["p", "q", "r", "s", "t"]])


def _rand_syms(rng, alph, n, skew=False):
    if skew:
        pool = alph[: max(2, len(alph) // 3)]
        return [rng.choice(pool) if rng.random() < 0.8 else rng.choice(alph) for _ in range(n)]
    return [rng.choice(alph) for _ in range(n)]


def gen_search_trace(item):
    """Independent search calls on long sequences; logged for validation by TLC."""
    from harness.tlabind.pool import progress

    rng = random.Random(item["seed"])
    events = []
    for _ in range(item["length"]):
        alph = _rand_alphabet(rng)
        n = rng.choice([0, 1, 2, 5, 12, item["maxlen"] // 2, item["maxlen"]])
        mode = rng.random()
        if mode < 0.3:      # periodic text: overlapping occurrences
            unit = _rand_syms(rng, alph[:3], rng.randint(1, 3))
            syms = (unit * (n // len(unit) + 1))[:n]
        else:
            syms = _rand_syms(rng, alph, n, skew=mode < 0.7)
        S = {"alph": alph, "sym": syms}
        rep = rng.choice([0, 0, 1, 2])
        op = rng.choice(["find_subsequence"] * 3 + ["find_symbol", "find_symbol_first", "find_symbol_last"])
        if op == "find_subsequence":
            m = rng.choice([0, 1, 1, 2, 2, 3, 4, 7])
            if n and rng.random() < 0.75:
                beg = rng.randrange(n)
                q = syms[beg:beg + m]
                if q and rng.random() < 0.2:
                    q[rng.randrange(len(q))] = rng.choice(alph)
            else:
                q = _rand_syms(rng, alph, m)
            qalph = alph
            x = rng.random()
            if x < 0.12:        # the query is written in an alphabet that extends the sequence's
                qalph = AMB if alph == DNA else alph + ["w"] if all(len(t) == 1 for t in alph) and alph != PROT and alph != AMB else alph
            elif x < 0.24:      # ... in an alphabet the sequence's alphabet extends
                if alph == AMB:
                    qalph = DNA
                    q = [t for t in q if t in DNA]
                elif len(alph) > 2 and alph not in (DNA, PROT):
                    qalph = alph[:-1]
                    q = [t for t in q if t in qalph]
            elif x < 0.30:      # unrelated alphabets
                qalph = PROT if alph in (DNA, AMB) else DNA
                q = [rng.choice(["A", "C"]) for _ in range(min(m, 2))]
            a = [S, {"alph": qalph, "sym": q}]
        else:
            x = rng.random()
            tok = (syms[-1] if (x < 0.3 and n) else syms[0] if (x < 0.4 and n) else    # the boundaries
                   rng.choice(alph) if x < 0.85 else
                   rng.choice(["Z", "@", "o99"]) if alph is not PROT else "@")
            a = [S, tok]
        progress({"op": op, "a": a, "rep": rep})
        _o, obs = observe(None, op, a, rep)
        ev = {"op": op, "a": a, "oc": obs["oc"], "p": obs["p"], "out": obs["out"], "rep": rep,
              "pre": dict(NOPROFILE)}
        if "detail" in obs:
            ev["detail"] = obs["detail"]
        events.append(ev)
    return {"events": events}


def _fits(rows, k, pc, bg, prob=False):
    """Dom_ProductFits / Dom_ProbProductFits of the specification (TLC re-checks every event)"""
    if prob:
        bm = 1
    elif bg:
        bm = max(max(q) for q in bg[0])
    else:
        bm = max(1, k)
    acc = 1
    for r in rows:
        x = k * (sum(r) + pc) * bm + 1
        if acc > LIMIT // x:
            return False
        acc *= x
    return True


def _rand_bg(rng, k):
    if rng.random() < 0.4:
        return []
    return [[[rng.randint(1, 3), rng.choice([2, 4, 5, 8])] for _ in range(k)]]


def _rand_alignment(rng, item):
    alph = rng.choice([DNA, DNA, AMB, PROT, ["x", "y", "z"], ["o1", "o2", "o3"]])
    nrows = rng.randint(1, item["maxrows"])
    ncols = rng.choice([0, 1, 2, 3, 5, 8, item["maxcols"]])
    mixed = alph == DNA and rng.random() < 0.3
    seqs, cols = [], [[-1] * nrows for _ in range(ncols)]
    for r in range(nrows):
        ralph = AMB if (mixed and rng.random() < 0.5) else alph
        if rng.random() < 0.85:     # an ordinary gapped row
            syms = []
            for c in range(ncols):
                if rng.random() < 0.25:
                    continue
                cols[c][r] = len(syms)
                syms.append(rng.choice(alph[:4]) if rng.random() < 0.7 else rng.choice(ralph))
            if rng.random() < 0.3:
                syms = syms + _rand_syms(rng, ralph, rng.randint(1, 3))     # unaligned tail
        else:                       # an arbitrary trace (any index, repeated, not monotone)
            syms = _rand_syms(rng, ralph, rng.randint(1, 6))
            for c in range(ncols):
                cols[c][r] = rng.randint(-1, len(syms) - 1)
        if not syms:
            syms = [rng.choice(ralph)]          # Dom_Alignment: no empty sequences
        seqs.append({"alph": ralph, "sym": syms})
    return {"seqs": seqs, "trace": cols}


def _rand_index(rng, n):
    x = rng.random()
    if x < 0.25 and n > 0:
        return ["int", [rng.randint(-n, n - 1)]]
    if x < 0.6:
        def b():
            return [] if rng.random() < 0.35 else [rng.randint(-n - 2, n + 2)]
        return ["slice", [b(), b(), [] if rng.random() < 0.5 else [rng.choice([1, 2, 3, -1, -2, 0])]]]
    if x < 0.8:
        m = n if rng.random() < 0.9 else n + 1
        return ["mask", [rng.random() < 0.6 for _ in range(m)]]
    hi = n if rng.random() < 0.1 else n - 1
    if n == 0:
        return ["arr", [] if rng.random() < 0.7 else [0]]
    return ["arr", [rng.randint(-n, hi) for _ in range(rng.randint(0, n + 2))]]


def _well_formed(p):
    return (p["k"] == len(p["alph"]) and len(p["gaps"]) == len(p["rows"])
            and all(len(r) == p["k"] for r in p["rows"]))


def gen_profile_trace(item):
    """Random history of one SequenceProfile object."""
    from harness.tlabind.pool import progress

    rng = random.Random(item["seed"])
    rep = rng.choice([0, 0, 1, 2])
    events = []
    obj = None
    cur = dict(NOPROFILE)
    last_obs, again = None, False
    for step in range(item["length"]):
        if obj is None:
            if step > 0 and events[-1]["oc"] == "ok":
                break
            if rng.random() < 0.75:
                aln = _rand_alignment(rng, item)
                x = rng.random()
                alphs = [s["alph"] for s in aln["seqs"]]
                if x < 0.6:
                    oa = []
                elif x < 0.8:
                    oa = [AMB if all(al in (DNA, AMB) for al in alphs) else alphs[0] + ["w"] if alphs[0] not in (PROT, AMB, DNA) and len(alphs[0][0]) == 1 else alphs[0]]
                else:
                    oa = [rng.choice([DNA, PROT, RNA])]
                op, a = "from_alignment", [aln, oa]
            else:
                alph = rng.choice([DNA, RNA, PROT, AMB, ["x", "y", "z"], ["o1", "o2", "o3"]])
                n = rng.randint(0, 6)
                k = len(alph)
                rows = []
                for _ in range(n):
                    row = [0] * k
                    for _j in range(rng.randint(0, 4)):
                        row[rng.randrange(min(k, 5)) if rng.random() < 0.8 else rng.randrange(k)] += rng.randint(1, 3)
                    if rng.random() < 0.25:
                        v = rng.randint(1, 3)
                        row = [v if rng.random() < 0.5 else 0 for _ in range(k)] if k <= 4 else row
                    rows.append(row)
                gaps = [rng.randint(0, 3) for _ in range(n)]
                x = rng.random()
                if x < 0.08:
                    gaps = gaps + [0]
                elif x < 0.16:
                    alph = alph + ["q"] if all(len(t) == 1 for t in alph) else alph[:-1]
                op, a = "construct", [k, rows, gaps, alph]
        else:
            n, k, alph = len(cur["rows"]), cur["k"], cur["alph"]
            letters = all(len(t) == 1 for t in alph)
            op = rng.choice(["getitem"] * 5 + ["consensus"] * 4 + ["prob", "odds", "seqprob", "seqprob", "seqscore",
                            "seqscore", "eq", "eq", "len", "str", "set_symbols", "set_gaps", "poke_symbols",
                            "poke_symbols", "poke_gaps"])
            if again and last_obs is not None:
                # observe, write, observe again: the same observer call right after an accepted write
                op = "again"
                again = False
            if op == "again":
                op, a = last_obs
                if op in ("seqprob", "seqscore") and not _fits(cur["rows"], k, max(a[-1], 0),
                                                               a[1] if op == "seqscore" else [], op == "seqprob"):
                    continue
            elif op == "getitem":
                ix = _rand_index(rng, n)
                if n > 3 and ix[0] in ("slice", "mask", "arr") and rng.random() < 0.5:
                    ix = ["slice", [[rng.randint(0, 1)], [], []]]      # keep histories alive
                a = [ix]
            elif op == "consensus":
                a = [rng.random() < 0.3]
            elif op == "prob":
                a = [rng.choice([0, 0, 1, 2, 3, -1])]
            elif op == "odds":
                a = [_rand_bg(rng, k), rng.choice([0, 1, 2, -1])]
            elif op in ("seqprob", "seqscore"):
                pc = rng.choice([0, 0, 1, 2, -1])
                bg = _rand_bg(rng, k) if op == "seqscore" else []
                x = rng.random()
                m = n if x < 0.84 else n + 1 if x < 0.92 else max(n - 1, 0)
                salph = alph
                if alph == AMB and rng.random() < 0.5:
                    salph = DNA
                syms = []
                for i in range(m):
                    row = cur["rows"][i] if i < n else [0] * k
                    best = max(range(len(salph)), key=lambda j: row[j])
                    syms.append(salph[best] if rng.random() < 0.7 else rng.choice(salph))
                if not _fits(cur["rows"], k, max(pc, 0), bg, op == "seqprob"):
                    continue
                a = [{"alph": salph, "sym": syms}, pc] if op == "seqprob" else [{"alph": salph, "sym": syms}, bg, pc]
            elif op == "eq":
                x = rng.random()
                q = json.loads(json.dumps(cur))
                if x < 0.45:
                    pass
                elif x < 0.6 and n > 0:
                    q["gaps"][rng.randrange(n)] += 1
                elif x < 0.75 and n > 0:
                    q["rows"][rng.randrange(n)][rng.randrange(k)] += 1
                elif x < 0.85 and n > 0:
                    q["rows"], q["gaps"] = q["rows"][:-1], q["gaps"][:-1]
                elif x < 0.93 and k > 1:
                    q["alph"] = [q["alph"][1], q["alph"][0]] + q["alph"][2:]
                a = [["other"]] if x >= 0.93 else [["profile", q]]
            elif op == "str":
                if not letters:
                    continue
                a = []
            elif op == "set_symbols":
                x = rng.random()
                n2, k2 = (n, k) if x < 0.7 else (n + 1, k) if x < 0.85 else (n, k + 1)
                a = [k2, [[rng.randint(0, 4) if rng.random() < 0.5 else 0 for _ in range(k2)] for _ in range(n2)]]
            elif op == "set_gaps":
                a = [[rng.randint(0, 5) for _ in range(n if rng.random() < 0.75 else n + 1)]]
            elif op == "poke_symbols":
                if n == 0:
                    continue
                a = [rng.randrange(n), rng.randrange(k), rng.choice([0, 1, 2, 12, 105])]
            elif op == "poke_gaps":
                if n == 0:
                    continue
                a = [rng.randrange(n), rng.randint(0, 11)]
            else:
                a = []
        progress({"op": op, "a": a, "pre": cur, "rep": rep})
        obj, obs = observe(obj, op, a, rep)
        ev = {"op": op, "a": a, "oc": obs["oc"], "p": obs["p"], "rep": rep, "pre": cur}
        if op in NUMERIC_OPS:
            ev["out"], ev["num"] = [], obs["out"]
        else:
            ev["out"] = obs["out"]
        if "detail" in obs:
            ev["detail"] = obs["detail"]
        events.append(ev)
        if obs["oc"] == "ok" and op in ("consensus", "prob", "odds", "seqprob", "seqscore", "str", "len"):
            last_obs = (op, a)
        elif op == "getitem" and obs["oc"] == "ok":
            last_obs = None           # another object: sequences of the old length do not fit
        elif obs["oc"] == "ok" and op in ("set_symbols", "set_gaps", "poke_symbols", "poke_gaps"):
            again = rng.random() < 0.7
        cur = obs["p"]
        if obs["oc"] == "Broken" or not _well_formed(cur):
            break       # the event itself is judged; nothing can be computed from such a state
    return {"events": events}


# --------------------------------------------------------------------------- classification
def _strictly_extends(A, B):
    return len(A) > len(B) and list(A[:len(B)]) == list(B)


def classify(mm):
    if mm.get("kind") not in ("case", "step", "event"):
        return None
    op, a, pre = mm.get("op"), mm.get("a"), mm.get("pre")
    exp, obs, bad = mm.get("expected"), mm.get("observed"), mm.get("bad")
    if op is None or a is None or exp is None or obs is None or bad is None:
        return None
    if op == "find_subsequence" and bad == ["oc"]:
        sa, qa = a[0]["alph"], a[1]["alph"]
        # the code accepts exactly the opposite relation of the documented one
        if (exp["oc"] == "Rejected" and obs["oc"] == "ok" and _strictly_extends(sa, qa)
                and obs["out"] == exp.get("alt")):
            return "X04-subsequence-alphabet-direction"
        if (exp["oc"] == "ok" and obs["oc"] == "Rejected" and _strictly_extends(qa, sa)
                and str(obs.get("detail", "")).startswith("ValueError")):
            return "X04-subsequence-alphabet-direction"
    if (op == "getitem" and a[0] == ["int", [-1]] and bad == ["p"] and exp["oc"] == "ok" and obs["oc"] == "ok"
            and pre is not None and len(pre["rows"]) >= 1 and len(exp["p"]["rows"]) == 1
            and obs["p"]["rows"] == [] and obs["p"]["gaps"] == []
            and obs["p"]["k"] == exp["p"]["k"] and obs["p"]["alph"] == list(exp["p"]["alph"])):
        return "X04-getitem-minus-one"
    if (op == "consensus" and a == [False] and bad == ["oc"] and pre is not None and list(pre["alph"]) == RNA
            and exp["oc"] == "ok" and obs["oc"] == "Rejected"
            and str(obs.get("detail", "")).startswith("AlphabetError") and "'U'" in str(obs.get("detail", ""))
            and any(row[3] == max(row) and row.count(max(row)) == 1 for row in pre["rows"])
            and "T" in exp["out"]["sym"]):
        return "X04-rna-consensus-u"
    if (op == "consensus" and a == [False] and bad == ["out"] and pre is not None and list(pre["alph"]) == PROT
            and exp["oc"] == "ok" and obs["oc"] == "ok"):
        eo, oo = exp["out"], obs["out"]
        if (isinstance(oo, dict) and oo.get("kind") == eo["kind"] == "prot" and oo.get("alph") == list(eo["alph"])
                and len(oo.get("sym", [])) == len(eo["sym"]) == len(pre["rows"])
                and any(sum(row) == 0 for row in pre["rows"])
                and all((e == "X" and o == "*") if sum(row) == 0 else e == o
                        for row, e, o in zip(pre["rows"], eo["sym"], oo["sym"]))):
            return "X04-prot-consensus-empty-column"
    return None


# --------------------------------------------------------------------------- orchestration
_NEED_SEARCH = {"find_subsequence:ok", "find_subsequence:Rejected", "find_symbol:ok", "find_symbol:Rejected",
                "find_symbol_first:ok", "find_symbol_first:Rejected", "find_symbol_last:ok",
                "find_symbol_last:Rejected", "sub:empty_query", "sub:query_longer", "sub:no_match",
                "sub:overlap", "sub:other_alphabet_ok", "sym:absent", "sym:several"}
_IUPAC = "ACGTRYSWKMBDHVN"
_NEED_PROFILE = ({f"{op}:ok" for op in PROFILE_OPS}
                 | {f"{op}:Rejected" for op in ("construct", "from_alignment", "set_symbols", "set_gaps", "getitem",
                                                "consensus", "prob", "odds", "seqprob", "seqscore")}
                 | {f"cons:nuc:{x}" for x in _IUPAC}
                 | {"cons:prot", "cons:general", "cons:prot:emptycol", "cons:general:emptycol", "cons:prot:tie",
                    "cons:general:tie", "cons:nuc:tie", "prob:nan", "prob:zero", "odds:nan", "odds:zero",
                    "seqprob:nan", "seqprob:zero", "seqprob:positive", "seqscore:nan", "seqscore:zero",
                    "seqscore:positive", "eq:True", "eq:False", "from:gaps", "from:allgap_column",
                    "from:mixed_alphabets_ok", "from:given_alphabet_ok"}
                 | {f"getitem:{k}:ok" for k in ("int", "slice", "mask", "arr")}
                 | {f"getitem:{k}:Rejected" for k in ("slice", "mask", "arr")})


def _run_dump(ctx, module, cfg, tag, need):
    """S1 on one exhaustive module + S2 replay of its dump."""
    from harness.tlabind import helpers, tlc
    from harness.tlabind.core import Vacuity

    d = tlc.scratch_dir("x04" + tag)
    prefix = os.path.join(d, "cases")
    ctx.tlc(module, cfg, stage="S1-" + tag, dump=prefix, timeout=1500)
    dump = prefix + ".dump" if os.path.exists(prefix + ".dump") else prefix
    items, nstates = _split_dump(dump, 300)
    for it in items:
        it["all_reps"] = not ctx.quick
    ctx.log(f"S2-{tag}: {nstates} dumped states in {len(items)} items")
    res = helpers.run_pool(ctx, "harness.drivers.x04:exec_cases", items, stage="S2", item_timeout=180)
    ops, feats, ncases, ncalls, nontriv, sample = {}, set(), 0, 0, 0, None
    for r in res:
        if not r or "crash" in r:
            continue
        ncases += r["n"]
        ncalls += r["calls"]
        nontriv += r["nontrivial"]
        feats.update(r["feats"])
        for k, v in r["ops"].items():
            ops[k] = ops.get(k, 0) + v
        if r["sample"] and (sample is None or r["sample"][0] < sample[0]):
            sample = r["sample"]
    ctx.cov[f"s2_{tag}_cases_per_op"] = dict(sorted(ops.items()))
    ctx.cov[f"s2_{tag}_cases"] = ncases
    ctx.cov[f"s2_{tag}_real_calls"] = ncalls
    ctx.cov[f"s2_{tag}_classes"] = sorted(x for x in feats if not x.startswith("diag:"))
    for x in sorted(feats):
        if x.startswith("diag:"):
            ctx.note(f"diagnostic (not part of the statement): {x[5:]}")
    missing = need - feats
    if missing:
        raise Vacuity(f"{tag}: classes of cases never enumerated: {sorted(missing)}")
    ctx.traces_validated += ncases
    ctx.evaluations += ncalls
    ctx.nontrivial += nontriv
    if sample:
        ctx.sample({f"s2_{tag}_case": sample[1]})
    return ncases


_MACHINE_CALLS = {"from_alignment", "construct", "getitem", "set_symbols_k", "set_gaps_k", "poke_symbols",
                  "poke_gaps", "consensus", "prob", "odds", "len", "str", "seqprob_k", "seqscore_k", "eq_k"}


def _run_machine(ctx):
    from harness.tlabind import dot, helpers, tlc
    from harness.tlabind.core import Vacuity
    from harness.tlabind.tlaval import to_py

    quick = ctx.quick
    d = tlc.scratch_dir("x04m")
    dotf = os.path.join(d, "g.dot")
    # one run: the invariants are checked while the graph is dumped (single worker, see README)
    ctx.tlc("ProfileMachine", "MCMachine.cfg" if quick else "MCMachine_thorough.cfg", stage="S1-machine",
            dump_dot=dotf, workers=1, timeout=2400)
    g = dot.load(dotf)
    if not g.edges:
        raise RuntimeError("empty state graph")
    labels, lab_ix, ops_seen = [], {}, {}
    for (_s, lab, _d) in g.edges:
        if lab not in lab_ix:
            _name, args = dot.parse_label(lab)
            lab_ix[lab] = len(labels)
            labels.append(to_py(args[0]))
        c = labels[lab_ix[lab]]
        ops_seen[c[0]] = ops_seen.get(c[0], 0) + 1
    ctx.cov["machine_transitions_per_call"] = dict(sorted(ops_seen.items()))
    if _MACHINE_CALLS - set(ops_seen):
        raise Vacuity(f"machine calls never taken: {sorted(_MACHINE_CALLS - set(ops_seen))}")
    ids = {nid: k for k, nid in enumerate(g.state_text)}
    states, socs = [None] * len(ids), {}
    for nid, k in ids.items():
        st = g.state(nid)
        states[k] = {"made": bool(st["made"]), "p": to_py(st["p"]), "oc": st["oc"], "out": to_py(st["out"])}
        socs[st["oc"]] = socs.get(st["oc"], 0) + 1
    if not {"ok", "Rejected"} <= set(socs):
        raise Vacuity(f"machine outcomes not all reached: {socs}")
    paths, covered = dot.covering_paths(g, max_len=8, rng=ctx.rng)
    if covered != len(g.edges):
        raise Vacuity(f"only {covered} of {len(g.edges)} transitions covered by paths")
    gfile = os.path.join(d, "graph.json")
    with open(gfile, "w") as f:
        json.dump({"states": states, "labels": labels}, f)
    pitems = [{"init": ids[root], "steps": [[lab_ix[lab], ids[dst]] for lab, dst in steps], "rep": k % 3}
              for k, (root, steps) in enumerate(paths)]
    ctx.log(f"S2-machine: {len(pitems)} paths covering {covered}/{len(g.edges)} transitions")
    batches = [{"paths": b} for b in helpers.chunked(pitems, 100)]
    pres = helpers.run_pool(ctx, "harness.drivers.x04:exec_paths", batches, stage="S2",
                            env={"X04_GRAPH": gfile}, item_timeout=180)
    steps = sum((r or {}).get("steps", 0) for r in pres)
    ctx.traces_validated += len(pitems)
    ctx.evaluations += steps
    ctx.nontrivial += sum(1 for it in pitems if len(it["steps"]) >= 3)
    ctx.cov.update({"s2_machine_paths": len(pitems), "s2_machine_steps_executed": steps,
                    "s2_machine_transitions_covered": covered, "s2_machine_transitions_total": len(g.edges),
                    "machine_states_per_outcome": socs})
    if paths:
        ctx.sample({"s2_machine_path": [labels[lab_ix[lab]] for lab, _ in paths[0][1]]})


_KEEP = ("op", "a", "oc", "p", "out")


def validate_traces(ctx, traces, stage="S3"):
    """TLC re-computes every recorded event; floats are compared with the published rationals."""
    from harness.tlabind import helpers, tlc
    from harness.tlabind.tlaval import parse_value, to_py

    if not traces:
        raise RuntimeError(f"{stage} produced no traces")
    mms = helpers.tlc_validate(ctx, traces, keep=_KEEP, timeout=1800, stage=stage)
    dom = [v for v in mms if v[3] == ["DOMAIN"]]
    if dom:
        badev = [[traces[v[1] - 1][v[2] - 1]["op"], traces[v[1] - 1][v[2] - 1]["a"]] for v in dom[:3]]
        raise RuntimeError(f"{stage} generator left the specification's domain: {json.dumps(badev)[:1500]}")
    expects = {}
    for txt in tlc.printed_values(ctx._last_tlc_out, "EXPECT"):
        v = to_py(parse_value(txt))
        expects[(v[1], v[2])] = v[3]
    flagged = {(v[1], v[2]) for v in mms}
    nnum = 0
    for ti, t in enumerate(traces, 1):
        for li, e in enumerate(t, 1):
            if e["op"] in NUMERIC_OPS and e["oc"] == "ok" and (ti, li) not in flagged:
                if (ti, li) not in expects:
                    raise RuntimeError(f"{stage}: TLC published no value for numeric event {ti}/{li}")
                nnum += 1
                if not out_ok(e["op"], expects[(ti, li)], e["num"]):
                    ctx.mismatch({"stage": stage, "kind": "event", "op": e["op"], "a": e["a"], "pre": e["pre"],
                                  "rep": e.get("rep", 0), "bad": ["out"],
                                  "expected": {"oc": "ok", "p": e["p"], "out": expects[(ti, li)]},
                                  "observed": {"oc": e["oc"], "p": e["p"], "out": e["num"]},
                                  "trace": ti, "event": li})
    for v in mms:
        _tag, tid, l, flags, eoc, ep, eout, ealt = v
        e = traces[tid - 1][l - 1]
        obs = {"oc": e["oc"], "p": e["p"], "out": e.get("num", e["out"])}
        if "detail" in e:
            obs["detail"] = e["detail"]
        ctx.mismatch({"stage": stage, "kind": "event", "op": e["op"], "a": e["a"], "pre": e["pre"],
                      "rep": e.get("rep", 0), "bad": [n for n, ok in zip(("oc", "p", "out"), flags) if not ok],
                      "expected": {"oc": eoc, "p": ep, "out": eout, "alt": ealt}, "observed": obs,
                      "trace": tid, "event": l,
                      "history": [[x["op"], x["a"]] for x in traces[tid - 1][:l]][-4:]})
    return nnum


def _record_repo_tests(ctx):
    """S3b: the calls made by the repository's own tests of the area (test_search.py,
    test_profile.py), recorded by this module acting as a pytest plugin."""
    import subprocess

    from harness.tlabind import tlc

    d = tlc.scratch_dir("x04rec")
    rec = os.path.join(d, "rec.json")
    env = dict(os.environ, PYTHONPATH=tlc.VERIF + os.pathsep + os.environ.get("PYTHONPATH", ""),
               X04_RECORD_FILE=rec)
    try:
        subprocess.run(["/venv/bin/python", "-m", "pytest", "-q", "-p", "no:cacheprovider", "-p",
                        "harness.drivers.x04", "tests/sequence/test_search.py", "tests/sequence/test_profile.py"],
                       cwd="/repo", env=env, stdout=subprocess.DEVNULL, stderr=subprocess.DEVNULL, timeout=600)
    except subprocess.TimeoutExpired:
        ctx.note("repository-test recorder timed out; stage skipped")
        return []
    if not os.path.exists(rec):
        ctx.note("repository-test recorder produced no file (pytest could not start); stage skipped")
        return []
    with open(rec) as f:
        data = json.load(f)
    ctx.cov["repo_test_events"] = len(data["traces"])
    ctx.cov["repo_test_events_skipped"] = data["skipped"]
    return data["traces"]


def run(ctx):
    from harness.tlabind import helpers, pool, tlc
    from harness.tlabind.core import Vacuity

    quick = ctx.quick
    ctx.assumptions += [
        "alphabets are finite sequences of pairwise different symbols; `A extends B` means B is a prefix of A "
        "(Alphabet.extends); LetterAlphabet, plain Alphabet and the library's own instances of an alphabet are "
        "interchangeable (each case is executed with all three)",
        "Dom_SubseqAlphabets: find_subsequence is modelled as DOCUMENTED (the query alphabet must extend the "
        "sequence alphabet, ValueError otherwise); the empty query occurs at 0..n (documentation silent: code "
        "and string model agree)",
        "a symbol that is not in the sequence's alphabet is refused by find_symbol/_first/_last (Alphabet.encode)",
        "Dom_Alignment: >= 1 row, every trace entry is -1 or a valid index of its row (any order, repeats allowed)",
        "Dom_Counts: count tables hold natural numbers; Dom_IntIndex: an integer index lies in -n..n-1 "
        "(out-of-range integers give an empty profile in the code and are not decided); other index forms as numpy "
        "(PyIndex): wrong mask length, out-of-range array entries and step 0 are refused",
        "consensus: gaps never influence it; DNA/RNA ties give the IUPAC letter of the most frequent bases and a "
        "position without symbols is refused (error text of the code); an RNA consensus is a NucleotideSequence "
        "and therefore spelled with T; protein / general: first most frequent symbol, X resp. first symbol for "
        "a position without symbols (docstrings of the private helpers)",
        "numbers: probability (C*k + pc) / (k*(sum + pc)) as exact rational, 0/0 = not a number; log-odds are "
        "compared through 2^x with the exact odds (0 <-> -inf); tolerance 1e-9 relative; pseudocounts are "
        "integers; Dom_Background: positive frequencies; Dom_ProfileSequence: the scored sequence is written in "
        "an alphabet the profile's alphabet extends; Dom_ProductFits: products stay below 2^30 (TLC integers)",
        "str(profile) is modelled for one-letter / string symbols as the documented right-justified grid; repr, "
        "aliasing between a profile and the arrays it was built from / its slices (numpy views) are not modelled",
        "trusted: TLC, the TLA+ value parser, the projection (symbols/gaps/alphabet attributes, Sequence.symbols)",
    ]
    ctx.cov["rule"] = ("non-trivial = a search call that finds something or is refused, a profile call that "
                       "changes the object, returns a non-empty value or is refused (S2 cases); a machine path "
                       "with >= 3 calls; a recorded trace with >= 3 accepted calls (S3)")
    # ---- S1 + S2: exhaustive single calls ------------------------------------------------
    _run_dump(ctx, "MCSearch", "MCSearch.cfg" if quick else "MCSearch_thorough.cfg", "search", _NEED_SEARCH)
    _run_dump(ctx, "MCProfile", "MCProfile.cfg" if quick else "MCProfile_thorough.cfg", "profile", _NEED_PROFILE)
    ctx.exhaustive = True
    # ---- S1 + S2: histories ----------------------------------------------------------------
    _run_machine(ctx)
    # ---- S3: recorded runs -----------------------------------------------------------------
    nsearch, nprof = (100, 150) if quick else (800, 1800)
    items = [{"kind": "search", "seed": ctx.rng.randrange(1 << 30), "length": 12 if quick else 16,
              "maxlen": 60 if quick else 240} for _ in range(nsearch)]
    items += [{"kind": "profile", "seed": ctx.rng.randrange(1 << 30), "length": 14 if quick else 18,
               "maxrows": 7, "maxcols": 12 if quick else 30} for _ in range(nprof)]
    tres = pool.run_isolated("harness.drivers.x04:gen_trace", items, item_timeout=180)
    traces = []
    for it, r in zip(items, tres):
        if r is None:
            raise RuntimeError("S3: missing result")
        if "driver_error" in r:
            raise RuntimeError(f"S3 driver error: {r['driver_error']}\n{r.get('tb', '')}")
        if "crash" in r:
            ctx.mismatch({"stage": "S3", "kind": "crash", "signal": r["crash"],
                          "progress": r.get("progress"), "item": it})
            continue
        if r["events"]:
            traces.append(r["events"])
    ctx.log(f"S3: {len(traces)} traces recorded")
    try:
        nnum = validate_traces(ctx, traces)
    except (tlc.TLCFailure, RuntimeError) as e:
        if not ctx.violations:
            raise
        # an implementation that already disagrees with the specification can drive the recorded
        # histories into states on which the operators are not defined: report what was found
        ctx.note(f"S3 could not be evaluated after {len(ctx.violations)} violations were found: {str(e)[:300]}")
        return
    nev = sum(len(t) for t in traces)
    per, ocs = {}, {}
    for t in traces:
        for e in t:
            per[e["op"]] = per.get(e["op"], 0) + 1
            ocs[e["oc"]] = ocs.get(e["oc"], 0) + 1
    ctx.cov.update({"s3_traces": len(traces), "s3_events": nev, "s3_events_per_op": dict(sorted(per.items())),
                    "s3_events_per_outcome": ocs, "s3_numeric_events_compared": nnum})
    missing = (set(SEARCH_OPS) | set(PROFILE_OPS)) - set(per)
    if missing:
        raise Vacuity(f"S3: calls never recorded: {sorted(missing)}")
    if not {"ok", "Rejected"} <= set(ocs) or nnum == 0:
        raise Vacuity(f"S3: outcomes not all recorded: {ocs}, numeric events {nnum}")
    ctx.traces_validated += len(traces)
    ctx.evaluations += nev
    ctx.nontrivial += sum(1 for t in traces if sum(1 for e in t if e["oc"] == "ok") >= 3)
    ctx.sample({"s3_events": [{k: e[k] for k in _KEEP} for e in traces[-1][:2]]})

    # binding self-test: corrupted observations must be rejected by TLC
    def corrupt(tr):
        for e in tr:
            if e["oc"] == "ok" and e["op"] in ("find_subsequence", "find_symbol") and e["out"]:
                e["out"][-1] += 1
                return True
        for e in tr:
            if e["oc"] == "ok" and e["p"]["rows"] and e["op"] not in SEARCH_OPS:
                e["p"]["rows"][-1][0] += 1
                return True
        for e in tr:
            if e["op"] in ("find_symbol_first", "find_symbol_last") and e["oc"] == "ok":
                e["out"] += 1
                return True
        return False

    pick = [t for t in traces if t[0]["op"] in SEARCH_OPS][:2] + [t for t in traces if t[0]["op"] not in SEARCH_OPS][:2]
    helpers.binding_selftest(ctx, [[{k: e[k] for k in _KEEP} for e in t] for t in pick], corrupt, max_traces=4)
    # the numeric comparison itself: a perturbed float must be rejected by the rational published by TLC
    if out_ok("seqprob", [1, 3], 1 / 3 + 1e-6) or not out_ok("seqprob", [1, 3], 1 / 3) \
            or out_ok("seqscore", [0, 1], -50.0) or not out_ok("seqscore", [0, 1], "-inf") \
            or out_ok("prob", [[[0, 0]]], [[0.0]]) or not out_ok("odds", [[[4, 1]]], [[2.0]]):
        raise Vacuity("numeric comparison self-test failed")
    # ---- S3b: the repository's own tests ---------------------------------------------------
    rtraces = _record_repo_tests(ctx)
    if rtraces:
        validate_traces(ctx, rtraces, stage="S3-repo-tests")
        ctx.traces_validated += len(rtraces)
        ctx.evaluations += sum(len(t) for t in rtraces)
        ops = {}
        for t in rtraces:
            ops[t[-1]["op"]] = ops.get(t[-1]["op"], 0) + 1
        ctx.cov["repo_test_events_per_op"] = dict(sorted(ops.items()))
        if not ({"find_subsequence", "from_alignment", "consensus"} <= set(ops)):
            raise Vacuity(f"repository tests: expected calls not recorded: {ops}")


def gen_trace(item):
    return gen_search_trace(item) if item["kind"] == "search" else gen_profile_trace(item)


def replay(record):
    """Re-execute one stored mismatch (single call from its abstract pre-state)."""
    if record.get("kind") not in ("case", "step", "event"):
        return {"error": "record kind not replayable", "record": record}
    pre = record.get("pre") or dict(NOPROFILE)
    _obj, obs = run_call(pre, record["op"], record["a"], record.get("rep", 0))
    bad = compare(record["op"], record["expected"], obs)
    return {"call": [record["op"], record["a"]], "pre": pre, "rep": record.get("rep", 0),
            "expected": record["expected"], "observed": obs, "bad": bad, "mismatch": bool(bad)}


MANIFEST = {
    "technique": "TLA+ per-position model of biotite.sequence search functions and SequenceProfile "
                 "(specs/X04/SeqProfileOps.tla) model-checked by TLC; every enumerated call and every transition "
                 "of the profile history machine executed against the real code; recorded random runs and the "
                 "repository's own tests re-computed by TLC; floats compared with exact rationals",
    "level_text": "TLC enumerates find_subsequence / find_symbol / _first / _last on every string of length <=5 "
                  "(thorough 7) over three letters with every query of length <=3 and every relation between the two "
                  "alphabets, SequenceProfile.from_alignment on every alignment of 2 rows x <=3 columns over "
                  "{A,C,T,gap} and 3 rows x <=2 columns over {A,C,gap} (thorough 4 / 3 columns) with all five "
                  "alphabet arguments and mixed row alphabets, every observer / setter / constructor call on all "
                  "one-position count tables with counts 0..2 for six alphabets, and every index form on tables of "
                  "<=3 positions; it proves on that universe that the code-shaped definitions (sliding window over "
                  "codes, bincount, argmax, IUPAC dictionary, running common alphabet) equal the per-position ones "
                  "and that the probability / score helpers are consistent with the counts. Every (call, result) "
                  "pair and every transition of a 3-call history machine is executed against the real code with "
                  "three representations of each alphabet; longer inputs are covered by recorded runs that TLC "
                  "re-computes event by event.",
    "level_note": "Bounded: exhaustive only within the stated bounds; beyond them recorded random runs. "
                  "find_subsequence is judged against its documentation (alphabet direction). Not decided: repr, "
                  "numpy view aliasing between profiles and arrays, out-of-range integer indices, non-integer "
                  "pseudocounts, numerical accuracy of log2 beyond 1e-9, negative counts. Trusted: TLC, the TLA+ "
                  "value parser, the projection through the public attributes.",
}


# --------------------------------------------------------------------------- pytest plugin (recorder)
_rec = {"traces": [], "skipped": {}, "depth": 0, "orig": {}}
_MAX_REC = 400


def _skip(why):
    _rec["skipped"][why] = _rec["skipped"].get(why, 0) + 1


def _abs_seq(s):
    return {"alph": alph_tokens(s.get_alphabet()), "sym": [_tok(x) for x in s.symbols]}


def _tokens_ok(tokens):
    return all(isinstance(t, str) and not t.startswith("?") for t in tokens)


def _abs_aln(aln):
    import numpy as np

    tr = np.asarray(aln.trace)
    seqs = [_abs_seq(s) for s in aln.sequences]
    ok = (all(-1 <= int(v) < len(seqs[r]["sym"]) for row in tr.tolist() for r, v in enumerate(row))
          and all(len(s["sym"]) >= 1 for s in seqs))
    return {"seqs": seqs, "trace": [[int(v) for v in row] for row in tr.tolist()]}, ok


def _rec_event(pre, op, a, call, project_out):
    """Run `call()`, log a two-event trace [construct(pre)] + [the call] (stand-alone)."""
    if len(_rec["traces"]) >= _MAX_REC:
        _skip("cap")
        return call()
    exc, result = None, None
    try:
        result = call()
    except Exception as e:  # noqa: BLE001 - recorded as the outcome, re-raised below
        exc = e
    try:
        ev = {"op": op, "a": a, "oc": "ok" if exc is None else "Rejected", "rep": 0,
              "pre": pre if pre is not None else dict(NOPROFILE)}
        post, out = project_out(result) if exc is None else (pre if op not in MAKER_OPS else None, _DEFAULT_OUT.get(op, []))
        ev["p"] = post if post is not None else dict(NOPROFILE)
        if op in NUMERIC_OPS:
            ev["out"], ev["num"] = [], out
        else:
            ev["out"] = out
        if exc is not None:
            ev["detail"] = f"{type(exc).__name__}: {exc}"[:200]
        tr = []
        if pre is not None:
            tr.append({"op": "construct", "a": [pre["k"], pre["rows"], pre["gaps"], pre["alph"]], "oc": "ok",
                       "p": pre, "out": [], "rep": 0, "pre": dict(NOPROFILE), "synthetic": True})
        tr.append(ev)
        _rec["traces"].append(tr)
    except Exception as e:  # noqa: BLE001 - the recorder must never disturb the tests
        _skip(f"recorder:{type(e).__name__}")
    if exc is not None:
        raise exc
    return result


def _wrap_top(fn):
    """Only top-level calls are recorded (sequence_score calls log_odds_matrix calls ...)."""
    def inner(*args, **kw):
        if _rec["depth"] > 0:
            return fn["orig"](*args, **kw)
        _rec["depth"] += 1
        try:
            return fn["rec"](*args, **kw)
        finally:
            _rec["depth"] -= 1
    return inner


def pytest_configure(config):
    if not os.environ.get("X04_RECORD_FILE"):
        return
    import numbers

    import numpy as np

    import biotite.sequence as bs
    import biotite.sequence.search as srch

    SP = bs.SequenceProfile

    def small_counts(p):
        return all(v >= 0 for r in p["rows"] for v in r) and all(g >= 0 for g in p["gaps"]) and _tokens_ok(p["alph"])

    def rec_search(name):
        orig = getattr(srch, name)

        def rec(sequence, second):
            try:
                S = _abs_seq(sequence)
                a = [S, _abs_seq(second)] if name == "find_subsequence" else [S, _tok(second)]
                ok = _tokens_ok(S["alph"]) and (name != "find_subsequence" or _tokens_ok(a[1]["alph"]))
            except Exception:  # noqa: BLE001
                ok = False
            if not ok:
                _skip(name + ":unprojectable")
                return orig(sequence, second)
            proj = (lambda r: (None, _positions(r))) if name in ("find_subsequence", "find_symbol") else \
                   (lambda r: (None, _position(r)))
            return _rec_event(None, name, a, lambda: orig(sequence, second), proj)
        w = _wrap_top({"orig": orig, "rec": rec})
        setattr(srch, name, w)
        setattr(bs, name, w)

    for nm in SEARCH_OPS:
        rec_search(nm)

    def method(name, op, absargs, proj, static=False):
        orig = SP.__dict__[name]
        of = orig.__func__ if static else orig

        def rec(*args, **kw):
            try:
                if static:
                    pre, a, ok = None, *absargs(*args, **kw)
                else:
                    pre = proj_profile(args[0])
                    a, ok = absargs(*args, **kw)
                    ok = ok and small_counts(pre)
            except Exception:  # noqa: BLE001
                ok = False
            if not ok:
                _skip(op + ":outside-domain")
                return of(*args, **kw)
            self_ = None if static else args[0]
            return _rec_event(pre, op, a, lambda: of(*args, **kw), lambda r: proj(self_, r))
        w = _wrap_top({"orig": of, "rec": rec})
        setattr(SP, name, staticmethod(w) if static else w)

    def a_from(alignment, alphabet=None):
        aln, ok = _abs_aln(alignment)
        oa = [] if alphabet is None else [alph_tokens(alphabet)]
        return [aln, oa], ok and all(_tokens_ok(s["alph"]) for s in aln["seqs"])

    method("from_alignment", "from_alignment", a_from, lambda _s, r: (proj_profile(r), []), static=True)
    method("to_consensus", "consensus", lambda self, as_general=False: ([bool(as_general)], True),
           lambda s, r: (proj_profile(s), proj_seq(r)))

    def pc_ok(pc):
        return isinstance(pc, numbers.Integral)

    method("probability_matrix", "prob", lambda self, pseudocount=0: ([int(pseudocount)], pc_ok(pseudocount)),
           lambda s, r: (proj_profile(s), _matrix(r, s.symbols.shape)))

    def a_odds(self, background_frequencies=None, pseudocount=0):
        return [[], int(pseudocount)], background_frequencies is None and pc_ok(pseudocount)

    method("log_odds_matrix", "odds", a_odds, lambda s, r: (proj_profile(s), _matrix(r, s.symbols.shape)))

    def a_seqprob(self, sequence, pseudocount=0):
        S, p = _abs_seq(sequence), proj_profile(self)
        ok = (pc_ok(pseudocount) and p["alph"][:len(S["alph"])] == S["alph"]
              and _fits(p["rows"], p["k"], max(int(pseudocount), 0), [], True))
        return [S, int(pseudocount)], ok

    method("sequence_probability", "seqprob", a_seqprob, lambda s, r: (proj_profile(s), _f(r)))

    def a_seqscore(self, sequence, background_frequencies=None, pseudocount=0):
        S, p = _abs_seq(sequence), proj_profile(self)
        ok = (background_frequencies is None and pc_ok(pseudocount) and p["alph"][:len(S["alph"])] == S["alph"]
              and _fits(p["rows"], p["k"], max(int(pseudocount), 0), []))
        return [S, [], int(pseudocount)], ok

    method("sequence_score", "seqscore", a_seqscore, lambda s, r: (proj_profile(s), _f(r)))

    def a_getitem(self, index):
        n = len(self.symbols)
        if isinstance(index, numbers.Integral):
            return [["int", [int(index)]]], -n <= int(index) < n
        if isinstance(index, slice):
            parts = [index.start, index.stop, index.step]
            if any(v is not None and not isinstance(v, numbers.Integral) for v in parts):
                return None, False
            return [["slice", [[] if v is None else [int(v)] for v in parts]]], True
        arr = np.asarray(index)
        if arr.ndim == 1 and arr.dtype == bool:
            return [["mask", [bool(b) for b in arr.tolist()]]], len(arr) > 0 or n == 0
        if arr.ndim == 1 and arr.dtype.kind in "iu":
            return [["arr", [int(v) for v in arr.tolist()]]], True
        return None, False

    method("__getitem__", "getitem", a_getitem, lambda _s, r: (proj_profile(r), []))


def pytest_sessionfinish(session, exitstatus):
    path = os.environ.get("X04_RECORD_FILE")
    if not path:
        return
    with open(path, "w") as f:
        json.dump({"traces": _rec["traces"], "skipped": _rec["skipped"]}, f)
