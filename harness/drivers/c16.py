"""C16 -- superimposition minimises RMSD with a proper rotation.

DECIDED by this check (exact integer-lattice restriction, specs/C16 + specs/lib/Lattice.tla):
  * lattice witnesses: for every enumerated fixed/mobile pair TLC computes the best of the 24
    proper lattice placements, an exact rational upper bound W of the minimal mean squared
    deviation (W = 0 for proper rigid copies and for mirrored copies of sets lying in a
    lattice mirror plane, W > 0 for mirrored rank-3 sets); the real superimpose must not be
    worse than W on the masked atoms;
  * proper rotation: returned matrices are orthonormal with determinant +1, also for single
    atoms, collinear, planar and mirrored inputs;
  * transform consistency: fitted = transformation.apply(mobile) = as_matrix() applied;
    AffineTransformation.apply / as_matrix equal TLC's exact affine algebra model by model;
  * broadcasting case analysis: every array/stack combination of fixed and mobile gives the
    number of transformations and the fitted shape the specification derives; refusals are
    refusals;
  * outlier / homolog variants (spec-generated inputs and recorded executions): the anchor
    path of superimpose_homologs (alignment-free fallback when no residue pair scores
    positively, identity pairing for identical sequences, refusal of the fallback for unequal
    backbone counts), anchors well-formed, at least min_anchors of them, all of them when
    outlier removal is switched off, reported fit not worse than W on exactly those anchors;
  * forms of the coordinates: every fit / affine / history case is handed over in one of 12
    forms (float16/32/64 and int32/int64 ndarrays, non-contiguous and Fortran-ordered views,
    instances of ndarray subclasses - a read-only numpy.memmap, a user subclass -,
    AtomArray / AtomArrayStack), fixed structures also displaced by half ticks; the expected
    values do not depend on the form;
  * motions off the lattice (family "far"): rotations with rational entries from integer
    quaternions (a quarter turn down to 0.01 degrees), structures near and far (1200 A) from the
    origin, tiny / ordinary translations, tiny / large noise; the generating motion's inverse is
    a WITNESS placement whose exact mean squared deviation TLC knows: the fit must not be worse
    than the witness by more than (8 + fitted atoms) float32 ulps of the coordinate magnitude
    (an exact rigid copy fits to zero within that rounding allowance);
  * forms of the selection: the atom selection is a set of positions handed over as a boolean
    ndarray / list of bools / integer index array (int64, int32, descending view) / list of ints -
    also selections without the first atom; expected values do not depend on the form;
  * constructor dtypes: the rotation array of a hand-built AffineTransformation has its own dtype
    (integer rotation with half-tick translations);
  * large structures (family "big"): 24 ... 10,000 atoms (sizes across 4096 / 8192), run-length
    encoded blocks of small lattice sets, whole blocks displaced, selections of whole blocks; the
    placement "g^-1, centroids aligned" is a witness with an exact mean squared deviation;
  * histories on one transformation object: all sequences of as_matrix() / apply() / edits of
    returned arrays / edits of the attributes up to a bounded length - every accessor result is
    a function of the current attributes only.
NOT DECIDED: that no rigid placement has a lower RMSD than the returned one for noisy or
non-congruent inputs (needs singular values); only the witnesses (W, the generating motion's
inverse) bound the optimum from above.
"""

from __future__ import annotations

import math
import os
import random

PROPERTY = "C16"

MANIFEST = {
    "technique": "TLA+ specification of AffineTransformation (algebra and bounded histories on one object) / superimpose broadcasting / the anchor paths of the homolog variant and exact lattice witnesses for the optimal RMSD (specs/C16, specs/lib/Lattice.tla) model-checked by TLC; TLC's expected outcomes, shapes, affine images, per-step history results and witness bounds replayed against the real functions in every coordinate form; spec-generated and recorded executions (noise, outliers, homologs) judged by TLC",
    "level_text": "TLC enumerates 12 lattice point sets of every rank (single atom, coincident atoms, collinear, planar, mirror-symmetric and chiral rank-3 sets, 5-6 atom chains) x all 48 elements of the cube group (24 rigid copies, 24 mirrored copies) x translations x atom masks x an integer perturbation x 11 array/stack combinations of fixed and mobile, and integer affine transformations for 1-3 models, and decides: the affine algebra (apply = 4x4 matrix form, model-wise action, count refusals), the broadcasting case analysis, and exact rational witness bounds W for the minimal mean squared deviation (0 for rigid copies and lattice-mirror-plane sets, > 0 for mirrored rank-3 sets). Every case is executed against superimpose / AffineTransformation: proper rotation (orthonormal, det +1), RMSD on the masked atoms <= sqrt(W), whole-structure coincidence where the fit is unique, fitted = apply(mobile) = as_matrix form, shapes and refusals. Every case names the FORM of the coordinates (float16/32/64, int32/int64 ndarrays, non-contiguous and Fortran-ordered views, instances of ndarray subclasses (read-only numpy.memmap, user subclass), AtomArray/AtomArrayStack; fixed structures also displaced by half ticks; half-tick translations for the affine cases): expected values are form-independent. Motions OFF the lattice (integer-quaternion rotations from a quarter turn down to 0.01 degrees x centres from the origin to 1200 A away x zero / tiny / ordinary translations x no / tiny / large noise x masks x stacks): the generating motion's inverse is a witness placement with an exact mean squared deviation (S1: it is the inverse - R^T R = I as an integer identity); the real fit must not be worse than the witness by more than (8 + fitted atoms) float32 ulps of the coordinate magnitude, and the witness applied with the library's apply() must reproduce its exact deviation. All histories of as_matrix / apply / caller edits of returned arrays / attribute edits up to length 4 (5 thorough) on one transformation object: every accessor result is a function of the current attributes. Spec-generated inputs of the outlier / homolog variants (every single displaced residue, residue patterns without a positively scoring pair = alignment-free fallback, identical sequences, unequal counts, max_iterations = 1) and recorded executions with noise, outliers and lattice 'proteins' (synthetic CCD) are judged by TLC: anchor path, anchors well-formed, >= min_anchors, fit on the reported anchors <= W.",
    "level_note": "DECIDED: lattice witnesses (necessary conditions of optimality), proper rotation, transform consistency, broadcast case analysis, anchor well-formedness. NOT DECIDED: optimality of the fit on noisy / non-congruent inputs below the witness bound W (the optimum needs singular values, which integer arithmetic cannot express) and any rotation outside the cube group; float32 rounding is covered by tolerances (1e-3 on RMSD, 1e-4 on coordinates, 1e-5 on orthonormality) on the lattice and by an allowance of (8 + fitted atoms) ulps of the coordinate magnitude for the motions off the lattice. The combination fixed = stack of m>1 models with a single mobile model is 'Unspecified' (the code refuses it; the documentation neither promises nor excludes it). Trusted: TLC, the TLA+ value parser, numpy.",
}

CCD = "/verif/fixtures/ccd/components_synth.bcif"
KK = 10000


def _np():
    import numpy as np

    return np


def warmup():
    import biotite.structure  # noqa: F401
    import biotite.structure.info as info

    info.set_ccd_path(CCD)


class Rec:
    def __init__(self, case, idx):
        self.case = case
        self.idx = idx
        self.mm = []
        self.calls = 0
        self.events = []
        self.cov = {}

    def bad(self, call, expected, observed, **kw):
        m = {"kind": "case", "case_kind": self.case[0], "case": self.case[1], "variant": self.idx,
             "call": call, "expected": expected, "observed": observed}
        m.update(kw)
        self.mm.append(m)


FORMS = ("f32", "f64", "f16", "i32", "i64", "atoms", "f32s", "f64F", "i64s", "f32m", "f64u", "i32u")   # RigidFitOps!Forms
INT_FORMS = ("i32", "i64", "i64s", "i32u")
SUBCLASS_FORMS = ("f32m", "f64u", "i32u")
FINE_FORMS = tuple(f for f in FORMS if f not in INT_FORMS and f != "f16")      # RigidFitOps!FineForms
_DT = {"f32": "float32", "f64": "float64", "f16": "float16", "i32": "int32", "i64": "int64",
       "f32s": "float32", "f64F": "float64", "i64s": "int64", "f32m": "float32", "f64u": "float64", "i32u": "int32"}
_SUB = None


def _user_subclass():
    """A trivial user subclass of ndarray (coordinates handed over as arr.view(Coordinates))."""
    global _SUB
    if _SUB is None:
        np = _np()

        class Coordinates(np.ndarray):
            pass

        _SUB = Coordinates
    return _SUB


def shaped(models, depth, form, half=0):
    """Spec models (list of point lists) -> the coordinates in the FORM the case names
    (RigidFitOps: forms of the coordinates): array (depth 0) or stack of `depth` models as an
    ndarray of the given dtype / memory layout, or AtomArray / AtomArrayStack.  half = 1: every
    coordinate displaced by 1/2 (Dom_Form: never with an integer form)."""
    np = _np()

    vals = np.array(models[0] if depth == 0 else models, dtype=np.float64)
    if half:
        vals = vals + 0.5
    return shaped_vals(vals, depth, form)


def shaped_vals(vals, depth, form):
    """float64 coordinates of shape (n,3) (depth 0) / (depth,n,3) -> the FORM."""
    np = _np()
    import biotite.structure as struc

    n = vals.shape[-2]
    if form == "atoms":
        a = struc.AtomArray(n) if depth == 0 else struc.AtomArrayStack(depth, n)
        a.coord = vals.astype(np.float32)
        return a
    dt = np.dtype(_DT[form])
    if form in INT_FORMS and not np.array_equal(vals, np.round(vals)):
        raise RuntimeError(f"Dom_Form violated by the case: {form} cannot hold {vals.tolist()}")
    if form == "f32s":       # every second row of a larger buffer: non-contiguous view
        buf = np.full(vals.shape[:-2] + (2 * n, 3), 777, dtype=dt)
        v = buf[..., ::2, :]
        v[...] = vals
        return v
    if form == "i64s":       # stride in the last axis
        buf = np.full(vals.shape[:-1] + (6,), 777, dtype=dt)
        v = buf[..., ::2]
        v[...] = vals
        return v
    if form == "f64F":
        return np.asfortranarray(vals.astype(dt))
    if form == "f32m":       # numpy.memmap (an ndarray subclass), read-only, e.g. a frame of a trajectory file
        import tempfile

        with tempfile.TemporaryFile() as f:
            f.write(np.ascontiguousarray(vals.astype(dt)).tobytes())
            f.flush()
            return np.memmap(f, dtype=dt, mode="r", shape=vals.shape)
    if form in ("f64u", "i32u"):     # a user subclass of ndarray
        return vals.astype(dt).view(_user_subclass())
    return vals.astype(dt)


MASK_FORMS = ("bool", "idx64", "blist", "idx32", "idxrev", "ilist")     # RigidFitOps!MaskForms
INDEX_FORMS = ("idx64", "idx32", "idxrev", "ilist")
RFORMS = ("i64", "f32", "i32", "f64")                                    # RigidFitOps!RForms


def mask_arg(mask, kf):
    """The selection (spec: a sequence of BOOLEANs = a set of positions) in the FORM the case names
    (RigidFitOps: forms of the selection): a NumPy index along the atom axis."""
    np = _np()
    m = [bool(x) for x in mask]
    if kf == "bool":
        return np.array(m, dtype=bool)
    if kf == "blist":
        return m
    idx = [i for i, x in enumerate(m) if x]
    if kf == "idx64":
        return np.array(idx, dtype=np.int64)
    if kf == "idx32":
        return np.array(idx, dtype=np.int32)
    if kf == "idxrev":
        return np.array(idx, dtype=np.int64)[::-1]
    if kf == "ilist":
        return idx
    raise RuntimeError(f"unknown form of the selection: {kf}")


def scribble(obj):
    """The caller overwrites an array it got from an accessor, in place."""
    np = _np()
    arr = obj if isinstance(obj, np.ndarray) else obj.coord
    np.add(arr, 100, out=arr, casting="unsafe")


def coords(x):
    """The coordinates a caller holds: an ndarray (of any subclass) IS the coordinates ("only
    coordinates are returned, if coordinates were given"), an atom container has them in .coord."""
    np = _np()
    return np.array(x if isinstance(x, np.ndarray) else x.coord, dtype=float)   # always a plain copy


def transform_sanity(tr, mobile, fitted):
    """Projection of a returned transformation: list of problems (empty = sane)."""
    np = _np()
    probs = []
    R = np.asarray(tr.rotation, dtype=float)
    if R.ndim != 3 or R.shape[1:] != (3, 3):
        return [f"rotation shape {R.shape}"]
    for k in range(R.shape[0]):
        if not np.allclose(R[k] @ R[k].T, np.eye(3), atol=1e-5):
            probs.append(f"rotation {k} not orthonormal")
        d = float(np.linalg.det(R[k]))
        if abs(d - 1.0) > 1e-5:
            probs.append(f"rotation {k} has determinant {d:.6f}")
    fit = coords(fitted)
    mob = coords(mobile)
    again = coords(tr.apply(mobile))
    if again.shape != fit.shape or not np.allclose(again, fit, atol=1e-4):
        probs.append("transformation.apply(mobile) differs from the fitted coordinates")
    if fit.shape != mob.shape:
        probs.append(f"fitted shape {fit.shape} differs from mobile shape {mob.shape}")
    M4 = np.array(tr.as_matrix(), dtype=float)     # a copy
    m3 = mob if mob.ndim == 3 else mob[np.newaxis]
    f3 = fit if fit.ndim == 3 else fit[np.newaxis]
    if M4.shape != (R.shape[0], 4, 4):
        probs.append(f"as_matrix shape {M4.shape}")
    elif m3.shape[0] == M4.shape[0]:
        for k in range(M4.shape[0]):
            h = np.concatenate([m3[k], np.ones((m3.shape[1], 1))], axis=1)
            out = (M4[k] @ h.T).T
            if not np.allclose(out[:, :3], f3[k], atol=1e-4) or not np.allclose(out[:, 3], 1.0):
                probs.append(f"as_matrix()[{k}] applied to (x,1) differs from the fitted coordinates")
    # no history on the object: the caller edits the arrays it got, the accessors answer as before
    first = tr.as_matrix()
    scribble(first)
    scribble(tr.apply(mobile))
    if not np.array_equal(coords(mobile), mob):
        probs.append("apply() result shares memory with the input coordinates")
    M4b = np.array(tr.as_matrix(), dtype=float)
    if M4b.shape != M4.shape or not np.allclose(M4b, M4, atol=1e-6):
        probs.append("as_matrix() differs after the caller edited a matrix returned earlier")
    again2 = coords(tr.apply(mobile))
    if again2.shape != fit.shape or not np.allclose(again2, fit, atol=1e-4):
        probs.append("apply(mobile) differs after the caller edited an earlier result")
    return probs


# --------------------------------------------------------------------------- S2: "fit"
def do_fit(R, pay, out):
    np = _np()
    import biotite.structure as struc

    P, gi, ti, mask, noise, fd, md, ff, mf, hs, kf = pay
    oc, nT, fdepth, per, F, M, maskidx, rk = out
    fixed = shaped(F, fd, ff, half=hs)
    mobile = shaped(M, md, mf)
    kw = {}
    if mask:
        kw["atom_mask"] = mask_arg(mask[0], kf)
        if sorted(np.arange(len(P))[kw["atom_mask"]].tolist()) != list(maskidx):
            raise RuntimeError(f"the selection {kf} does not denote the specification's set {maskidx}")
    R.calls += 1
    try:
        fitted, tr = struc.superimpose(fixed, mobile, **kw)
        real = "ok"
    except Exception as e:
        real, err = "Rejected", repr(e)
    if oc == "Unspecified":
        if real == "Rejected":
            return
        oc = "ok"   # accepted if it is a model-wise result: judged below
    if real != oc:
        R.bad("superimpose", oc, real, detail=(err if real == "Rejected" else "returned a result"))
        return
    if oc != "ok":
        return
    fit = coords(fitted)
    exp_shape = (len(P), 3) if fdepth == 0 and nT == 1 else None
    if tr.rotation.shape[0] != nT:
        R.bad("superimpose", f"{nT} transformations", f"{tr.rotation.shape[0]} transformations")
        return
    probs = transform_sanity(tr, mobile, fitted)
    if probs:
        R.bad("superimpose", "proper rotation; fitted = apply(mobile) = as_matrix form", probs)
        return
    if exp_shape and fit.shape != exp_shape:
        R.bad("superimpose", list(exp_shape), list(fit.shape), what="fitted shape")
        return
    f3 = fit if fit.ndim == 3 else fit[np.newaxis]
    if f3.shape[0] != nT:
        # fixed stack, single mobile ("Unspecified" accepted as model-wise): one fitted model per transformation
        R.bad("superimpose", f"{nT} fitted models", list(fit.shape))
        return
    Fm = np.array(F, dtype=float) + 0.5 * hs
    nf = Fm.shape[0]
    idx = np.array(maskidx, dtype=int)
    for k in range(nT):
        wnum, wden, whole = per[k]
        ref = Fm[k if nf > 1 else 0]
        dev = f3[k] - ref
        msd = float(np.mean(np.sum(dev[idx] ** 2, axis=-1)))
        bound = wnum / wden
        if wnum == 0:
            if math.sqrt(msd) > 1e-3:
                R.bad("superimpose", {"rmsd_on_masked_atoms": 0.0, "model": k}, math.sqrt(msd), rank=rk)
        elif msd > bound * (1 + 1e-4) + 1e-6:
            R.bad("superimpose", {"msd_on_masked_atoms<=": [wnum, wden], "model": k}, msd, rank=rk)
        if whole and float(np.abs(dev).max()) > 1e-3:
            R.bad("superimpose", {"whole model coincides with fixed": True, "model": k}, float(np.abs(dev).max()), rank=rk)
        # rmsd() agrees with the deviation measured here (binding of compare.rmsd)
        r = float(np.atleast_1d(struc.rmsd(ref[idx], f3[k][idx]))[0])
        if abs(r * r - msd) > 1e-5 + 1e-4 * msd:
            R.bad("rmsd", math.sqrt(msd), r)


# --------------------------------------------------------------------------- S2: "affine"
def _transformation(cs, rots, ts, den, tform, single, rform=None):
    """AffineTransformation(cs / den, rots, ts / den): translation arrays of dtype tform, rotation
    array of dtype rform (a lattice rotation is an integer matrix)."""
    np = _np()
    import biotite.structure as struc

    dt = np.dtype(_DT[tform])
    if tform in INT_FORMS and den != 1:
        raise RuntimeError("Dom violated by the case: integer constructor arrays with half ticks")
    c = (np.array(cs[0] if single else cs, dtype=float) / den).astype(dt)
    rdt = np.dtype(_DT[rform or tform])
    rot = np.array(rots[0] if single else rots, dtype=rdt)
    t = (np.array(ts[0] if single else ts, dtype=float) / den).astype(dt)
    return struc.AffineTransformation(c, rot, t), dt, rdt


def do_affine(R, pay, out):
    np = _np()

    cs, gis, ts, X, depth, form, den, tform, rform = pay
    oc, res, mats, mods, rots = out
    single = len(cs) == 1 and R.idx % 2 == 0     # documented: shapes (3,) / (3,3) are expanded
    tr, _dt, _rdt = _transformation(cs, rots, ts, den, tform, single, rform)
    x = shaped(mods, depth, form)
    R.calls += 2
    try:
        got = coords(tr.apply(x))
        real = "ok"
    except (IndexError, ValueError) as e:
        real, got = "Rejected", repr(e)
    if real != oc:
        R.bad("AffineTransformation.apply", oc, real, detail=str(got)[:200])
    elif oc == "ok":
        e = np.array(res[0] if depth == 0 else res, dtype=float) / den
        if got.shape != e.shape or not np.allclose(got, e, atol=1e-4):
            R.bad("AffineTransformation.apply", e.tolist(), got.tolist())
    M4 = np.array(tr.as_matrix(), dtype=float)
    e4 = np.array(mats, dtype=float) / den
    if M4.shape != e4.shape or not np.allclose(M4, e4, atol=1e-5):
        R.bad("AffineTransformation.as_matrix", e4.tolist(), M4.tolist())


# --------------------------------------------------------------------------- S2: "hist"
def do_hist(R, pay, out):
    """A history on ONE transformation object; after every accessor the result is compared with
    the spec's value for the current attributes."""
    np = _np()

    cs, gis, ts, X, depth, ops, form, den, tform, rform = pay
    steps, mods, rots = out
    tr, dt, rdt = _transformation(cs, rots, ts, den, tform, False, rform)
    x = shaped(mods, depth, form)
    x0 = coords(x)
    last = None
    for i, st in enumerate(steps):
        op = st["op"]
        if op == "mat":
            R.calls += 1
            last = tr.as_matrix()
            got, e = np.array(last, dtype=float), np.array(st["res"], dtype=float) / den
            if got.shape != e.shape or not np.allclose(got, e, atol=1e-5):
                R.bad("AffineTransformation.as_matrix", e.tolist(), got.tolist(), step=i, history=ops[:i + 1])
                return
        elif op == "app":
            R.calls += 1
            last = tr.apply(x)
            got = coords(last)
            e = np.array(st["res"][0] if depth == 0 else st["res"], dtype=float) / den
            if got.shape != e.shape or not np.allclose(got, e, atol=1e-4):
                R.bad("AffineTransformation.apply", e.tolist(), got.tolist(), step=i, history=ops[:i + 1])
                return
        elif op == "scr":
            if last is not None:
                scribble(last)
        elif op == "setR":       # attribute re-assigned
            tr.rotation = np.array(st["R"], dtype=rdt)
        elif op == "sett":
            tr.target_translation = (np.array(st["t"], dtype=float) / den).astype(dt)
        elif op == "incc":       # attribute edited in place
            tr.center_translation[0] = np.array(st["c"][0], dtype=float) / den
        else:
            raise RuntimeError(f"unknown history operation {op}")
        if not np.array_equal(coords(x), x0):
            R.bad("AffineTransformation.apply", "input coordinates unchanged", "changed", step=i, history=ops[:i + 1])
            return


# --------------------------------------------------------------------------- S2: "far"
ULP_UNITS = 16      # RigidFitOps!UlpUnits
QCAP = 1 << 30


def ulp_q(r, ue):
    """An RMSD in units of 1/16 of the float32 spacing 2^(ue-23) (floor, capped)."""
    return int(min(QCAP, math.floor(r / 2.0 ** (ue - 23) * ULP_UNITS)))


def masked_rmsd(a, b, idx):
    np = _np()
    d = (a - b)[idx]
    return float(np.sqrt(np.mean(np.sum(d * d, axis=-1))))


def tiny_relative_motion(F, M, idx):
    """Coverage class only: every coordinate of the (fitted) mobile atoms lies within 1e-5 of the
    fixed one RELATIVE to its magnitude - a 'practically unmoved' structure far from the origin."""
    np = _np()
    return bool(np.all(np.abs(M[idx] - F[idx]) <= 1e-5 * np.abs(F[idx])))


def do_far(R, pay, out):
    """Motions off the lattice: the generating motion's inverse (given by the specification as a
    rational AffineTransformation) is a WITNESS placement; the fit must not be worse than it."""
    np = _np()
    from fractions import Fraction as Fr

    import biotite.structure as struc

    P, C, qs, t, nz, mask, fd, md, ff, mf, kf = pay
    nT, fdepth, F, off, Ds, wit, maskidx, W, allow, ue = out
    n = len(F)
    M = [[[float(Fr(F[k][i]) + Fr(off[j][k][i], Ds[j]) + Fr(t[i], t[3]) + (Fr(nz[i], nz[3]) if k == 0 else 0))
           for i in range(3)] for k in range(n)] for j in range(len(qs))]
    Fv = np.array(F, dtype=np.float64)
    Mv = np.array(M, dtype=np.float64)
    fixed = shaped_vals(Fv if fd == 0 else Fv[np.newaxis], fd, ff)
    mobile = shaped_vals(Mv[0] if md == 0 else Mv, md, mf)
    kw = {"atom_mask": mask_arg(mask[0], kf)} if mask else {}
    R.calls += 1
    fitted, tr = struc.superimpose(fixed, mobile, **kw)
    if tr.rotation.shape[0] != nT:
        R.bad("superimpose", f"{nT} transformations", f"{tr.rotation.shape[0]} transformations")
        return
    probs = transform_sanity(tr, mobile, fitted)
    if probs:
        R.bad("superimpose", "proper rotation; fitted = apply(mobile) = as_matrix form", probs)
        return
    fit = coords(fitted)
    if fit.shape != ((n, 3) if md == 0 else (md, n, 3)):
        R.bad("superimpose", [md, n, 3], list(fit.shape), what="fitted shape")
        return
    f3 = fit if fit.ndim == 3 else fit[np.newaxis]
    idx = np.array(maskidx, dtype=int)
    ulp = 2.0 ** (ue - 23)
    ref = coords(fixed).reshape(-1, n, 3)[0]        # the coordinates the library was given
    mob3 = coords(mobile).reshape(-1, n, 3)
    wr = math.sqrt(W[0] / W[1])
    # the witness placement, through the library's own apply()
    cw = np.array([[float(Fr(w["ct"][i], w["ct"][3])) for i in range(3)] for w in wit])
    Rw = np.array([[[(1 if i == k else 0) + w["Et"][i][k] / w["D"] for k in range(3)] for i in range(3)] for w in wit])
    tw = np.array([w["C"] for w in wit], dtype=float)
    R.calls += 1
    placed = coords(struc.AffineTransformation(cw, Rw, tw).apply(mobile)).reshape(-1, n, 3)
    for k in range(nT):
        rf = masked_rmsd(f3[k], ref, idx)
        rw = masked_rmsd(placed[k], ref, idx)
        before = masked_rmsd(mob3[k] - mob3[k][idx].mean(axis=0), ref - ref[idx].mean(axis=0), idx)
        if before > allow * ulp and tiny_relative_motion(ref, mob3[k], idx):
            R.cov["far_tiny_relative_motion_above_rounding"] = R.cov.get("far_tiny_relative_motion_above_rounding", 0) + 1
        if abs(rw - wr) > allow * ulp:
            R.bad("AffineTransformation.apply", {"witness_rmsd": [W[0], W[1]], "allow_ulps": allow, "ulp_exp": ue, "model": k},
                  {"rmsd": rw, "ulps_off": abs(rw - wr) / ulp})
        if rf > wr + allow * ulp:
            R.bad("superimpose", {"rmsd_on_masked_atoms<=witness": [W[0], W[1]], "allow_ulps": allow, "ulp_exp": ue, "model": k},
                  {"rmsd": rf, "ulps_above_witness": (rf - wr) / ulp, "rmsd_before_fit_ulps": before / ulp})
        r = float(np.atleast_1d(struc.rmsd(ref[idx], f3[k][idx]))[0])
        if abs(r - rf) > 1e-4 * rf + 0.5 * ulp:
            R.bad("rmsd", rf, r)


# --------------------------------------------------------------------------- S2: "big"
def do_big(R, pay, out):
    """Large structures (run-length encoded by the specification): the fit must not be worse than
    the witness placement 'g^-1, centroids aligned' whose exact mean squared deviation TLC gives."""
    np = _np()
    import biotite.structure as struc

    blocks, gi, ti, fd, md, ff, mf, sel, kf = pay
    nT, fdepth, FB, MB, counts, n, W, selb, nsel = out

    def tile(cycles):
        return np.concatenate([np.array(cyc, dtype=np.float64)[np.arange(m) % len(cyc)] for cyc, m in zip(cycles, counts)])

    Fv = tile(FB)
    Mv = np.array([tile(mb) for mb in MB])
    if Fv.shape != (n, 3) or Mv.shape[1:] != (n, 3):
        raise RuntimeError(f"expanded structure has shape {Fv.shape}, the specification says {n} atoms")
    fixed = shaped_vals(Fv if fd == 0 else Fv[np.newaxis], fd, ff)
    mobile = shaped_vals(Mv[0] if md == 0 else Mv, md, mf)
    flags = np.repeat(np.array(selb, dtype=bool), counts)         # the selection, run-length encoded like the atoms
    if int(flags.sum()) != nsel:
        raise RuntimeError(f"expanded selection has {int(flags.sum())} atoms, the specification says {nsel}")
    kw = {"atom_mask": mask_arg(flags.tolist(), kf)} if sel else {}
    R.calls += 1
    fitted, tr = struc.superimpose(fixed, mobile, **kw)
    if tr.rotation.shape[0] != nT:
        R.bad("superimpose", f"{nT} transformations", f"{tr.rotation.shape[0]} transformations", atoms=n)
        return
    probs = transform_sanity(tr, mobile, fitted)
    if probs:
        R.bad("superimpose", "proper rotation; fitted = apply(mobile) = as_matrix form", probs, atoms=n)
        return
    fit = coords(fitted)
    if fit.shape != ((n, 3) if md == 0 else (md, n, 3)):
        R.bad("superimpose", [md, n, 3], list(fit.shape), what="fitted shape")
        return
    f3 = fit.reshape(-1, n, 3)
    for k in range(nT):
        msd = float(np.mean(np.sum((f3[k] - Fv)[flags] ** 2, axis=-1)))
        if W[0] == 0:
            if math.sqrt(msd) > 1e-3:
                R.bad("superimpose", {"rmsd_on_selected_atoms": 0.0, "model": k, "atoms": n, "selected": nsel}, math.sqrt(msd))
        elif msd > W[0] / W[1] * (1 + 1e-4) + 1e-6:
            R.bad("superimpose", {"msd_on_selected_atoms<=witness": [W[0], W[1]], "model": k, "atoms": n, "selected": nsel}, msd)
        r = float(np.atleast_1d(struc.rmsd(Fv[flags], f3[k][flags]))[0])
        if abs(r * r - msd) > 1e-5 + 1e-4 * msd:
            R.bad("rmsd", math.sqrt(msd), r, atoms=n)


# --------------------------------------------------------------------------- S2: "anch"
_POS = None


def _pos_pairs(sF, sM):
    """Number of residue pairs with a positive score in the real default matrix (binding of PosScore)."""
    global _POS
    if _POS is None:
        from biotite.sequence import ProteinSequence
        from biotite.sequence.align.matrix import SubstitutionMatrix

        m = SubstitutionMatrix.std_protein_matrix()
        one = {r: ProteinSequence.convert_letter_3to1(r) for r in ("ALA", "GLY", "SER")}
        _POS = {(a, b): m.get_score(one[a], one[b]) > 0 for a in one for b in one}
    return sum(1 for a in sF for b in sM if _POS[(a, b)])


def q_of(msd):
    return int(math.floor(msd * KK + 1e-9))


def run_outliers(F, M, min_anchors, maxit, form, extra=None):
    """superimpose_without_outliers on lattice points -> recorded event."""
    np = _np()
    import biotite.structure as struc

    kw = {"min_anchors": min_anchors}
    if maxit != 10:
        kw["max_iterations"] = maxit
    fixed, mobile = shaped([F], 0, form), shaped([M], 0, form)
    ev = {"op": "outliers", "F": F, "M": M, "min_anchors": min_anchors, "maxit": maxit, "form": form}
    ev.update(extra or {})
    try:
        fitted, tr, anch = struc.superimpose_without_outliers(fixed, mobile, **kw)
    except Exception as e:
        if not _from_biotite(e):
            raise
        ev.update(anchors=[], rmsd2q=0, sane=False, problems=[repr(e)])
        return ev
    probs = transform_sanity(tr, mobile, fitted)
    anch = [int(a) for a in anch]
    msd = float(np.mean(np.sum((coords(fitted) - np.array(F, dtype=float))[anch] ** 2, axis=-1))) if anch else 0.0
    ev.update(anchors=anch, rmsd2q=q_of(msd), sane=not probs, problems=probs)
    return ev


def run_homologs(sF, F, sM, M, min_anchors, maxit, extra=None):
    """superimpose_homologs on lattice 'proteins' -> recorded event (oc "Rejected" = the documented
    ValueError refusals)."""
    np = _np()
    import biotite.structure as struc

    kw = {"min_anchors": min_anchors}
    if maxit != 10:
        kw["max_iterations"] = maxit
    fx = _protein(sF, F)
    mo = _protein(sM, M, chain="B")
    ev = {"op": "homologs", "F": F, "M": M, "sF": sF, "sM": sM, "min_anchors": min_anchors, "maxit": maxit}
    ev.update(extra or {})
    try:
        fitted, tr, fi, mi = struc.superimpose_homologs(fx, mo, **kw)
    except ValueError as e:
        ev.update(oc="Rejected", fa=[], ma=[], rmsd2q=0, sane=True, problems=[repr(e)])
        return ev
    except Exception as e:     # any other exception on well-formed input is a failure of the call
        if not _from_biotite(e):
            raise
        ev.update(oc="ok", fa=[], ma=[], rmsd2q=0, sane=False, problems=[repr(e)])
        return ev
    probs = transform_sanity(tr, mo, fitted)
    if any(fx.atom_name[i] != "CA" for i in fi) or any(mo.atom_name[i] != "CA" for i in mi):
        probs.append("anchor is not a CA atom")
    fa = [int(i) // 3 + 1 for i in fi]
    mb = [int(i) // 3 + 1 for i in mi]
    if len(fi) == len(mi) and len(fi):
        dev = fitted.coord[mi].astype(float) - fx.coord[fi].astype(float)
        msd = float(np.mean(np.sum(dev ** 2, axis=-1)))
    else:
        msd = 0.0
    ev.update(oc="ok", fa=fa, ma=mb, rmsd2q=q_of(msd), sane=not probs, problems=probs)
    return ev


def do_anch(R, pay, out):
    """Spec-generated inputs of the outlier / homolog variants.  Compared here: the anchor path
    (refusal, pairing by position, no removal); the recorded event goes to Trace.tla, which
    judges the fit on exactly the reported anchors."""
    op, sF, sM, P, gi, ti, outl, minA, maxit, form = pay
    path, F, M, npos, allanch, moved = out
    R.calls += 1
    if op == "outliers":
        ev = run_outliers(F, M, minA, maxit, form, {"path": path, "moved": moved})
        if ev["sane"] and allanch and ev["anchors"] != list(range(len(F))):
            R.bad("superimpose_without_outliers", {"anchors": "all (max_iterations=1: no outlier removal)"}, ev["anchors"])
    else:
        if _pos_pairs(sF, sM) != npos:
            raise RuntimeError(f"PosScore of the specification is not the sign of the default matrix: {sF} {sM} {npos}")
        ev = run_homologs(sF, F, sM, M, minA, maxit, {"path": path, "moved": moved})
        if path == "Rejected" and ev["oc"] != "Rejected":
            R.bad("superimpose_homologs", "Rejected", "returned a result", anchors=[ev["fa"], ev["ma"]])
        elif path in ("fallback", "identity"):
            if ev["oc"] != "ok":
                R.bad("superimpose_homologs", {"path": path}, "Rejected", detail=ev["problems"])
            elif ev["sane"] and ev["fa"] != ev["ma"]:
                R.bad("superimpose_homologs", {"path": path, "anchors": "paired by position"}, [ev["fa"], ev["ma"]])
            elif ev["sane"] and allanch and ev["fa"] != list(range(1, len(F) + 1)):
                R.bad("superimpose_homologs", {"path": path, "anchors": "all (max_iterations=1)"}, ev["fa"])
    R.events.append(ev)


DO = {"fit": do_fit, "affine": do_affine, "hist": do_hist, "anch": do_anch, "far": do_far, "big": do_big}


def exec_group(item):
    import json
    import warnings

    from harness.tlabind.pool import progress

    warnings.simplefilter("ignore")
    with open(item["file"]) as f:
        states = json.load(f)
    mism, calls, events, cov = [], 0, [], {}
    for k, (case, out) in enumerate(states):
        R = Rec(case, item["lo"] + k)
        progress({"case": case, "variant": R.idx})
        try:
            DO[case[0]](R, case[1], out[0])
        except Exception as e:      # a public call raised on a well-formed input
            if not _from_biotite(e):
                raise
            R.bad("exception", "a result", repr(e))
        mism += R.mm
        calls += R.calls
        events += R.events
        for key, v in R.cov.items():
            cov[key] = cov.get(key, 0) + v
    return {"mismatch": mism, "calls": calls, "cases": len(states), "events": events, "cov": cov}


# --------------------------------------------------------------------------- S3 recording
ROT24 = None


def _rot24():
    global ROT24
    if ROT24 is None:
        np = _np()
        import itertools

        ROT24 = []
        for p in itertools.permutations(range(3)):
            for s in itertools.product((1, -1), repeat=3):
                m = np.zeros((3, 3), dtype=int)
                for i in range(3):
                    m[i, p[i]] = s[i]
                ROT24.append(m)      # all 48; the generator only draws motions, TLC judges
    return ROT24


def _points(rng, n, shape):
    if shape == "cloud":
        return [[rng.randint(-4, 4) for _ in range(3)] for _ in range(n)]
    if shape == "line":
        d = rng.choice([[1, 0, 0], [1, 1, 0], [1, 2, -1]])
        return [[t * x for x in d] for t in rng.sample(range(-5, 6), min(n, 11))]
    if shape == "plane":
        return [[rng.randint(-4, 4), rng.randint(-4, 4), 1] for _ in range(n)]
    p = [rng.randint(-2, 2) for _ in range(3)]
    return [p[:] for _ in range(n)]


def _protein(seq, ca, chain="A"):
    np = _np()
    import biotite.structure as struc

    names, res, rid, co = [], [], [], []
    for i, (r, c) in enumerate(zip(seq, ca)):
        for k, nme in enumerate(("N", "CA", "C")):
            names.append(nme)
            res.append(r)
            rid.append(i + 1)
            co.append([c[0] + 0.25 * (k - 1), c[1] + 0.125 * (k - 1), c[2]])
    a = struc.AtomArray(len(names))
    a.atom_name = np.array(names)
    a.res_name = np.array(res)
    a.res_id = np.array(rid)
    a.chain_id = np.array([chain] * len(names))
    a.element = np.array([x[0] for x in names])
    a.coord = np.array(co, dtype=np.float32)
    return a



def _from_biotite(exc):
    """True when the exception was raised inside the library (not in this driver)."""
    import traceback

    frames = traceback.extract_tb(exc.__traceback__)
    return any("biotite" in f.filename and "/harness/" not in f.filename for f in frames)


def _guarded(fn):
    """An exception raised by the library on a well-formed recorded call is a disagreement, not a
    machinery failure; an exception of the driver itself stays a driver error."""
    import functools

    @functools.wraps(fn)
    def wrapper(item):
        try:
            return fn(item)
        except Exception as e:
            if not _from_biotite(e):
                raise
            import traceback

            return {"events": [], "mismatch": [{"kind": "exception", "stage": "S3", "item": item, "error": repr(e),
                                                "where": traceback.format_exc()[-600:]}]}
    return wrapper


def run_far(rng):
    """A recorded superimposition of real-valued coordinates: a random rigid motion (rotation angle
    from 1e-5 rad to a half turn, about a centre anywhere within 2000 A of the origin), optional
    noise; the generating motion's inverse is the witness placement.  Both RMSDs are measured on
    the real coordinates (the witness through the library's own apply()) and logged in 1/16 ulp."""
    np = _np()
    import biotite.structure as struc

    from harness.tlabind.pool import progress

    large = rng.random() < 0.15          # thousands of atoms: sizes across block / counter boundaries
    n = rng.choice([4095, 4096, 4097, 8191, 8193, rng.randint(4098, 8190), rng.randint(4098, 8190), rng.randint(8194, 13000)]) if large \
        else rng.randint(3, 24)
    fd, md = rng.choice([(0, 0), (0, 0), (0, 2), (1, 0), (1, 3), (0, 1)])
    ff, mf = rng.choice(FINE_FORMS), rng.choice(FINE_FORMS)
    where = rng.choice(["origin", "near", "far", "far", "far"])
    span = {"origin": 0.0, "near": 60.0, "far": 2000.0}[where]
    C = np.array([rng.choice([-1, 1]) * rng.uniform(0.15 * span, span) for _ in range(3)])
    if large:      # a compact core followed by a spread-out last third (numpy generator seeded from rng: deterministic)
        g = np.random.default_rng(rng.randrange(1 << 30))
        P = g.normal(0.0, 3.0, size=(n, 3))
        P[n - n // 3:] *= 3.0
    else:
        P = np.array([[rng.gauss(0, 6) for _ in range(3)] for _ in range(n)])
    F = (C + P).astype(np.float32).astype(np.float64)       # the fixed structure as float32 holds it
    mask = []
    if rng.random() < 0.35:
        m = [rng.random() < 0.7 for _ in range(n)]
        for i in rng.sample(range(n), 3):
            m[i] = True
        mask = [m]
    idx = [i for i in range(n) if not mask or mask[0][i]]
    noise = rng.choice(["none", "none", "none", "tiny", "large"])
    if large:
        noise = rng.choice(["none", "domain", "domain"])
    Ms, cws, Rws, tws, qs = [], [], [], [], []
    for _j in range(max(md, 1)):
        a = int(10 ** rng.uniform(0, 5.3))
        b, c, d = (rng.randint(-3, 3) for _ in range(3))
        if rng.random() < 0.1:
            a = 0
        if a == b == c == d == 0:
            a = 1
        D = a * a + b * b + c * c + d * d
        Rm = np.array([[a * a + b * b - c * c - d * d, 2 * (b * c - a * d), 2 * (b * d + a * c)],
                       [2 * (b * c + a * d), a * a - b * b + c * c - d * d, 2 * (c * d - a * b)],
                       [2 * (b * d - a * c), 2 * (c * d + a * b), a * a - b * b - c * c + d * d]], dtype=float) / D
        tk = rng.choice(["zero", "tiny", "ordinary"])
        t = np.array([0.0 if tk == "zero" else rng.uniform(-1, 1) * (3e-4 if tk == "tiny" else 8.0) for _ in range(3)])
        M = (F - C) @ Rm.T + C + t
        if noise == "tiny":
            M = M + np.array([[rng.gauss(0, 3e-4) for _ in range(3)] for _ in range(n)])
        elif noise == "large":
            M[rng.randrange(n)] += np.array([rng.choice([-1.0, 1.0]), 0.0, rng.choice([0.0, 0.5])])
        elif noise == "domain":
            # two groups of atoms of the first third on opposite sides are displaced in opposite directions
            # (a torque: the optimum is another rotation; the witness stays a valid candidate placement)
            first = np.arange(n) < n // 3
            M[first & (P[:, 0] > 2.0)] += np.array([0.0, 2.0, 0.0])
            M[first & (P[:, 0] < -2.0)] -= np.array([0.0, 2.0, 0.0])
        Ms.append(M)
        cws.append(-(C + t))
        Rws.append(Rm.T)
        tws.append(C)
        qs.append([a, b, c, d])
    Mv = np.array(Ms)
    fixed = shaped_vals(F if fd == 0 else F[np.newaxis], fd, ff)
    mobile = shaped_vals(Mv[0] if md == 0 else Mv, md, mf)
    kf = rng.choice(MASK_FORMS)
    ev = {"op": "far", "fd": fd, "md": md, "nfit": len(idx), "form": [ff, mf], "centre": C.tolist(), "quats": qs,
          "noise": noise, "n": n, "mask": mask if n <= 24 else [], "mform": kf if mask else "none", "large": large}
    progress(ev)
    fitted, tr = struc.superimpose(fixed, mobile, **({"atom_mask": mask_arg(mask[0], kf)} if mask else {}))
    probs = transform_sanity(tr, mobile, fitted)
    fit = coords(fitted)
    if fit.shape != coords(mobile).shape:
        probs.append("fitted shape differs from mobile")
    f3 = fit.reshape(-1, n, 3)
    mob3 = coords(mobile).reshape(-1, n, 3)
    placed = coords(struc.AffineTransformation(np.array(cws), np.array(Rws), np.array(tws)).apply(mobile)).reshape(-1, n, 3)
    mag = float(max(np.abs(F).max(), np.abs(mob3).max(), 1e-30))
    ue = math.frexp(float(np.float32(mag)))[1] - 1          # 2^ue <= mag < 2^(ue+1)
    ii = np.array(idx, dtype=int)
    before = [masked_rmsd(mob3[j] - mob3[j][ii].mean(axis=0), F - F[ii].mean(axis=0), ii) / 2.0 ** (ue - 23) for j in range(f3.shape[0])]
    ev.update(oc="ok", sane=not probs, problems=probs, ue=ue,
              qfit=[ulp_q(masked_rmsd(f3[j], F, ii), ue) for j in range(f3.shape[0])],
              qwit=[ulp_q(masked_rmsd(placed[j], F, ii), ue) for j in range(placed.shape[0])],
              tiny_motion=[bool(before[j] > 8 + len(idx) and tiny_relative_motion(F, mob3[j], ii)) for j in range(f3.shape[0])])
    return ev


@_guarded
def gen_trace(item):
    import warnings

    import biotite.structure as struc

    from harness.tlabind.pool import progress

    np = _np()
    warnings.simplefilter("ignore")
    warmup()
    rng = random.Random(item["seed"])
    G = _rot24()
    events = []

    def motion(P, noise_p):
        g = G[rng.randrange(48)]
        t = [rng.randint(-6, 6) for _ in range(3)]
        out = []
        for p in P:
            q = (g @ np.array(p)).tolist()
            q = [q[i] + t[i] for i in range(3)]
            if rng.random() < noise_p:
                q[rng.randrange(3)] += rng.choice([-1, 1])
            out.append(q)
        return out

    RES = ["ALA", "GLY", "SER"]
    BIG = [[6, -5, 4], [-4, 7, 5], [5, 5, -6]]

    for _ in range(item["length"]):
        k = rng.random()
        form = rng.choice(FORMS)
        if k < 0.16:
            events.append(run_far(rng))
        elif k < 0.55:
            n = rng.randint(1, 12)
            P = _points(rng, n, rng.choice(["cloud", "cloud", "line", "plane", "point"]))
            n = len(P)
            fd, md = rng.choice([(0, 0), (0, 2), (0, 3), (1, 0), (2, 2), (3, 3), (1, 2), (2, 0), (2, 3), (3, 1), (0, 1)])
            noise_p = rng.choice([0.0, 0.0, 0.15, 0.4])
            F = [P] + [motion(P, 0.0) for _ in range(max(fd, 1) - 1)]
            M = [motion(P, noise_p) for _ in range(max(md, 1))]
            mask = []
            if rng.random() < 0.4 and n >= 2:
                m = [rng.random() < 0.7 for _ in range(n)]
                if not any(m):
                    m[0] = True
                mask = [m]
            fform = rng.choice(FORMS)
            kf = rng.choice(MASK_FORMS) if mask else "none"
            fixed, mobile = shaped(F, fd, fform), shaped(M, md, form)
            progress({"op": "fit", "F": F, "M": M, "fd": fd, "md": md, "mask": mask, "form": [fform, form], "mform": kf})
            ev = {"op": "fit", "F": F, "M": M, "fd": fd, "md": md, "mask": mask, "form": [fform, form], "mform": kf}
            try:
                fitted, tr = struc.superimpose(fixed, mobile, **({"atom_mask": mask_arg(mask[0], kf)} if mask else {}))
            except Exception:
                ev.update(oc="Rejected", rmsd2q=[], sane=True)
                events.append(ev)
                continue
            probs = transform_sanity(tr, mobile, fitted)
            fit = coords(fitted)
            f3 = fit if fit.ndim == 3 else fit[np.newaxis]
            idx = [i for i in range(n) if not mask or mask[0][i]]
            qs = []
            Fm = np.array(F, dtype=float)
            for j in range(f3.shape[0]):
                ref = Fm[j if Fm.shape[0] > 1 else 0]
                qs.append(q_of(float(np.mean(np.sum((f3[j] - ref)[idx] ** 2, axis=-1)))))
            if fit.ndim == 2 and md != 0 or fit.ndim == 3 and md == 0 and max(fd, 1) == 1:
                probs.append("fitted dimensionality differs from mobile")
            ev.update(oc="ok", rmsd2q=qs, sane=not probs, problems=probs)
            events.append(ev)
        elif k < 0.78:
            n = rng.randint(3, 12)
            P = _points(rng, n, "cloud")
            M = motion(P, rng.choice([0.0, 0.1]))
            for _o in range(rng.choice([0, 1, 1, 2])):
                j = rng.randrange(n)
                M[j] = [M[j][i] + rng.choice([-5, 4, 6]) for i in range(3)]
            ma = rng.choice([1, 3, 3, 5])
            maxit = rng.choice([10, 10, 10, 1, 2])
            progress({"op": "outliers", "F": P, "M": M, "min_anchors": ma, "maxit": maxit, "form": form})
            events.append(run_outliers(P, M, ma, maxit, form))
        else:
            nres = rng.randint(3, 10)
            cls = rng.random()
            if cls < 0.35:      # no residue pair scores positively: the alignment-free fallback
                pool_f, pool_m = rng.choice([(["ALA", "SER"], ["GLY"]), (["GLY"], ["ALA", "SER"]), (["ALA"], ["GLY"])])
            else:
                pool_f = pool_m = RES
            seq = [rng.choice(pool_f) for _ in range(nres)]
            ca = [[i * 2 + rng.randint(0, 1), rng.randint(-3, 3), rng.randint(-3, 3)] for i in range(nres)]
            seq2 = seq[:] if pool_f is pool_m else [rng.choice(pool_m) for _ in range(nres)]
            ca2 = [c[:] for c in ca]
            edit = rng.random()
            if edit < 0.2 and nres > 3:        # deletion in the mobile chain
                j = rng.randrange(nres)
                del seq2[j], ca2[j]
            elif edit < 0.4:                   # insertion
                j = rng.randrange(nres + 1)
                seq2.insert(j, rng.choice(pool_m))
                ca2.insert(j, [rng.randint(-8, 8) for _ in range(3)])
            elif edit < 0.55:                  # substitution
                seq2[rng.randrange(len(seq2))] = rng.choice(pool_m)
            ca2m = motion(ca2, rng.choice([0.0, 0.0, 0.15]))
            for _o in range(rng.choice([0, 0, 1, 1, 2])):     # displaced residues (conformational outliers)
                j = rng.randrange(len(ca2m))
                d = rng.choice(BIG)
                ca2m[j] = [ca2m[j][i] + d[i] for i in range(3)]
            ma = rng.choice([1, 3])
            maxit = rng.choice([10, 10, 10, 1])
            progress({"op": "homologs", "sF": seq, "sM": seq2, "F": ca, "M": ca2m, "min_anchors": ma, "maxit": maxit})
            events.append(run_homologs(seq, ca, seq2, ca2m, ma, maxit))
    return {"events": events}


# --------------------------------------------------------------------------- verdict plumbing
def classify(mm):
    return None   # no known findings for C16


def replay(record):
    import warnings

    warnings.simplefilter("ignore")
    warmup()
    if record.get("kind") == "case" and record.get("case_kind") in DO:
        return {"error": "re-run `./check C16` to recompute TLC's expected values; the record holds case, call, expected and observed",
                "record": {k: record[k] for k in ("case_kind", "case", "call", "expected", "observed")}, "mismatch": True}
    return {"record": record, "mismatch": True}


def run(ctx):
    import json

    from harness.tlabind import helpers, tlc
    from harness.tlabind.core import Vacuity

    quick = ctx.quick
    ctx.assumptions += [
        "DECIDED: lattice witnesses (RMSD on the fitted atoms <= sqrt(W), W the best of the 24 proper lattice placements, exact rational), proper rotation (orthonormal, det +1), transform consistency (fitted = apply(mobile) = as_matrix form; apply/as_matrix = TLC's affine algebra), broadcasting case analysis (array/stack combinations, counts, shapes, refusals), anchors of the outlier/homolog variants well-formed with the reported fit <= W on exactly those anchors",
        "NOT DECIDED: that no rigid placement is better than the returned one for noisy or non-congruent inputs (optimality below the witness bound W needs singular values); rotations outside the cube group; float rounding beyond the stated tolerances",
        "point sets, translations, perturbations: integers; rigid motions: the 48 signed permutation matrices (24 proper = rigid copies, 24 improper = mirrored copies)",
        "fixed = stack of m>1 models with one mobile model is 'Unspecified' (refusal or model-wise result accepted)",
        "tolerances: RMSD 1e-3 where 0 is expected, msd <= W(1+1e-4)+1e-6 otherwise, 1e-4 on coordinates, 1e-5 on orthonormality/determinant; recorded executions: RMSD^2 <= W + 3e-4",
        "homolog variant: lattice 'proteins' of ALA/GLY/SER residues from the synthetic CCD (/verif/fixtures/ccd), CA atoms on the lattice",
        "Dom_Form: coordinates are handed over as ndarrays (float16/32/64, int32/int64, contiguous or not; also instances of ndarray subclasses: read-only numpy.memmap, a trivial user subclass - masked arrays and numpy.matrix are excluded) or AtomArray / AtomArrayStack - the documented containers; integer forms hold integer coordinates only (half ticks only with floating forms); plain Python lists are not documented inputs and are not exercised",
        "motions off the lattice (family 'far', recorded 'far' events): rotations R = I + QE(q)/|q|^2 from integer quaternions, fixed = centre + small lattice set, rational translations and noise; witness law: RMSD(fitted) <= RMSD(generating motion's inverse) + (8 + fitted atoms) ulps, ulp = float32 spacing at the largest coordinate magnitude (measured on the unchanged code: <= 2.9 ulps in S2, <= 4.5 ulps over 4,000 recorded events); only forms that hold such coordinates (no integer forms, no float16)",
        "Dom_MaskForm: the selection of the fitted atoms is a non-empty set of positions, handed over as a NumPy index along the atom axis: boolean ndarray (documented), list of bools, integer index array (int64 / int32, ascending or a descending view), list of ints - distinct positions in range; every form denotes the same set of atom pairs",
        "hand-built AffineTransformation: translation arrays float32 / float64 (int64 only without half ticks), rotation array int64 / int32 / float32 / float64 independently (a lattice rotation is an integer matrix)",
        "large structures (family 'big'): run-length encoded blocks (small lattice set, scaled, at an offset, repeated cyclically), 24 ... 10,000 atoms (thorough 12,500), mobile = g(fixed + d_b) + t with whole blocks displaced; witness placement 'g^-1, centroids aligned' with exact msd (n*Sum m_b|d_b|^2 - |Sum m_b d_b|^2)/n^2; tolerance as on the lattice (RMSD 1e-3 for exact copies, msd <= W(1+1e-4)+1e-6); all coordinate forms except float16; the driver only expands the run-length encoding; recorded 'far' events with 4,095 ... 13,000 atoms use the witness law with its allowance of (8 + fitted atoms) ulps",
        "histories: operations mat / app / scr (caller edits a returned array in place) / setR, sett (attribute re-assigned) / incc (attribute edited in place), up to 4 (quick) or 5 (thorough) operations",
        "anchor path of superimpose_homologs decided only where the alignment is not needed: no positively scoring residue pair (PosScore = sign of BLOSUM62 on ALA/GLY/SER, bound to the real matrix by the driver) -> fallback, identical sequences -> identity pairing; everything else is 'open' (C08's subject); fewer backbone atoms than min_anchors: 'open' (the code refuses, undocumented)",
        "trusted: TLC, the TLA+ value parser, numpy",
    ]
    res, states = helpers.dump_states(ctx, "RigidFit", "MC.cfg" if quick else "MC_thorough.cfg",
                                      workers=16, timeout=900 if quick else 3000)
    ctx.exhaustive = True
    done = [(s["vcase"], s["vout"]) for s in states if s["vout"]]
    if 2 * len(done) != res.distinct:
        raise RuntimeError(f"dump has {len(done)} evaluated cases, TLC reported {res.distinct} states")
    done.sort(key=lambda s: json.dumps(s[0], sort_keys=True))
    kinds, ocs, ranks = {}, {}, {}
    zero = pos = whole = 0
    mob_forms, fix_forms, half_whole, aff_forms, hist_forms, paths = {}, {}, {}, {}, {}, {}
    hist_shapes = set()
    far_forms, far_mob_forms, far_kinds = {}, {}, {}
    mask_forms, idx_without_first, rot_dtypes = {}, {}, {}
    big_kinds = {}
    for c, o in done:
        kinds[c[0]] = kinds.get(c[0], 0) + 1
        if c[0] == "fit":
            ocs[o[0][0]] = ocs.get(o[0][0], 0) + 1
            ranks[o[0][7]] = ranks.get(o[0][7], 0) + 1
            ff, mf, hs = c[1][7], c[1][8], c[1][9]
            fix_forms[ff] = fix_forms.get(ff, 0) + 1
            kf = c[1][10]
            mask_forms[kf] = mask_forms.get(kf, 0) + 1
            # a selection without the first atom, the perturbation ON the first atom, an exact fit of the selection
            if c[1][3] and not c[1][3][0][0] and any(c[1][4]) and o[0][3] and all(w[0] == 0 for w in o[0][3]):
                idx_without_first[kf] = idx_without_first.get(kf, 0) + 1
            for w in o[0][3]:
                zero += w[0] == 0
                pos += w[0] > 0
                whole += bool(w[2])
                if w[0] == 0:
                    mob_forms[mf] = mob_forms.get(mf, 0) + 1
                if w[2] and hs:
                    half_whole[mf] = half_whole.get(mf, 0) + 1
        elif c[0] == "affine":
            ocs["affine:" + o[0][0]] = ocs.get("affine:" + o[0][0], 0) + 1
            if o[0][0] == "ok":
                aff_forms[(c[1][5], c[1][6])] = aff_forms.get((c[1][5], c[1][6]), 0) + 1
            key = f"affine den={c[1][6]} t={c[1][7]} R={c[1][8]}"
            rot_dtypes[key] = rot_dtypes.get(key, 0) + 1
        elif c[0] == "hist":
            hist_forms[c[1][6]] = hist_forms.get(c[1][6], 0) + 1
            key = f"hist den={c[1][7]} t={c[1][8]} R={c[1][9]}"
            rot_dtypes[key] = rot_dtypes.get(key, 0) + 1
            ops = c[1][5]
            # accessor, something in between, the same accessor again: the shapes that need a history
            for i, a in enumerate(ops):
                for j in range(i + 2, len(ops)):
                    if a in ("mat", "app") and ops[j] == a:
                        hist_shapes.update((a, x) for x in ops[i + 1:j])
        elif c[0] == "far":
            far_forms[c[1][8]] = far_forms.get(c[1][8], 0) + 1
            far_mob_forms[c[1][9]] = far_mob_forms.get(c[1][9], 0) + 1
            far_kinds["exact copy" if o[0][7][0] == 0 else "noise"] = far_kinds.get("exact copy" if o[0][7][0] == 0 else "noise", 0) + 1
            far_kinds[f"depths {c[1][6]},{c[1][7]}"] = far_kinds.get(f"depths {c[1][6]},{c[1][7]}", 0) + 1
            far_kinds["mask" if c[1][5] else "no mask"] = far_kinds.get("mask" if c[1][5] else "no mask", 0) + 1
            far_kinds["selection " + c[1][10]] = far_kinds.get("selection " + c[1][10], 0) + 1
        elif c[0] == "big":
            n = o[0][8]          # fitted atoms
            big_kinds["selection " + c[1][8]] = big_kinds.get("selection " + c[1][8], 0) + 1
            cls = ("<4096" if n < 4096 else "=4096" if n == 4096 else "4097..8191" if n < 8192 else ">8192") \
                + (" exact copy" if o[0][6][0] == 0 else " displaced block")
            big_kinds[cls] = big_kinds.get(cls, 0) + 1
        else:
            key = c[1][0] + ":" + o[0][0]
            paths[key] = paths.get(key, 0) + 1
    ctx.cov.update(cases_per_kind=kinds, outcomes=ocs, masked_rank=ranks,
                   witness_zero=zero, witness_positive=pos, whole_model_coincidence=whole,
                   mobile_forms_with_exact_fit=mob_forms, fixed_forms=fix_forms,
                   mobile_forms_fitted_onto_half_tick_positions=half_whole,
                   affine_form_den_pairs=len(aff_forms), history_forms=hist_forms, anchor_paths=paths,
                   far_fixed_forms=far_forms, far_mobile_forms=far_mob_forms, far_kinds=far_kinds,
                   selection_forms=mask_forms, selection_without_first_atom_exact_fit_perturbed_first=idx_without_first,
                   constructor_dtypes=rot_dtypes, large_structures=big_kinds)
    need = {"ok", "Rejected", "Unspecified", "affine:ok", "affine:Rejected"}
    if not need <= set(ocs) or set(ranks) != {0, 1, 2, 3} or not (zero and pos and whole):
        raise Vacuity(f"families miss an outcome / rank / witness kind: {ocs} {ranks} {zero} {pos} {whole}")
    if set(kinds) != {"fit", "affine", "hist", "anch", "far", "big"}:
        raise Vacuity(f"a family is empty: {kinds}")
    if not quick or len(done) > 3000:     # (the tiny development config does not hold every combination)
        allf = set(FORMS)
        if set(mob_forms) != allf or set(fix_forms) != allf or set(half_whole) != allf or set(hist_forms) != allf \
                or {f for f, _d in aff_forms} != allf or len(aff_forms) != 2 * len(FORMS):
            raise Vacuity(f"a coordinate form is not exercised: {mob_forms} {fix_forms} {half_whole} {hist_forms} {sorted(aff_forms)}")
        want = {(a, x) for a in ("mat", "app") for x in ("scr", "setR", "sett", "incc", "mat", "app")}
        if not want <= hist_shapes:
            raise Vacuity(f"history shapes missing: {sorted(want - hist_shapes)}")
        if set(far_forms) != set(FINE_FORMS) or set(far_mob_forms) != set(FINE_FORMS) \
                or not {"exact copy", "noise", "mask", "no mask", "depths 0,0", "depths 0,2", "depths 1,2"} <= set(far_kinds):
            raise Vacuity(f"the family of motions off the lattice misses a form / kind: {far_forms} {far_mob_forms} {far_kinds}")
        if set(mask_forms) != set(MASK_FORMS) | {"none"} or set(idx_without_first) != set(MASK_FORMS) \
                or not {"selection " + k for k in MASK_FORMS} <= set(far_kinds):
            raise Vacuity(f"a form of the selection is not exercised (also: without the first atom): {mask_forms} {idx_without_first} {far_kinds}")
        wantb = {f"{a} {b}" for a in ("<4096", "=4096", "4097..8191", ">8192") for b in ("exact copy", "displaced block")}
        if not wantb <= set(big_kinds):
            raise Vacuity(f"large structures: a size class (of the fitted atoms) is missing: {big_kinds}")
        if not {"selection " + k for k in MASK_FORMS + ("none",)} <= set(big_kinds):
            raise Vacuity(f"large structures: a form of the selection is missing: {big_kinds}")
        wantd = {f"{fam} den=2 t={t} R={r}" for fam in ("affine", "hist") for t in ("f32", "f64") for r in RFORMS} \
            | {f"{fam} den=1 t=i64 R={r}" for fam in ("affine", "hist") for r in RFORMS}
        if not wantd <= set(rot_dtypes):
            raise Vacuity(f"constructor dtype combinations missing: {sorted(wantd - set(rot_dtypes))}")
        wantp = {"homologs:fallback", "homologs:identity", "homologs:Rejected", "homologs:open", "outliers:outliers"}
        if not wantp <= set(paths):
            raise Vacuity(f"anchor paths missing: {paths}")
    ctx.cov["rule"] = ("a fit case is non-trivial when the rigid motion is not the identity or the witness bound is positive; "
                       "an affine case when it has a non-identity rotation; a history when an edit lies between two accessor calls; "
                       "an anchor case when a residue is displaced or the path is not 'open'; "
                       "a motion off the lattice when its rotation is not the identity; a large structure when a block is displaced")
    ctx.nontrivial += sum(1 for c, o in done if (c[0] == "fit" and (c[1][1] != 1 or any(w[0] > 0 for w in o[0][3])))
                          or (c[0] == "affine" and any(g != 1 for g in c[1][1]))
                          or (c[0] == "hist" and any(x not in ("mat", "app") for x in c[1][5][:-1]) and any(x in ("mat", "app") for x in c[1][5][:-1]))
                          or (c[0] == "anch" and (c[1][6] or o[0][0] != "open"))
                          or (c[0] == "far" and any(q[1:] != [0, 0, 0] for q in c[1][2]))
                          or (c[0] == "big" and o[0][6][0] > 0))
    d = tlc.scratch_dir("c16")
    per = 100
    items = []
    for lo in range(0, len(done), per):
        fn = os.path.join(d, f"s2_{lo}.json")
        with open(fn, "w") as f:
            json.dump(done[lo:lo + per], f)
        items.append({"lo": lo, "file": fn})
    results = helpers.run_pool(ctx, "harness.drivers.c16:exec_group", items, stage="S2", item_timeout=600)
    calls = sum(r.get("calls", 0) for r in results)
    ncases = sum(r.get("cases", 0) for r in results)
    ctx.traces_validated += ncases
    ctx.evaluations += calls
    ctx.cov["s2_cases"] = ncases
    ctx.cov["s2_calls"] = calls
    ctx.sample({"s2_case": done[len(done) // 3][0], "expected": done[len(done) // 3][1][0][:4]})
    s2cov = {}
    for r in results:
        for key, v in (r.get("cov") or {}).items():
            s2cov[key] = s2cov.get(key, 0) + v
    ctx.cov["s2_far_tiny_relative_motion_above_rounding"] = s2cov.get("far_tiny_relative_motion_above_rounding", 0)
    if kinds.get("far", 0) > 1000 and not ctx.violations and not ctx.cov["s2_far_tiny_relative_motion_above_rounding"]:
        raise Vacuity("no motion off the lattice is small relative to the coordinates (1e-5) and above the rounding allowance")
    ctx.log(f"S2: {ncases} cases, {calls} calls compared with biotite")
    # recorded executions of the spec-generated anchor cases: judged by Trace.tla together with S3
    s2ev = [e for r in results for e in r.get("events", ())]
    s2traces = helpers.chunked(s2ev, 12)
    removed = {}
    for e in s2ev:
        k = e["op"] + ":" + e["path"]
        got = e["anchors"] if e["op"] == "outliers" else e["fa"]
        if e.get("oc", "ok") == "ok" and e["sane"] and len(got) < len(e["M"]) and e["moved"]:
            removed[k] = removed.get(k, 0) + 1
    ctx.cov["s2_anchor_events"] = len(s2ev)
    ctx.cov["s2_anchor_removed_by_path"] = removed
    # ---- S3
    ntr = 40 if quick else 2500
    length = 10 if quick else 16
    seeds = [ctx.rng.randrange(1 << 30) for _ in range(ntr)]
    tres = helpers.run_pool(ctx, "harness.drivers.c16:gen_trace", [{"seed": s, "length": length} for s in seeds],
                            stage="S3", item_timeout=180)
    s3traces = [r["events"] for r in tres if r and r.get("events")]
    traces = s3traces + s2traces
    keep = ("op", "F", "M", "fd", "md", "mask", "oc", "rmsd2q", "sane", "min_anchors", "anchors", "fa", "ma",
            "sF", "sM", "maxit", "nfit", "ue", "qfit", "qwit")
    nmm = 0
    for ci, chunk in enumerate(helpers.chunked(traces, 350)):
        for m in helpers.tlc_validate(ctx, chunk, keep=keep, timeout=1500):
            _tag, tid, l, what, flags, bc, bounds = m
            nmm += 1
            # executions of spec-generated "anch" cases are S2, recorded seeded traces are S3
            stage = "S3" if ci * 350 + tid - 1 < len(s3traces) else "S2"
            ctx.mismatch({"stage": stage, "kind": "event", "what": what, "flags": flags, "spec_outcome": bc,
                          "violated_bounds(model,W)": bounds, "event": chunk[tid - 1][l - 1]})
    nev = sum(len(t) for t in traces)
    ctx.traces_validated += len(s3traces)      # (the S2 anchor cases are counted with S2)
    ctx.evaluations += sum(len(t) for t in s3traces)
    ops = {op: sum(1 for t in s3traces for e in t if e["op"] == op) for op in ("fit", "outliers", "homologs", "far")}
    ctx.cov.update(s3_traces=len(s3traces), s3_events=sum(len(t) for t in s3traces), s3_ops=ops,
                   s3_fit_positive_rmsd=sum(1 for t in s3traces for e in t if e["op"] == "fit" and any(q > 3 for q in e["rmsd2q"])),
                   s3_anchor_removed=sum(1 for t in s3traces for e in t if e["op"] == "outliers" and len(e["anchors"]) < len(e["F"])),
                   s3_homolog_refused=sum(1 for t in s3traces for e in t if e["op"] == "homologs" and e["oc"] == "Rejected"),
                   s3_homolog_anchor_removed=sum(1 for t in s3traces for e in t if e["op"] == "homologs" and e["oc"] == "ok"
                                                 and len(e["fa"]) < min(len(e["F"]), len(e["M"]))),
                   s3_far_exact_copies=sum(1 for t in s3traces for e in t if e["op"] == "far" and e["sane"] and all(q <= 2 * ULP_UNITS for q in e["qwit"])),
                   s3_far_tiny_relative_motion_above_rounding=sum(1 for t in s3traces for e in t if e["op"] == "far" and e["sane"] and any(e["tiny_motion"])),
                   s3_far_large=sum(1 for t in s3traces for e in t if e["op"] == "far" and e.get("large")),
                   s3_forms=sorted({f for t in s3traces for e in t if "form" in e for f in ([e["form"]] if isinstance(e["form"], str) else e["form"])}),
                   events_judged_by_trace_spec=nev)
    if not all(ops.values()):
        raise Vacuity(f"S3 recorded no event of some kind: {ops}")
    if not ctx.violations and not ctx.cov["s3_far_exact_copies"]:
        raise Vacuity("S3 recorded no exact rigid copy off the lattice (witness RMSD <= 2 ulps)")
    ctx.nontrivial += sum(1 for t in s3traces if any(e["op"] != "fit" or any(q > 3 for q in e["rmsd2q"]) for e in t))
    ctx.sample({"s3_event": {k: v for k, v in s3traces[0][0].items() if k in keep}})

    def corrupt(tr):
        for e in tr:
            if e["op"] == "fit" and e["oc"] == "ok" and e["rmsd2q"]:
                e["rmsd2q"][0] += 400 * KK
                return True
            if e["op"] == "far" and e["qfit"]:
                e["qfit"][0] = e["qwit"][0] + ULP_UNITS * (8 + e["nfit"]) + 2      # just above the allowance
                return True
            if e["op"] == "outliers" and e["anchors"]:
                e["anchors"][0] = -1
                return True
            if e["op"] == "homologs" and e["oc"] == "ok" and len(e["fa"]) > 1:
                e["ma"] = e["ma"][:-1]
                return True
        return False

    sel = s3traces[:2] + s2traces[:1]
    helpers.binding_selftest(ctx, [[{k: e[k] for k in keep if k in e} for e in t] for t in sel], corrupt)
    # reach of the anchor family, measured on the reported anchors: meaningful only when the
    # executions agree with the specification (a disagreement is already the verdict)
    if len(done) > 3000 and not ctx.violations and not all(
            removed.get(k) for k in ("outliers:outliers", "homologs:fallback", "homologs:identity")):
        raise Vacuity(f"no spec-generated anchor case had an anchor removed on some path: {removed}")
    ctx.log(f"S3: {len(s3traces)} recorded traces + {len(s2ev)} spec-generated anchor executions = {nev} events judged by TLC, {nmm} mismatches")
