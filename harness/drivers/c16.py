"""C16 -- superimposition minimises RMSD with a proper rotation.

DECIDED by this check (exact integer-lattice restriction, specs/C16 + specs/lib/Lattice.tla):
  * lattice witnesses: for every enumerated fixed/mobile pair TLC computes the best of the 24
    proper lattice placements, an exact rational upper bound W of the minimal mean squared
    deviation (W = 0 for proper rigid copies and for mirrored copies of sets lying in a
    lattice mirror plane, W > 0 for mirrored rank-3 sets); the real superimpose must not be
    worse than W on the masked atoms;
  * proper rotation: returned matrices are orthonormal with determinant +1, also for single
    atoms, collinear, planar and mirrored inputs;
  * transform consistency: fitted = transformation.apply(mobile) = as_matrix() applied;
    AffineTransformation.apply / as_matrix equal TLC's exact affine algebra model by model;
  * broadcasting case analysis: every array/stack combination of fixed and mobile gives the
    number of transformations and the fitted shape the specification derives; refusals are
    refusals;
  * outlier / homolog variants (recorded executions): anchors well-formed, at least
    min_anchors of them, reported fit not worse than W on exactly those anchors.
NOT DECIDED: that no rigid placement has a lower RMSD than the returned one for noisy or
non-congruent inputs (needs singular values); only W bounds the optimum from above.
"""

from __future__ import annotations

import math
import os
import random

PROPERTY = "C16"

MANIFEST = {
    "technique": "TLA+ specification of AffineTransformation / superimpose broadcasting and exact lattice witnesses for the optimal RMSD (specs/C16, specs/lib/Lattice.tla) model-checked by TLC; TLC's expected outcomes, shapes, affine images and witness bounds replayed against the real functions; recorded executions (noise, outliers, homologs) judged by TLC",
    "level_text": "TLC enumerates 12 lattice point sets of every rank (single atom, coincident atoms, collinear, planar, mirror-symmetric and chiral rank-3 sets, 5-6 atom chains) x all 48 elements of the cube group (24 rigid copies, 24 mirrored copies) x translations x atom masks x an integer perturbation x 11 array/stack combinations of fixed and mobile, and integer affine transformations for 1-3 models, and decides: the affine algebra (apply = 4x4 matrix form, model-wise action, count refusals), the broadcasting case analysis, and exact rational witness bounds W for the minimal mean squared deviation (0 for rigid copies and lattice-mirror-plane sets, > 0 for mirrored rank-3 sets). Every case is executed against superimpose / AffineTransformation: proper rotation (orthonormal, det +1), RMSD on the masked atoms <= sqrt(W), whole-structure coincidence where the fit is unique, fitted = apply(mobile) = as_matrix form, shapes and refusals. Recorded executions with noise, outliers and lattice 'proteins' (synthetic CCD) are judged by TLC: anchors well-formed, >= min_anchors, fit on the reported anchors <= W.",
    "level_note": "DECIDED: lattice witnesses (necessary conditions of optimality), proper rotation, transform consistency, broadcast case analysis, anchor well-formedness. NOT DECIDED: optimality of the fit on noisy / non-congruent inputs below the witness bound W (the optimum needs singular values, which integer arithmetic cannot express) and any rotation outside the cube group; float32 rounding is covered only by tolerances (1e-3 on RMSD, 1e-4 on coordinates, 1e-5 on orthonormality). The combination fixed = stack of m>1 models with a single mobile model is 'Unspecified' (the code refuses it; the documentation neither promises nor excludes it). Trusted: TLC, the TLA+ value parser, numpy.",
}

CCD = "/verif/fixtures/ccd/components_synth.bcif"
KK = 10000


def _np():
    import numpy as np

    return np


def warmup():
    import biotite.structure  # noqa: F401
    import biotite.structure.info as info

    info.set_ccd_path(CCD)


class Rec:
    def __init__(self, case, idx):
        self.case = case
        self.idx = idx
        self.mm = []
        self.calls = 0

    def bad(self, call, expected, observed, **kw):
        m = {"kind": "case", "case_kind": self.case[0], "case": self.case[1], "variant": self.idx,
             "call": call, "expected": expected, "observed": observed}
        m.update(kw)
        self.mm.append(m)


def shaped(models, depth, dt, as_atoms):
    """Spec models (list of point lists) -> array (depth 0) or stack; optionally AtomArray(Stack)."""
    np = _np()
    import biotite.structure as struc

    if depth == 0:
        c = np.array(models[0], dtype=dt)
        if as_atoms:
            a = struc.AtomArray(len(models[0]))
            a.coord = c.astype(np.float32)
            return a
        return c
    c = np.array(models, dtype=dt)
    if as_atoms:
        s = struc.AtomArrayStack(depth, len(models[0]))
        s.coord = c.astype(np.float32)
        return s
    return c


def coords(x):
    np = _np()
    return np.asarray(x.coord if hasattr(x, "coord") else x, dtype=float)


def transform_sanity(tr, mobile, fitted):
    """Projection of a returned transformation: list of problems (empty = sane)."""
    np = _np()
    probs = []
    R = np.asarray(tr.rotation, dtype=float)
    if R.ndim != 3 or R.shape[1:] != (3, 3):
        return [f"rotation shape {R.shape}"]
    for k in range(R.shape[0]):
        if not np.allclose(R[k] @ R[k].T, np.eye(3), atol=1e-5):
            probs.append(f"rotation {k} not orthonormal")
        d = float(np.linalg.det(R[k]))
        if abs(d - 1.0) > 1e-5:
            probs.append(f"rotation {k} has determinant {d:.6f}")
    fit = coords(fitted)
    mob = coords(mobile)
    again = coords(tr.apply(mobile))
    if again.shape != fit.shape or not np.allclose(again, fit, atol=1e-4):
        probs.append("transformation.apply(mobile) differs from the fitted coordinates")
    if fit.shape != mob.shape:
        probs.append(f"fitted shape {fit.shape} differs from mobile shape {mob.shape}")
    M4 = np.asarray(tr.as_matrix(), dtype=float)
    m3 = mob if mob.ndim == 3 else mob[np.newaxis]
    f3 = fit if fit.ndim == 3 else fit[np.newaxis]
    if M4.shape != (R.shape[0], 4, 4):
        probs.append(f"as_matrix shape {M4.shape}")
    elif m3.shape[0] == M4.shape[0]:
        for k in range(M4.shape[0]):
            h = np.concatenate([m3[k], np.ones((m3.shape[1], 1))], axis=1)
            out = (M4[k] @ h.T).T
            if not np.allclose(out[:, :3], f3[k], atol=1e-4) or not np.allclose(out[:, 3], 1.0):
                probs.append(f"as_matrix()[{k}] applied to (x,1) differs from the fitted coordinates")
    return probs


# --------------------------------------------------------------------------- S2: "fit"
def do_fit(R, pay, out):
    np = _np()
    import biotite.structure as struc

    P, gi, ti, mask, noise, fd, md = pay
    oc, nT, fdepth, per, F, M, maskidx, rk = out
    dt = np.float32 if R.idx % 2 == 0 else np.float64
    as_atoms = R.idx % 3 == 2
    fixed = shaped(F, fd, dt, as_atoms)
    mobile = shaped(M, md, dt, as_atoms)
    kw = {}
    if mask:
        kw["atom_mask"] = np.array(mask[0], dtype=bool)
    R.calls += 1
    try:
        fitted, tr = struc.superimpose(fixed, mobile, **kw)
        real = "ok"
    except Exception as e:
        real, err = "Rejected", repr(e)
    if oc == "Unspecified":
        if real == "Rejected":
            return
        oc = "ok"   # accepted if it is a model-wise result: judged below
    if real != oc:
        R.bad("superimpose", oc, real, detail=(err if real == "Rejected" else "returned a result"))
        return
    if oc != "ok":
        return
    fit = coords(fitted)
    exp_shape = (len(P), 3) if fdepth == 0 and nT == 1 else None
    if tr.rotation.shape[0] != nT:
        R.bad("superimpose", f"{nT} transformations", f"{tr.rotation.shape[0]} transformations")
        return
    probs = transform_sanity(tr, mobile, fitted)
    if probs:
        R.bad("superimpose", "proper rotation; fitted = apply(mobile) = as_matrix form", probs)
        return
    if exp_shape and fit.shape != exp_shape:
        R.bad("superimpose", list(exp_shape), list(fit.shape), what="fitted shape")
        return
    f3 = fit if fit.ndim == 3 else fit[np.newaxis]
    if f3.shape[0] != nT:
        # fixed stack, single mobile ("Unspecified" accepted as model-wise): one fitted model per transformation
        R.bad("superimpose", f"{nT} fitted models", list(fit.shape))
        return
    Fm = np.array(F, dtype=float)
    nf = Fm.shape[0]
    idx = np.array(maskidx, dtype=int)
    for k in range(nT):
        wnum, wden, whole = per[k]
        ref = Fm[k if nf > 1 else 0]
        dev = f3[k] - ref
        msd = float(np.mean(np.sum(dev[idx] ** 2, axis=-1)))
        bound = wnum / wden
        if wnum == 0:
            if math.sqrt(msd) > 1e-3:
                R.bad("superimpose", {"rmsd_on_masked_atoms": 0.0, "model": k}, math.sqrt(msd), rank=rk)
        elif msd > bound * (1 + 1e-4) + 1e-6:
            R.bad("superimpose", {"msd_on_masked_atoms<=": [wnum, wden], "model": k}, msd, rank=rk)
        if whole and float(np.abs(dev).max()) > 1e-3:
            R.bad("superimpose", {"whole model coincides with fixed": True, "model": k}, float(np.abs(dev).max()), rank=rk)
        # rmsd() agrees with the deviation measured here (binding of compare.rmsd)
        r = float(np.atleast_1d(struc.rmsd(ref[idx], f3[k][idx]))[0])
        if abs(r * r - msd) > 1e-5 + 1e-4 * msd:
            R.bad("rmsd", math.sqrt(msd), r)


# --------------------------------------------------------------------------- S2: "affine"
def do_affine(R, pay, out):
    np = _np()
    import biotite.structure as struc

    cs, gis, ts, X, depth = pay
    oc, res, mats, mods, rots = out
    dt = np.float32 if R.idx % 2 == 0 else np.float64
    single = len(cs) == 1 and R.idx % 2 == 0     # documented: shapes (3,) / (3,3) are expanded
    c = np.array(cs[0] if single else cs, dtype=dt)
    rot = np.array(rots[0] if single else rots, dtype=dt)
    t = np.array(ts[0] if single else ts, dtype=dt)
    tr = struc.AffineTransformation(c, rot, t)
    x = shaped(mods, depth, dt, R.idx % 3 == 2)
    R.calls += 2
    try:
        got = coords(tr.apply(x))
        real = "ok"
    except (IndexError, ValueError) as e:
        real, got = "Rejected", repr(e)
    if real != oc:
        R.bad("AffineTransformation.apply", oc, real, detail=str(got)[:200])
    elif oc == "ok":
        e = np.array(res[0] if depth == 0 else res, dtype=float)
        if got.shape != e.shape or not np.allclose(got, e, atol=1e-4):
            R.bad("AffineTransformation.apply", e.tolist(), got.tolist())
    M4 = np.asarray(tr.as_matrix(), dtype=float)
    e4 = np.array(mats, dtype=float)
    if M4.shape != e4.shape or not np.allclose(M4, e4, atol=1e-5):
        R.bad("AffineTransformation.as_matrix", e4.tolist(), M4.tolist())


DO = {"fit": do_fit, "affine": do_affine}


def exec_group(item):
    import json
    import warnings

    from harness.tlabind.pool import progress

    warnings.simplefilter("ignore")
    with open(item["file"]) as f:
        states = json.load(f)
    mism, calls = [], 0
    for k, (case, out) in enumerate(states):
        R = Rec(case, item["lo"] + k)
        progress({"case": case, "variant": R.idx})
        try:
            DO[case[0]](R, case[1], out[0])
        except Exception as e:      # a public call raised on a well-formed input
            if not _from_biotite(e):
                raise
            R.bad("exception", "a result", repr(e))
        mism += R.mm
        calls += R.calls
    return {"mismatch": mism, "calls": calls, "cases": len(states)}


# --------------------------------------------------------------------------- S3 recording
ROT24 = None


def _rot24():
    global ROT24
    if ROT24 is None:
        np = _np()
        import itertools

        ROT24 = []
        for p in itertools.permutations(range(3)):
            for s in itertools.product((1, -1), repeat=3):
                m = np.zeros((3, 3), dtype=int)
                for i in range(3):
                    m[i, p[i]] = s[i]
                ROT24.append(m)      # all 48; the generator only draws motions, TLC judges
    return ROT24


def _points(rng, n, shape):
    if shape == "cloud":
        return [[rng.randint(-4, 4) for _ in range(3)] for _ in range(n)]
    if shape == "line":
        d = rng.choice([[1, 0, 0], [1, 1, 0], [1, 2, -1]])
        return [[t * x for x in d] for t in rng.sample(range(-5, 6), min(n, 11))]
    if shape == "plane":
        return [[rng.randint(-4, 4), rng.randint(-4, 4), 1] for _ in range(n)]
    p = [rng.randint(-2, 2) for _ in range(3)]
    return [p[:] for _ in range(n)]


def _protein(seq, ca, chain="A"):
    np = _np()
    import biotite.structure as struc

    names, res, rid, co = [], [], [], []
    for i, (r, c) in enumerate(zip(seq, ca)):
        for k, nme in enumerate(("N", "CA", "C")):
            names.append(nme)
            res.append(r)
            rid.append(i + 1)
            co.append([c[0] + 0.25 * (k - 1), c[1] + 0.125 * (k - 1), c[2]])
    a = struc.AtomArray(len(names))
    a.atom_name = np.array(names)
    a.res_name = np.array(res)
    a.res_id = np.array(rid)
    a.chain_id = np.array([chain] * len(names))
    a.element = np.array([x[0] for x in names])
    a.coord = np.array(co, dtype=np.float32)
    return a



def _from_biotite(exc):
    """True when the exception was raised inside the library (not in this driver)."""
    import traceback

    frames = traceback.extract_tb(exc.__traceback__)
    return any("biotite" in f.filename and "/harness/" not in f.filename for f in frames)


def _guarded(fn):
    """An exception raised by the library on a well-formed recorded call is a disagreement, not a
    machinery failure; an exception of the driver itself stays a driver error."""
    import functools

    @functools.wraps(fn)
    def wrapper(item):
        try:
            return fn(item)
        except Exception as e:
            if not _from_biotite(e):
                raise
            import traceback

            return {"events": [], "mismatch": [{"kind": "exception", "stage": "S3", "item": item, "error": repr(e),
                                                "where": traceback.format_exc()[-600:]}]}
    return wrapper


@_guarded
def gen_trace(item):
    import warnings

    import biotite.structure as struc

    from harness.tlabind.pool import progress

    np = _np()
    warnings.simplefilter("ignore")
    warmup()
    rng = random.Random(item["seed"])
    G = _rot24()
    events = []

    def motion(P, noise_p):
        g = G[rng.randrange(48)]
        t = [rng.randint(-6, 6) for _ in range(3)]
        out = []
        for p in P:
            q = (g @ np.array(p)).tolist()
            q = [q[i] + t[i] for i in range(3)]
            if rng.random() < noise_p:
                q[rng.randrange(3)] += rng.choice([-1, 1])
            out.append(q)
        return out

    def q_of(msd):
        return int(math.floor(msd * KK + 1e-9))

    for _ in range(item["length"]):
        k = rng.random()
        dt = rng.choice([np.float32, np.float64])
        if k < 0.5:
            n = rng.randint(1, 12)
            P = _points(rng, n, rng.choice(["cloud", "cloud", "line", "plane", "point"]))
            n = len(P)
            fd, md = rng.choice([(0, 0), (0, 2), (0, 3), (1, 0), (2, 2), (3, 3), (1, 2), (2, 0), (2, 3), (3, 1), (0, 1)])
            noise_p = rng.choice([0.0, 0.0, 0.15, 0.4])
            F = [P] + [motion(P, 0.0) for _ in range(max(fd, 1) - 1)]
            M = [motion(P, noise_p) for _ in range(max(md, 1))]
            mask = []
            if rng.random() < 0.4 and n >= 2:
                m = [rng.random() < 0.7 for _ in range(n)]
                if not any(m):
                    m[0] = True
                mask = [m]
            as_atoms = rng.random() < 0.3
            fixed, mobile = shaped(F, fd, dt, as_atoms), shaped(M, md, dt, as_atoms)
            progress({"op": "fit", "F": F, "M": M, "fd": fd, "md": md, "mask": mask})
            ev = {"op": "fit", "F": F, "M": M, "fd": fd, "md": md, "mask": mask}
            try:
                fitted, tr = struc.superimpose(fixed, mobile, **({"atom_mask": np.array(mask[0])} if mask else {}))
            except Exception:
                ev.update(oc="Rejected", rmsd2q=[], sane=True)
                events.append(ev)
                continue
            probs = transform_sanity(tr, mobile, fitted)
            fit = coords(fitted)
            f3 = fit if fit.ndim == 3 else fit[np.newaxis]
            idx = [i for i in range(n) if not mask or mask[0][i]]
            qs = []
            Fm = np.array(F, dtype=float)
            for j in range(f3.shape[0]):
                ref = Fm[j if Fm.shape[0] > 1 else 0]
                qs.append(q_of(float(np.mean(np.sum((f3[j] - ref)[idx] ** 2, axis=-1)))))
            if fit.ndim == 2 and md != 0 or fit.ndim == 3 and md == 0 and max(fd, 1) == 1:
                probs.append("fitted dimensionality differs from mobile")
            ev.update(oc="ok", rmsd2q=qs, sane=not probs, problems=probs)
            events.append(ev)
        elif k < 0.78:
            n = rng.randint(3, 12)
            P = _points(rng, n, "cloud")
            M = motion(P, rng.choice([0.0, 0.1]))
            for _o in range(rng.choice([0, 1, 1, 2])):
                j = rng.randrange(n)
                M[j] = [M[j][i] + rng.choice([-5, 4, 6]) for i in range(3)]
            ma = rng.choice([1, 3, 3, 5])
            kw = {"min_anchors": ma}
            if rng.random() < 0.3:
                kw["max_iterations"] = rng.choice([1, 2, 10])
            progress({"op": "outliers", "F": P, "M": M, "kw": kw})
            fixed, mobile = np.array(P, dtype=dt), np.array(M, dtype=dt)
            try:
                fitted, tr, anch = struc.superimpose_without_outliers(fixed, mobile, **kw)
            except Exception as e:
                events.append({"op": "outliers", "F": P, "M": M, "min_anchors": ma, "anchors": [],
                               "rmsd2q": 0, "sane": False, "problems": [repr(e)], "kw": kw})
                continue
            probs = transform_sanity(tr, mobile, fitted)
            anch = [int(a) for a in anch]
            msd = float(np.mean(np.sum((coords(fitted) - fixed.astype(float))[anch] ** 2, axis=-1))) if anch else 0.0
            events.append({"op": "outliers", "F": P, "M": M, "min_anchors": ma, "anchors": anch,
                           "rmsd2q": q_of(msd), "sane": not probs, "problems": probs, "kw": kw})
        else:
            nres = rng.randint(3, 10)
            seq = [rng.choice(["ALA", "GLY", "SER"]) for _ in range(nres)]
            ca = [[i * 2 + rng.randint(0, 1), rng.randint(-3, 3), rng.randint(-3, 3)] for i in range(nres)]
            seq2, ca2 = seq[:], [c[:] for c in ca]
            edit = rng.random()
            if edit < 0.3 and nres > 3:        # deletion in the mobile chain
                j = rng.randrange(nres)
                del seq2[j], ca2[j]
            elif edit < 0.6:                   # insertion
                j = rng.randrange(nres + 1)
                seq2.insert(j, rng.choice(["ALA", "GLY", "SER"]))
                ca2.insert(j, [rng.randint(-8, 8) for _ in range(3)])
            elif edit < 0.8:                   # substitution
                seq2[rng.randrange(nres)] = rng.choice(["ALA", "GLY", "SER"])
            ca2m = motion(ca2, rng.choice([0.0, 0.0, 0.15]))
            g_all = None
            fx = _protein(seq, ca)
            mo = _protein(seq2, ca2m, chain="B")
            ma = rng.choice([1, 3])
            progress({"op": "homologs", "seq": seq, "seq2": seq2, "F": ca, "M": ca2m})
            try:
                fitted, tr, fi, mi = struc.superimpose_homologs(fx, mo, min_anchors=ma)
            except ValueError:
                continue    # documented refusals (too few anchors); nothing to judge
            except Exception as e:     # any other exception on well-formed input is a failure of the call
                events.append({"op": "homologs", "F": ca, "M": ca2m, "min_anchors": ma, "fa": [], "ma": [],
                               "rmsd2q": 0, "sane": False, "problems": [repr(e)], "seq": seq, "seq2": seq2})
                continue
            probs = transform_sanity(tr, mo, fitted)
            if any(fx.atom_name[i] != "CA" for i in fi) or any(mo.atom_name[i] != "CA" for i in mi):
                probs.append("anchor is not a CA atom")
            fa = [int(i) // 3 + 1 for i in fi]
            mb = [int(i) // 3 + 1 for i in mi]
            dev = fitted.coord[mi].astype(float) - fx.coord[fi].astype(float)
            msd = float(np.mean(np.sum(dev ** 2, axis=-1))) if len(fi) else 0.0
            events.append({"op": "homologs", "F": ca, "M": ca2m, "min_anchors": ma, "fa": fa, "ma": mb,
                           "rmsd2q": q_of(msd), "sane": not probs, "problems": probs, "seq": seq, "seq2": seq2})
    return {"events": events}


# --------------------------------------------------------------------------- verdict plumbing
def classify(mm):
    return None   # no known findings for C16


def replay(record):
    import warnings

    warnings.simplefilter("ignore")
    warmup()
    if record.get("kind") == "case" and record.get("case_kind") in DO:
        return {"error": "re-run `./check C16` to recompute TLC's expected values; the record holds case, call, expected and observed",
                "record": {k: record[k] for k in ("case_kind", "case", "call", "expected", "observed")}, "mismatch": True}
    return {"record": record, "mismatch": True}


def run(ctx):
    import json

    from harness.tlabind import helpers, tlc
    from harness.tlabind.core import Vacuity

    quick = ctx.quick
    ctx.assumptions += [
        "DECIDED: lattice witnesses (RMSD on the fitted atoms <= sqrt(W), W the best of the 24 proper lattice placements, exact rational), proper rotation (orthonormal, det +1), transform consistency (fitted = apply(mobile) = as_matrix form; apply/as_matrix = TLC's affine algebra), broadcasting case analysis (array/stack combinations, counts, shapes, refusals), anchors of the outlier/homolog variants well-formed with the reported fit <= W on exactly those anchors",
        "NOT DECIDED: that no rigid placement is better than the returned one for noisy or non-congruent inputs (optimality below the witness bound W needs singular values); rotations outside the cube group; float rounding beyond the stated tolerances",
        "point sets, translations, perturbations: integers; rigid motions: the 48 signed permutation matrices (24 proper = rigid copies, 24 improper = mirrored copies)",
        "fixed = stack of m>1 models with one mobile model is 'Unspecified' (refusal or model-wise result accepted)",
        "tolerances: RMSD 1e-3 where 0 is expected, msd <= W(1+1e-4)+1e-6 otherwise, 1e-4 on coordinates, 1e-5 on orthonormality/determinant; recorded executions: RMSD^2 <= W + 3e-4",
        "homolog variant: lattice 'proteins' of ALA/GLY/SER residues from the synthetic CCD (/verif/fixtures/ccd), CA atoms on the lattice",
        "trusted: TLC, the TLA+ value parser, numpy",
    ]
    res, states = helpers.dump_states(ctx, "RigidFit", "MC.cfg" if quick else "MC_thorough.cfg",
                                      workers=16, timeout=900 if quick else 3000)
    ctx.exhaustive = True
    done = [(s["vcase"], s["vout"]) for s in states if s["vout"]]
    if 2 * len(done) != res.distinct:
        raise RuntimeError(f"dump has {len(done)} evaluated cases, TLC reported {res.distinct} states")
    done.sort(key=lambda s: json.dumps(s[0], sort_keys=True))
    kinds, ocs, ranks = {}, {}, {}
    zero = pos = whole = 0
    for c, o in done:
        kinds[c[0]] = kinds.get(c[0], 0) + 1
        if c[0] == "fit":
            ocs[o[0][0]] = ocs.get(o[0][0], 0) + 1
            ranks[o[0][7]] = ranks.get(o[0][7], 0) + 1
            for w in o[0][3]:
                zero += w[0] == 0
                pos += w[0] > 0
                whole += bool(w[2])
        else:
            ocs["affine:" + o[0][0]] = ocs.get("affine:" + o[0][0], 0) + 1
    ctx.cov.update(cases_per_kind=kinds, outcomes=ocs, masked_rank=ranks,
                   witness_zero=zero, witness_positive=pos, whole_model_coincidence=whole)
    need = {"ok", "Rejected", "Unspecified", "affine:ok", "affine:Rejected"}
    if not need <= set(ocs) or set(ranks) != {0, 1, 2, 3} or not (zero and pos and whole):
        raise Vacuity(f"families miss an outcome / rank / witness kind: {ocs} {ranks} {zero} {pos} {whole}")
    ctx.cov["rule"] = "a fit case is non-trivial when the rigid motion is not the identity or the witness bound is positive; an affine case when it has a non-identity rotation"
    ctx.nontrivial += sum(1 for c, o in done if (c[0] == "fit" and (c[1][1] != 1 or any(w[0] > 0 for w in o[0][3])))
                          or (c[0] == "affine" and any(g != 1 for g in c[1][1])))
    d = tlc.scratch_dir("c16")
    per = 100
    items = []
    for lo in range(0, len(done), per):
        fn = os.path.join(d, f"s2_{lo}.json")
        with open(fn, "w") as f:
            json.dump(done[lo:lo + per], f)
        items.append({"lo": lo, "file": fn})
    results = helpers.run_pool(ctx, "harness.drivers.c16:exec_group", items, stage="S2", item_timeout=600)
    calls = sum(r.get("calls", 0) for r in results)
    ncases = sum(r.get("cases", 0) for r in results)
    ctx.traces_validated += ncases
    ctx.evaluations += calls
    ctx.cov["s2_cases"] = ncases
    ctx.cov["s2_calls"] = calls
    ctx.sample({"s2_case": done[len(done) // 3][0], "expected": done[len(done) // 3][1][0][:4]})
    ctx.log(f"S2: {ncases} cases, {calls} calls compared with biotite")
    # ---- S3
    ntr = 40 if quick else 2500
    length = 10 if quick else 16
    seeds = [ctx.rng.randrange(1 << 30) for _ in range(ntr)]
    tres = helpers.run_pool(ctx, "harness.drivers.c16:gen_trace", [{"seed": s, "length": length} for s in seeds],
                            stage="S3", item_timeout=180)
    traces = [r["events"] for r in tres if r and r.get("events")]
    keep = ("op", "F", "M", "fd", "md", "mask", "oc", "rmsd2q", "sane", "min_anchors", "anchors", "fa", "ma")
    nmm = 0
    for chunk in helpers.chunked(traces, 350):
        for m in helpers.tlc_validate(ctx, chunk, keep=keep, timeout=1500):
            _tag, tid, l, what, flags, bc, bounds = m
            nmm += 1
            ctx.mismatch({"stage": "S3", "kind": "event", "what": what, "flags": flags, "spec_outcome": bc,
                          "violated_bounds(model,W)": bounds, "event": chunk[tid - 1][l - 1]})
    nev = sum(len(t) for t in traces)
    ctx.traces_validated += len(traces)
    ctx.evaluations += nev
    ops = {op: sum(1 for t in traces for e in t if e["op"] == op) for op in ("fit", "outliers", "homologs")}
    ctx.cov.update(s3_traces=len(traces), s3_events=nev, s3_ops=ops,
                   s3_fit_positive_rmsd=sum(1 for t in traces for e in t if e["op"] == "fit" and any(q > 3 for q in e["rmsd2q"])),
                   s3_anchor_removed=sum(1 for t in traces for e in t if e["op"] == "outliers" and len(e["anchors"]) < len(e["F"])))
    if not all(ops.values()):
        raise Vacuity(f"S3 recorded no event of some kind: {ops}")
    ctx.nontrivial += sum(1 for t in traces if any(e["op"] != "fit" or any(q > 3 for q in e["rmsd2q"]) for e in t))
    ctx.sample({"s3_event": {k: v for k, v in traces[0][0].items() if k in keep}})

    def corrupt(tr):
        for e in tr:
            if e["op"] == "fit" and e["oc"] == "ok" and e["rmsd2q"]:
                e["rmsd2q"][0] += 400 * KK
                return True
            if e["op"] == "outliers" and e["anchors"]:
                e["anchors"][0] = -1
                return True
        return False

    helpers.binding_selftest(ctx, [[{k: e[k] for k in keep if k in e} for e in t] for t in traces], corrupt)
    ctx.log(f"S3: {len(traces)} traces / {nev} events judged by TLC, {nmm} mismatches")
