"""C11 — alignment traces through every conversion; progressive multiple alignment.

Specifications: specs/C11/AlignTrace.tla (conversions, indexing, terminal gaps, identity, score),
Cigar.tla (writer / reader), ProgressiveMsa.tla (forest of groups merged by pairwise traces).

S1  TLC checks the laws on every alignment / option set / CIGAR / merge history in the bounds
    (MCAlign, MCCigar, MCMsa).
S2  the same runs dump (input, expected) states; every one is executed against the real API:
      * MCAlign  -> get_codes / get_symbols / get_gapped_sequences / trace_from_strings /
                    fasta.set_alignment+get_alignment / Alignment.__getitem__ / find_terminal_gaps /
                    remove_terminal_gaps / remove_gaps / identity functions / score
      * MCConv   -> typed alignments (rows of every combination of alphabets, in every order):
                    get_codes / get_symbols / get_gapped_sequences / str() / trace_from_strings /
                    FASTA and back / score over two alphabets / identity; FASTA texts that use
                    '-' and further gap characters mixed, parsed with every value (0..3 characters,
                    every order, tuple / list / str) of additional_gap_chars, written back and
                    parsed again
      * MCCigar  -> write_alignment_to_cigar (string and tuple form) + read back,
                    read_alignment_from_cigar on specification-built CIGARs + write again
      * MCMsa    -> every complete merge history is forced through the real align_multiple
                    (guide tree = merge tree, distance matrix selecting the representatives,
                    multiple.align_optimal rebound to answer with the recorded pairwise traces),
                    for every way of passing equal inputs as one and the same Sequence object
                    (objs); the returned tuple and the caller's objects after the call are
                    judged by TLC (Trace.tla, Post + InputsUnchanged).
S3  seeded random alignments / option sets / CIGARs / sequence sets beyond the bounds are run
    through the real API, logged, and re-computed by TLC (Trace.tla).
"""

from __future__ import annotations

import io
import json
import os
import random
import re

PROPERTY = "C11"

LET = "ACGT"          # symbol code -> letter (NucleotideSequence.alphabet_unamb)
GAP = -1


# --------------------------------------------------------------------------- real-side helpers
def _np():
    import numpy as np

    return np


# token map of AlignConv!Kinds: the real alphabet behind every kind (its symbols are AlignConv!AlphabetOf)
_ALPHABETS = {}


def alphabet_of(kind):
    import biotite.sequence as bs

    if not _ALPHABETS:
        _ALPHABETS.update({"nuc": bs.NucleotideSequence.alphabet_unamb, "amb": bs.NucleotideSequence.alphabet_amb,
                           "prot": bs.ProteinSequence.alphabet, "gen": bs.Alphabet(["T", "G", "C", "A", "W"]),
                           "let": bs.LetterAlphabet("tgca+")})
    return _ALPHABETS[kind]


def mkseq(codes, protein=False, kind=None):
    """Symbol codes -> Sequence of the given kind (AlignConv!Kinds; default nuc / prot)."""
    import biotite.sequence as bs

    np = _np()
    kind = kind or ("prot" if protein else "nuc")
    if kind == "prot":
        s = bs.ProteinSequence()
    elif kind in ("nuc", "amb"):
        s = bs.NucleotideSequence(ambiguous=(kind == "amb"))
    else:
        s = bs.GeneralSequence(alphabet_of(kind))
    s.code = np.array(list(codes), dtype=np.uint8)
    return s


def mkaln(seqs, tr, protein=False, kinds=None):
    import biotite.sequence.align as al

    np = _np()
    trace = np.array(tr, dtype=np.int64).reshape(len(tr), len(seqs))
    return al.Alignment([mkseq(s, protein, kinds[k] if kinds else None) for k, s in enumerate(seqs)], trace)


def proj_seq(s):
    return [int(c) for c in s.code]


def proj_aln(a):
    """Alignment -> (seqs, tr); a trace that is not 2-D is reported as such."""
    np = _np()
    t = np.asarray(a.trace)
    if t.ndim != 2:
        return [proj_seq(s) for s in a.sequences], ["not-2d", list(t.shape)]
    return [proj_seq(s) for s in a.sequences], [[int(x) for x in row] for row in t.tolist()]


def letters_to_codes(s, table):
    return [GAP if ch == "-" else table[ch] for ch in s]


def to_index(x, as_list=False):
    np = _np()
    kind, p = x[0], x[1]
    if kind == "int":
        return int(p[0])
    if kind == "slice":
        a, b, c = [None if len(o) == 0 else int(o[0]) for o in p]
        return slice(a, b, c)
    if kind == "mask":
        return np.array([bool(v) for v in p], dtype=bool)
    if kind == "arr":
        return [int(v) for v in p] if as_list else np.array([int(v) for v in p], dtype=np.int64)
    if kind == "all":
        return slice(None)
    raise ValueError(kind)


def frac_close(val, num, den):
    return abs(float(val) - num / den) <= 1e-9


def call(fn):
    """-> ("ok", value) | ("Rejected", repr(exception))"""
    try:
        return "ok", fn()
    except Exception as e:  # noqa: BLE001  any exception = refusal
        return "Rejected", f"{type(e).__name__}: {e}"


def matrix_for(M, kinds, entries=None):
    """Specification matrix (rows over codes 0..k-1, or entries [a, b, value]; the rest is 0) ->
    SubstitutionMatrix over the alphabets of rows 1 and 2 (two rows) / the common alphabet."""
    import biotite.sequence.align as al

    np = _np()
    a1 = alphabet_of(kinds[0])
    a2 = alphabet_of(kinds[1] if len(kinds) == 2 else kinds[0])
    m = np.zeros((len(a1), len(a2)), dtype=np.int32)
    for i, row in enumerate(M or []):
        for j, v in enumerate(row):
            m[i, j] = v
    for a, b, v in entries or []:
        if a < len(a1) and b < len(a2):
            m[a, b] = v
    return al.SubstitutionMatrix(a1, a2, m)


def uniform(kinds):
    return all(k == kinds[0] for k in kinds)


def str_blocks(text):
    """str(alignment) -> blocks (separated by an empty line) of rows of characters."""
    if text == "":
        return []
    return [[list(line) for line in block.split("\n")] for block in text.split("\n\n")]


def letters_as_codes(rows, letters=None):
    """Rows of characters -> rows of codes of ONE alphabet ('-' = Gap, unknown = -99)."""
    table = {ch: k for k, ch in enumerate(letters or LET)}
    table["-"] = GAP
    return [[table.get(ch, -99) for ch in row] for row in rows]


MODES = ["all", "not_terminal", "shortest"]
SUBST_M = [[2, -1], [-3, 1]]
SCORE_CASES = [[-2, -2, True], [-3, -1, True], [-3, -1, False], [-2, -2, False]]


# --------------------------------------------------------------------------- observations
def observe_helpers(A, M, sc, kinds, names=None, seq_type=None, entries=None):
    """Everything the 'helpers' event / an MCAlign or MCConv "alpha" state compares, from the real
    API.  kinds: AlignConv!Kinds name of every row.  Symbol matrices, gapped strings, str() and the
    sequences read back from FASTA are reported as characters (the specification decodes every row
    with its own alphabet)."""
    import biotite.sequence.align as al
    import biotite.sequence.io.fasta as fasta

    np = _np()
    nrows = len(A.sequences)
    obs = {}
    obs["codes"] = [[int(x) for x in row] for row in al.get_codes(A).tolist()]
    oc, v = call(lambda: al.get_symbols(A))
    obs["symbols"] = [["-" if x is None else str(x) for x in row] for row in v] if oc == "ok" else [["exc", v]]
    gapped = A.get_gapped_sequences()
    obs["gapped"] = [list(g) for g in gapped]
    oc, v = call(lambda: str(A))
    obs["str"] = str_blocks(v) if oc == "ok" else [[["exc", v]]]
    if nrows >= 2:
        oc, t = call(lambda: al.Alignment.trace_from_strings(gapped))
        obs["tfs"] = [[int(x) for x in row] for row in t.tolist()] if oc == "ok" else [[-99]]
    else:
        obs["tfs"] = []
    if len(A.trace) >= 1:
        def through_fasta():
            f = fasta.FastaFile()
            fasta.set_alignment(f, A, names or [f"s{k + 1}" for k in range(nrows)])
            text = str(f)
            g = fasta.FastaFile.read(io.StringIO(text))
            B = fasta.get_alignment(g, seq_type=seq_type)
            return {"seqs": [[str(x) for x in q] for q in B.sequences], "tr": proj_aln(B)[1]}
        oc, v = call(through_fasta)
        obs["fasta"] = v if oc == "ok" else {"seqs": [["exc"]], "tr": [], "exc": v}
    else:
        obs["fasta"] = {"seqs": [], "tr": []}
    oc, v = call(lambda: al.find_terminal_gaps(A))
    obs["term"] = [oc, int(v[0]), int(v[1])] if oc == "ok" else [oc, 0, 0]
    oc, v = call(lambda: al.remove_terminal_gaps(A))
    obs["rterm"] = [oc, proj_aln(v)[1]] if oc == "ok" else [oc, []]
    obs["rgaps"] = proj_aln(al.remove_gaps(A))[1]
    ident = []
    for m in MODES:
        oc, v = call(lambda m=m: al.get_sequence_identity(A, m))
        ident.append([oc, v if oc == "ok" else 0])
    obs["ident_raw"] = ident
    pid = []
    for m in MODES:
        import warnings

        with warnings.catch_warnings():
            warnings.simplefilter("ignore")
            oc, v = call(lambda m=m: al.get_pairwise_sequence_identity(A, m))
        pid.append([oc, v.tolist() if oc == "ok" else []])
    obs["pident_raw"] = pid
    scores = []
    mat = matrix_for(M, kinds, entries) if sc else None
    for go, ge, term in sc:
        gp = int(go) if go == ge else (int(go), int(ge))
        oc, v = call(lambda gp=gp, term=term: al.score(A, mat, gp, bool(term)))
        scores.append([oc, int(v) if oc == "ok" else 0])
    obs["score"] = scores
    return obs


def _rational(x, maxden=4096):
    """float -> [num, den] exactly representable with a small denominator, else [-1, 1]."""
    from fractions import Fraction

    try:
        fr = Fraction(float(x)).limit_denominator(maxden)
    except (ValueError, OverflowError):
        return [-1, 1]
    if abs(float(fr) - float(x)) > 1e-12:
        return [-1, 1]
    return [fr.numerator, fr.denominator]


def index_real(A, cidx, ridx, variant=0):
    """alignment[cidx] / alignment[cidx, ridx] -> [oc, seqs, tr]"""
    def do():
        if ridx[0] == "none":
            return A[to_index(cidx)]
        return A[to_index(cidx), to_index(ridx, as_list=(variant % 2 == 0))]
    oc, v = call(do)
    if oc != "ok":
        return [oc, [], [], v]
    s, t = proj_aln(v)
    return ["ok", s, t]


def _obs_as_codes(obs):
    """MCAlign states hold rows of one alphabet (nuc) and expect codes: characters -> codes."""
    obs["symbols"] = letters_as_codes(obs["symbols"])
    obs["gapped"] = letters_as_codes(obs["gapped"])
    obs["fasta"]["seqs"] = letters_as_codes(obs["fasta"]["seqs"])
    return obs


# --------------------------------------------------------------------------- S2: MCAlign states
def warmup():
    import biotite.sequence.align  # noqa: F401
    import biotite.sequence.io.fasta  # noqa: F401
    import biotite.sequence.phylo  # noqa: F401


_STAGE_OF = {"align": "S2-align", "alpha": "S2-conv", "fasta_r": "S2-conv"}


def _mm(kind, what, inp, exp, got, **kw):
    d = {"kind": kind, "what": what, "input": inp, "expected": exp, "observed": got}
    if kind in _STAGE_OF:
        d["stage"] = _STAGE_OF[kind]
    d.update(kw)
    return d


def _parse_states(texts):
    from harness.tlabind.tlaval import parse_state, to_py

    return [{k: to_py(v) for k, v in parse_state(t).items()} for t in texts]


def exec_align_states(item):
    from harness.tlabind.pool import progress

    mism, ncalls, nontriv = [], 0, 0
    stats = {"rows_absent": 0, "no_overlap": 0}
    states = _parse_states(item["texts"])
    for st in states:
        inp, res = st["inp"], st["res"]
        stats["rows_absent"] += res["term"][0] == "Rejected"
        stats["no_overlap"] += bool(res["dom"]) and res["ident"][1][0] == "Rejected"
        progress({"stage": "S2-align", "inp": inp})
        A = mkaln(inp["seqs"], inp["tr"])
        obs = _obs_as_codes(observe_helpers(A, SUBST_M, SCORE_CASES, ["nuc"] * len(inp["seqs"])))
        ncalls += 15
        nrows, ncols = len(inp["seqs"]), len(inp["tr"])
        if any(GAP in col for col in inp["tr"]) and ncols >= 2:
            nontriv += 1

        def bad(what, exp, got):
            mism.append(_mm("align", what, inp, exp, got))

        for f in ("codes", "symbols", "gapped"):
            if obs[f] != res["codes"]:
                bad(f, res["codes"], obs[f])
        if nrows >= 2 and obs["tfs"] != res["back"]["tr"]:
            bad("trace_from_strings", res["back"]["tr"], obs["tfs"])
        if ncols >= 1 and (obs["fasta"]["seqs"] != res["fasta"]["seqs"] or obs["fasta"]["tr"] != res["fasta"]["tr"]):
            bad("fasta", res["fasta"], obs["fasta"])
        if obs["rgaps"] != res["rgaps"]:
            bad("remove_gaps", res["rgaps"], obs["rgaps"])
        if res["dom"]:
            if obs["term"] != res["term"]:
                bad("find_terminal_gaps", res["term"], obs["term"])
            eoc, etr = res["rterm"]
            goc, gtr = obs["rterm"]
            if eoc == "EmptyOrRejected":
                if not (goc == "Rejected" or (goc == "ok" and gtr == [])):
                    bad("remove_terminal_gaps", res["rterm"], obs["rterm"])
            elif goc != eoc or (eoc == "ok" and gtr != etr):
                bad("remove_terminal_gaps", res["rterm"], obs["rterm"])
            for k, m in enumerate(MODES):
                eoc, num, den = res["ident"][k]
                goc, val = obs["ident_raw"][k]
                if goc != eoc or (eoc == "ok" and not frac_close(val, num, den)):
                    bad("identity:" + m, res["ident"][k], obs["ident_raw"][k])
                if ncols >= 1:
                    eoc, em = res["pident"][k]
                    goc, gm = obs["pident_raw"][k]
                    ok = goc == eoc
                    if ok and eoc == "ok":
                        ok = all(frac_close(gm[i][j], em[i][j][0], em[i][j][1])
                                 for i in range(nrows) for j in range(nrows))
                    if not ok:
                        bad("pairwise_identity:" + m, res["pident"][k], obs["pident_raw"][k])
            for k, c in enumerate(SCORE_CASES):
                eoc, ev = res["score"][k]
                goc, gv = obs["score"][k]
                if goc != eoc or (eoc == "ok" and gv != ev):
                    bad("score:" + json.dumps(c), res["score"][k], obs["score"][k])
        for k, cidx in enumerate(res["idx1c"]):
            got = index_real(A, cidx, ["none", []])
            exp = res["idx1"][k]
            ncalls += 1
            if got[0] != exp[0] or (exp[0] == "ok" and (got[1] != exp[1] or got[2] != exp[2])):
                mism.append(_mm("align", "index1", inp, exp, got, index=[cidx]))
        for k, (cidx, ridx) in enumerate(res["idx2c"]):
            got = index_real(A, cidx, ridx, variant=k)
            exp = res["idx2"][k]
            ncalls += 1
            if got[0] != exp[0] or (exp[0] == "ok" and (got[1] != exp[1] or got[2] != exp[2])):
                mism.append(_mm("align", "index2", inp, exp, got, index=[cidx, ridx]))
    mid = states[len(states) // 2]
    return {"mismatch": mism[:200], "calls": ncalls, "cases": len(states), "nontrivial": nontriv, "stats": stats,
            "sample": {"inp": mid["inp"], "expected_term": mid["res"]["term"], "expected_score": mid["res"]["score"]}}


# --------------------------------------------------------------------------- S2: MCConv states
SCORE_CASES_K = [[-3, -1, True], [-2, -2, False]]          # MCConv!ScoreCases
KINDS = ["nuc", "amb", "prot", "gen", "let"]              # AlignConv!Kinds
ALT_CHARS = "_.~?"                                          # AlignConv!AltChar(k) = -(k + 1) <-> ALT_CHARS[k - 1]


def text_rows(G, letters=None):
    """FASTA token matrix -> strings (code -> letter, Gap -> '-', AltChar(k) -> ALT_CHARS[k - 1])."""
    letters = letters or LET
    return ["".join(letters[x] if x >= 0 else "-" if x == GAP else ALT_CHARS[-x - 2] for x in row) for row in G]


def gap_option(gc, form):
    chars = ["-" if x == GAP else ALT_CHARS[-x - 2] for x in gc]
    return {"tuple": tuple(chars), "list": list(chars), "str": "".join(chars)}[form]


def parse_fasta_real(rows, gc, form, seq_type=None, letters=None, via_text=True):
    """fasta.get_alignment on the text, then set_alignment + get_alignment again with the same option.
    form "default": the option is not passed.  -> ([oc, seqs, tr], [oc, seqs, tr] of the second pass)"""
    import biotite.sequence.io.fasta as fasta

    kw = {} if form == "default" else {"additional_gap_chars": gap_option(gc, form)}
    if seq_type is not None:
        kw["seq_type"] = seq_type
    names = [f"s{k + 1}" for k in range(len(rows))]
    table = {ch: k for k, ch in enumerate(letters or LET)}

    def proj(B):
        return [[table.get(str(x), -99) for x in q] for q in B.sequences], proj_aln(B)[1]

    def first():
        f = fasta.FastaFile()
        for n, r in zip(names, rows):
            f[n] = r
        if via_text:
            f = fasta.FastaFile.read(io.StringIO(str(f)))
        return fasta.get_alignment(f, **kw)
    oc, B = call(first)
    if oc != "ok":
        return [oc, [], [], B], ["none", [], []]
    s, t = proj(B)

    def again():
        f = fasta.FastaFile()
        fasta.set_alignment(f, B, names)
        return fasta.get_alignment(fasta.FastaFile.read(io.StringIO(str(f))), **kw)
    oc2, C = call(again)
    if oc2 != "ok":
        return ["ok", s, t], [oc2, [], [], C]
    s2, t2 = proj(C)
    return ["ok", s, t], ["ok", s2, t2]


def exec_s2_states(item):
    return exec_align_states(item) if item["family"] == "align" else exec_conv_states(item)


def exec_conv_states(item):
    from harness.tlabind.pool import progress

    mism, ncalls, nontriv = [], 0, 0
    stats = {"alpha": 0, "alpha_mixed": 0, "alpha_fasta": 0, "alpha_score": 0, "alpha_ident": 0,
             "fasta_texts": 0, "fasta_cases": 0, "fasta_ok": 0, "fasta_refused": 0, "fasta_multi_char_ok": 0}
    sample = None
    states = _parse_states(item["texts"])
    for st in states:
        inp, res = st["inp"], st["res"]
        progress({"stage": "S2-conv", "inp": inp})
        if inp[0] == "alpha":
            AA = inp[1]
            kinds = AA["kinds"]
            nrows, ncols = len(kinds), len(AA["tr"])
            stats["alpha"] += 1
            stats["alpha_mixed"] += not uniform(kinds)
            A = mkaln(AA["seqs"], AA["tr"], kinds=kinds)
            obs = observe_helpers(A, None, SCORE_CASES_K if res["sdom"] else [], kinds, entries=res["mat"])
            ncalls += 12 + len(obs["score"])
            if not uniform(kinds) and ncols >= 1:
                nontriv += 1
            if sample is None and not uniform(kinds) and ncols >= 2:
                sample = {"inp": inp, "expected_symbols": res["syms"]}

            def bad(what, exp, got):
                mism.append(_mm("alpha", what, AA, exp, got))

            for f, e in (("codes", "codes"), ("symbols", "syms"), ("gapped", "gapped"), ("str", "str"), ("tfs", "tfs")):
                if obs[f] != res[e]:
                    bad({"tfs": "trace_from_strings"}.get(f, f), res[e], obs[f])
            if res["fdom"]:
                stats["alpha_fasta"] += 1
                if [obs["fasta"]["seqs"], obs["fasta"]["tr"]] != res["fasta"]:
                    bad("fasta", res["fasta"], obs["fasta"])
            if res["sdom"]:
                stats["alpha_score"] += 1
                for k, c in enumerate(SCORE_CASES_K):
                    if obs["score"][k] != res["score"][k]:
                        bad("score:" + json.dumps(c), res["score"][k], obs["score"][k])
            if res["idom"]:
                stats["alpha_ident"] += 1
                for k, m in enumerate(MODES):
                    eoc, num, den = res["ident"][k]
                    goc, val = obs["ident_raw"][k]
                    if goc != eoc or (eoc == "ok" and not frac_close(val, num, den)):
                        bad("identity:" + m, res["ident"][k], obs["ident_raw"][k])
                    if ncols >= 1:
                        eoc, em = res["pident"][k]
                        goc, gm = obs["pident_raw"][k]
                        ok = goc == eoc
                        if ok and eoc == "ok":
                            ok = all(frac_close(gm[i][j], em[i][j][0], em[i][j][1])
                                     for i in range(nrows) for j in range(nrows))
                        if not ok:
                            bad("pairwise_identity:" + m, res["pident"][k], obs["pident_raw"][k])
        else:
            G = inp[1]
            rows = text_rows(G)
            stats["fasta_texts"] += 1
            for k, (gc, form, dom, eoc, eseqs, etr) in enumerate(res):
                if not dom:
                    continue            # a column of gap characters only: nothing is promised
                stats["fasta_cases"] += 1
                got, got2 = parse_fasta_real(rows, gc, form, via_text=(k % 2 == 0))
                ncalls += 1
                exp = [eoc, eseqs, etr]
                src = {"text": rows, "tokens": G, "gap_chars": gap_option(gc, form), "form": form, "gc": gc}
                if got[0] != eoc or (eoc == "ok" and got[:3] != exp):
                    mism.append(_mm("fasta_r", "get_alignment", src, exp, got))
                    continue
                if eoc != "ok":
                    stats["fasta_refused"] += 1
                    continue
                stats["fasta_ok"] += 1
                used = {x for row in G for x in row if x <= -2}
                if len(gc) >= 2 and len(used) >= 1:
                    nontriv += 1
                    stats["fasta_multi_char_ok"] += 1
                ncalls += 2
                if got2[:3] != exp:
                    mism.append(_mm("fasta_r", "set_alignment+get_alignment", src, exp, got2))
    return {"mismatch": mism[:200], "calls": ncalls, "cases": len(states), "nontrivial": nontriv, "stats": stats,
            "sample": sample}


# --------------------------------------------------------------------------- S2: MCCigar states
OPCODE = {"M": 0, "I": 1, "D": 2, "N": 3, "S": 4, "H": 5, "P": 6, "=": 7, "X": 8, "B": 9}
OPNAME = {v: k for k, v in OPCODE.items()}
_CIG = re.compile(r"(\d+)([MIDNSHP=XB])")


def cigar_string(ops):
    return "".join(f"{int(n)}{op}" for op, n in ops)


def parse_cigar_string(s):
    out, pos = [], 0
    for m in _CIG.finditer(s):
        if m.start() != pos:
            return ["unparsable", s]
        out.append([m.group(2), int(m.group(1))])
        pos = m.end()
    if pos != len(s):
        return ["unparsable", s]
    return out


def write_real(A, o):
    """-> [oc, ops(tuple form)], ops(string form)"""
    import biotite.sequence.align as al

    kw = dict(reference_index=o["ref"] - 1, segment_index=o["seg"] - 1,
              introns=[(int(a), int(b)) for a, b in o["introns"]],
              distinguish_matches=bool(o["distinguish"]), hard_clip=bool(o["hard"]),
              include_terminal_gaps=bool(o["terminal"]))
    oc1, v1 = call(lambda: al.write_alignment_to_cigar(A, as_string=False, **kw))
    oc2, v2 = call(lambda: al.write_alignment_to_cigar(A, as_string=True, **kw))
    if oc1 != oc2:
        return ["inconsistent", [oc1, oc2]], []
    if oc1 != "ok":
        return [oc1, [], v1], []
    ops = [[OPNAME.get(int(op), f"?{int(op)}"), int(n)] for op, n in _np().asarray(v1).reshape(-1, 2).tolist()]
    return ["ok", ops], parse_cigar_string(v2)


def read_real(c, pos, ref, seg, as_tuples=False):
    import biotite.sequence.align as al

    if as_tuples:
        arg = [(al.CigarOp(OPCODE[op]), int(n)) for op, n in c]
    else:
        arg = cigar_string(c)
    oc, v = call(lambda: al.read_alignment_from_cigar(arg, int(pos), mkseq(ref), mkseq(seg)))
    if oc != "ok":
        return [oc, [], [], v]
    s, t = proj_aln(v)
    return ["ok", s, t]


def exec_cigar_states(item):
    from harness.tlabind.pool import progress

    mism, ncalls, nontriv = [], 0, 0
    stats = {"w": 0, "w_refused": 0, "r": 0, "r_canonical": 0, "r_refused": 0}
    sample = None
    states = _parse_states(item["texts"])
    for n, st in enumerate(states):
        inp, res = st["inp"], st["res"]
        progress({"stage": "S2-cigar", "inp": inp})
        if inp[0] == "w":
            stats["w"] += 1
            stats["w_refused"] += res["oc"] != "ok"
            if sample is None and res["oc"] == "ok" and len(res["ops"]) >= 3:
                sample = {"inp": inp, "expected_ops": res["ops"]}
        else:
            stats["r"] += 1
            stats["r_canonical"] += bool(res["canon"])
            stats["r_refused"] += res["oc"] != "ok"
        if inp[0] == "w":
            _, a, o = inp
            A = mkaln(a["seqs"], a["tr"])
            got, got2 = write_real(A, o)
            ncalls += 2
            if got[0] != res["oc"] or (res["oc"] == "ok" and (got[1] != res["ops"] or got2 != res["ops"])):
                mism.append(_mm("cigar_w", "write", {"A": a, "o": o}, [res["oc"], res["ops"]], [got, got2]))
                continue
            if res["oc"] == "ok" and res["dom"]:
                if len(res["ops"]) >= 2:
                    nontriv += 1
                rb = read_real(res["ops"], res["pos"], a["seqs"][o["ref"] - 1], res["stored"], as_tuples=(n % 2 == 1))
                ncalls += 1
                if rb[:3] != res["back"]:
                    mism.append(_mm("cigar_w", "read_back", {"A": a, "o": o, "pos": res["pos"], "stored": res["stored"],
                                                             "cigar": cigar_string(res["ops"])}, res["back"], rb))
        else:
            _, c, pos, ref, seg = inp
            if not res["fits"] and res["oc"] == "ok":
                continue            # the CIGAR does not fit its sequences: nothing is promised
            got = read_real(c, pos, ref, seg, as_tuples=(n % 2 == 1 and len(c) > 0))
            ncalls += 1
            if got[0] != res["oc"] or (res["oc"] == "ok" and got[2] != res["tr"]):
                mism.append(_mm("cigar_r", "read", {"c": c, "pos": pos, "ref": ref, "seg": seg},
                                [res["oc"], res["tr"]], got))
                continue
            if res["canon"]:
                nontriv += 1
                A = mkaln([ref, seg], res["tr"])
                w, w2 = write_real(A, res["opts"])
                ncalls += 2
                if w[0] != "ok" or w[1] != res["again"] or w2 != res["again"]:
                    mism.append(_mm("cigar_r", "write_again", {"c": c, "pos": pos, "ref": ref, "seg": seg,
                                                               "o": res["opts"]}, res["again"], [w, w2]))
    return {"mismatch": mism[:200], "calls": ncalls, "cases": len(states), "nontrivial": nontriv, "stats": stats,
            "sample": sample}


# --------------------------------------------------------------------------- multiple alignment
def tree_tokens(node):
    """TreeNode -> token list (leaf index >= 0, -1 open, -2 close), children in order."""
    if node.is_leaf():
        return [int(node.index)]
    out = [-1]
    for ch in node.children:
        out += tree_tokens(ch)
    out.append(-2)
    return out


def tree_from_tokens(tokens, base=1):
    """Token list (1-based leaves) -> biotite Tree; every branch length 1."""
    from biotite.sequence.phylo import Tree, TreeNode

    pos = 0

    def parse():
        nonlocal pos
        t = tokens[pos]
        pos += 1
        if t >= 0:
            return TreeNode(index=int(t) - base)
        kids = []
        while tokens[pos] != -2:
            kids.append(parse())
        pos += 1
        return TreeNode(children=kids, distances=[1.0] * len(kids))
    root = parse()
    return Tree(root)


def msa_event_from_result(inputs, res, merges, objs, after):
    """inputs = contents before the call, objs = sharing pattern of the input objects
    (ProgressiveMsa!Dom_Objs), after = contents of the caller's objects after the call."""
    alignment, order, tree, _dist = res
    s, t = proj_aln(alignment)
    toks = tree_tokens(tree.root)
    return {"op": "msa", "inputs": inputs, "objs": objs, "after": after, "merges": merges, "A": {"seqs": s, "tr": t},
            "order": [int(x) for x in order], "leaves": [x for x in toks if x >= 0], "tree": toks}


def no_sharing(n):
    return list(range(1, n + 1))


def shared_objects(inputs, objs, make):
    """One Sequence object per label of objs (label = first position holding the object);
    -> list with the SAME object at every position of a label."""
    made = {}
    out = []
    for k, codes in enumerate(inputs):
        lab = objs[k]
        if lab not in made:
            made[lab] = make(codes)
        out.append(made[lab])
    return out


def _postorder_nodes(tokens):
    """Merge-tree tokens (1-based leaves) -> leaf tuples of the inner nodes in post-order (the
    order in which _progressive_align reaches its align_optimal call)."""
    stack, out = [], []
    for t in tokens:
        if t >= 0:
            stack.append((int(t),))
        elif t == -1:
            stack.append(None)
        else:
            kids = []
            while stack[-1] is not None:
                kids.append(stack.pop())
            stack.pop()
            node = tuple(x for kid in reversed(kids) for x in kid)
            out.append(node)
            stack.append(node)
    return out


def run_forced_msa(lens, hist, final_tree, objs=None):
    """Force the real align_multiple through one behaviour of MCMsa (objs: which positions of
    the input list hold one and the same Sequence object). Returns an 'msa' event."""
    import biotite.sequence as bs
    import biotite.sequence.align as al
    import biotite.sequence.align.multiple as mult

    np = _np()
    alph = bs.Alphabet(list(range(64)))
    n = len(lens)
    objs = [int(x) for x in objs] if objs else no_sharing(n)
    inputs = [[10 * objs[k] + p for p in range(1, lens[k] + 1)] for k in range(n)]

    def make(codes):
        s = bs.GeneralSequence(alph)
        s.code = np.array(codes, dtype=np.uint8)
        return s
    seqs = shared_objects(inputs, objs, make)
    sm = np.full((64, 64), -1, dtype=np.int32)
    np.fill_diagonal(sm, 2)
    matrix = al.SubstitutionMatrix(alph, alph, sm)
    dist = np.full((n, n), 9.0)
    np.fill_diagonal(dist, 0.0)
    # the merge of the history that belongs to every inner node of the guide tree (a node is known
    # by its leaf positions, so shared objects / equal contents cannot be confused), in the
    # order in which the recursion of _progressive_align reaches them
    member, node_merge = {k: (k,) for k in range(1, n + 1)}, {}
    for h in hist:
        a, b = int(h["a"]), int(h["b"])
        dist[a - 1, b - 1] = dist[b - 1, a - 1] = 1.0
        node = member[a] + member[b]
        node_merge[node] = (a, b, h["tr"])
        for m in node:
            member[m] = node
    expected = [node_merge[node] for node in _postorder_nodes(final_tree)]
    positions = {}
    for k in range(n):
        positions.setdefault(objs[k], []).append(k + 1)
    calls = []

    def stub(s1, s2, _matrix, _gap=None, _term=None, max_number=1, **_kw):
        if len(calls) >= len(expected):
            raise RuntimeError("align_optimal called more often than the guide tree has inner nodes")
        a, b, tr = expected[len(calls)]

        def seen_as(s, pos):
            # the representative the code really passed, as far as its content tells (positions
            # sharing one object / content cannot be told apart: the expected one is taken)
            c = [int(x) for x in s.code if int(x) < 64]
            cand = positions.get(c[0] // 10, []) if c else []
            return pos if pos in cand or not cand else cand[0]
        for side, s in ((0, s1), (1, s2)):
            used = sum(1 for col in tr if col[side] != GAP)
            if len(s.code) != used:
                # the rows of the code are not the rows of the machine any more: answering would
                # make _replace_gaps index out of bounds (boundscheck is off)
                raise RuntimeError(f"align_optimal received a row of length {len(s.code)} for input {(a, b)[side]}, "
                                   f"the merge history has {used}")
        calls.append([seen_as(s1, a), seen_as(s2, b), tr])
        return [al.Alignment([s1, s2], np.array(tr, dtype=np.int64).reshape(len(tr), 2), 0)]

    orig = mult.align_optimal
    mult.align_optimal = stub
    try:
        res = al.align_multiple(seqs, matrix, gap_penalty=-1, terminal_penalty=True, distances=dist,
                                guide_tree=tree_from_tokens(final_tree))
    finally:
        mult.align_optimal = orig
    return msa_event_from_result(inputs, res, calls, objs, [proj_seq(x) for x in seqs])


def exec_msa_states(item):
    """One item = many final states of MCMsa -> list of 'msa' events (judged later by TLC) and the
    specification's exact final rows (diagnostic comparison)."""
    from harness.tlabind.pool import progress

    events, diag, errors = [], 0, []
    finals = []
    for s in _parse_states(item["texts"]):
        F = s["F"]
        if len(F) == 1:
            g = F[0]
            order = sorted(range(len(g["idx"])), key=lambda p: g["idx"][p])
            finals.append({"lens": list(s["lens"]), "objs": list(s["objs"]), "hist": s["hist"], "tree": g["tree"],
                           "rows": [g["rows"][p] for p in order]})
    for st in finals:
        progress({"stage": "S2-msa", "lens": st["lens"], "objs": st["objs"], "hist": st["hist"]})
        src = {"lens": st["lens"], "objs": st["objs"], "hist": st["hist"], "tree": st["tree"]}
        try:
            ev = run_forced_msa(st["lens"], st["hist"], st["tree"], st["objs"])
        except Exception as e:  # noqa: BLE001
            errors.append({"kind": "msa_forced", "what": "exception", "input": src, "expected": "ok",
                           "observed": f"{type(e).__name__}: {e}"})
            continue
        ev["src"] = src
        # documented algorithm ("once a gap, always a gap"): exact rows, diagnostic only
        tr = ev["A"]["tr"]
        rows = None
        try:
            if tr and isinstance(tr[0], list):
                rows = [[GAP if col[r] == GAP else ev["inputs"][r][col[r]] for col in tr]
                        for r in range(len(ev["inputs"]))]
        except (IndexError, TypeError):
            rows = None               # not even a trace over the inputs: TLC will reject the event
        if rows != st["rows"]:
            diag += 1
        events.append(ev)
    return {"events": events, "diag_rows_differ": diag, "mismatch": errors, "finals": len(finals)}


# --------------------------------------------------------------------------- S3 generators
def rand_trace(rng, lens, contiguous, maxcols=12):
    """A random valid trace over rows of the given lengths (indices may jump unless contiguous)."""
    R = len(lens)
    last = [-1] * R
    cols = []
    target = rng.randint(0, 12) if maxcols == 12 else rng.randint(71, maxcols)
    while len(cols) < target:
        col = []
        for r in range(R):
            if rng.random() < 0.3:
                col.append(GAP)
                continue
            lo = last[r] + 1
            if lo >= lens[r]:
                col.append(GAP)
                continue
            if last[r] == -1:
                i = rng.randint(0, min(lens[r] - 1, 2)) if rng.random() < 0.3 else 0
            elif contiguous or rng.random() < 0.85:
                i = lo
            else:
                i = rng.randint(lo, min(lens[r] - 1, lo + 2))
            col.append(i)
        if all(x == GAP for x in col):
            if all(last[r] + 1 >= lens[r] for r in range(R)):
                break
            continue
        for r in range(R):
            if col[r] != GAP:
                last[r] = col[r]
        cols.append(col)
    return cols


def rand_index(rng, n):
    k = rng.random()
    if k < 0.45:
        def c(lo, hi):
            return [] if rng.random() < 0.35 else [rng.randint(lo, hi)]
        step = [] if rng.random() < 0.5 else [rng.choice([1, 2, 3])]
        return ["slice", [c(-n - 1, n + 1), c(-n - 1, n + 1), step]]
    if k < 0.65:
        return ["mask", [rng.random() < 0.6 for _ in range(n if rng.random() < 0.9 else n + 1)]]
    if k < 0.9:
        m = rng.randint(0, n)
        arr = sorted(rng.sample(range(n), m)) if n else []
        arr = [p if rng.random() < 0.7 else p - n for p in arr]
        if rng.random() < 0.1:
            arr.append(n)
        return ["arr", arr]
    if k < 0.95:
        return ["int", [rng.randint(0, max(0, n - 1))]]
    return ["all", []]


def gen_s3_trace(item):
    """A seeded batch of events recorded from the real API."""
    from harness.tlabind.pool import progress

    import biotite.sequence.align as al  # noqa: F401

    rng = random.Random(item["seed"])
    events = []
    for _ in range(item["n"]):
        kind = rng.choice(item["kinds"])
        if kind in ("helpers", "index", "cigar_w"):
            R = 2 if (kind == "cigar_w" and rng.random() < 0.7) else rng.randint(2, 5)
            K = rng.choice([2, 4])
            # two rows with more columns than one block of str() holds (the declarative operators of
            # the specification are quadratic in the columns: two rows only)
            long_rows = kind == "helpers" and rng.random() < 0.08
            if long_rows:
                R = 2
            kinds = ["nuc"] * R
            if kind == "helpers":
                # the alphabet of every row (AlignConv!Kinds): one for all rows, or drawn row by row
                u = rng.random()
                if u < 0.35:
                    pass
                elif u < 0.5:
                    kinds = ["prot"] * R
                elif u < 0.6:
                    kinds = [rng.choice(KINDS)] * R
                else:
                    kinds = [rng.choice(KINDS) for _ in range(R)]
            sizes = [len(alphabet_of(k)) for k in kinds]
            wide = [rng.random() < 0.5 for _ in range(R)]   # codes beyond the first K of the alphabet
            seqs = [[rng.randrange(sizes[r] if wide[r] else min(K, sizes[r]))
                     for _ in range(rng.randint(50, 80) if long_rows else rng.randint(1, 10))] for r in range(R)]
            tr = rand_trace(rng, [len(s) for s in seqs], contiguous=(kind == "cigar_w" or long_rows or rng.random() < 0.5),
                            maxcols=120 if long_rows else 12)
            A = mkaln(seqs, tr, kinds=kinds)
            a = {"seqs": seqs, "tr": tr}
            progress({"stage": "S3", "kind": kind, "A": a, "kinds": kinds})
        if kind == "helpers":
            import biotite.sequence as bs

            if R == 2 or uniform(kinds):
                n1 = max(seqs[0] if R == 2 else [x for q in seqs for x in q]) + 1
                n2 = max(seqs[1] if R == 2 else [x for q in seqs for x in q]) + 1
                M = [[rng.randint(-3, 3) for _ in range(n2)] for _ in range(n1)]
                sc = [[-rng.randint(1, 4), -rng.randint(1, 4), rng.random() < 0.5] for _ in range(2)]
                sc.append([sc[0][0], sc[0][0], True])
            else:
                M, sc = [], []            # Dom_ScoreKinds: no matrix fits three rows of different alphabets
            seq_type = None
            if uniform(kinds) and kinds[0] in ("nuc", "amb", "prot") and rng.random() < 0.5:
                seq_type = bs.ProteinSequence if kinds[0] == "prot" else bs.NucleotideSequence
            obs = observe_helpers(A, M, sc, kinds, seq_type=seq_type)
            obs["ident"] = [[oc] + (_rational(v) if oc == "ok" else [0, 1]) for oc, v in obs.pop("ident_raw")]
            obs["pident"] = [[oc, [[_rational(x) for x in row] for row in m]] for oc, m in obs.pop("pident_raw")]
            obs["fasta"].pop("exc", None)
            events.append({"op": "helpers", "A": a, "kinds": kinds, "M": M, "sc": sc,
                           "seq_type": seq_type.__name__ if seq_type else "auto", "obs": obs})
        elif kind == "fasta_r":
            import biotite.sequence as bs

            R, m = rng.randint(2, 5), rng.randint(1, 12)
            protein = rng.random() < 0.3
            letters = "ACDE" if protein else LET
            form = rng.choice(["tuple", "list", "str", "default"])
            if form == "default":
                gc = [-2]
            else:
                gc = rng.sample([-2, -3, -4, -5], rng.choice([0, 1, 2, 2, 3, 3, 4]))
                if rng.random() < 0.15:
                    gc.insert(rng.randint(0, len(gc)), GAP)         # '-' listed among the further characters
            declared = [x for x in gc if x <= -2]
            G = [[0] * m for _ in range(R)]
            for c in range(m):
                keep = rng.randrange(R)                            # no column of gap characters only
                for r in range(R):
                    u = rng.random()
                    if r == keep or u < 0.55:
                        G[r][c] = rng.randrange(4)
                    elif u < 0.7:
                        G[r][c] = GAP
                    elif declared and rng.random() < 0.85:
                        G[r][c] = rng.choice(declared)
                    else:
                        G[r][c] = rng.choice([-2, -3, -4, -5])
            seq_type = rng.choice([None, bs.ProteinSequence if protein else bs.NucleotideSequence])
            rows = text_rows(G, letters)
            progress({"stage": "S3", "kind": kind, "rows": rows, "gc": gc, "form": form})
            got, got2 = parse_fasta_real(rows, gc, form, seq_type, letters, via_text=rng.random() < 0.5)
            events.append({"op": "fasta_r", "G": G, "gc": gc, "form": form, "protein": protein, "text": rows,
                           "seq_type": seq_type.__name__ if seq_type else "auto", "obs": got[:3], "obs2": got2[:3]})
        elif kind == "index":
            cidx = rand_index(rng, len(tr))
            if rng.random() < 0.5:
                ridx = ["none", []]
            else:
                ridx = rand_index(rng, R)
                if cidx[0] not in ("slice", "all") and ridx[0] not in ("slice", "all"):
                    ridx = ["all", []]          # Dom_Index2
            got = index_real(A, cidx, ridx, variant=rng.randrange(2))
            if got[0] == "ok" and got[2] and got[2][0] == "not-2d":
                got = ["ok-not-2d", got[1], []]
            events.append({"op": "index", "A": a, "cidx": cidx, "ridx": ridx, "obs": got[:3]})
        elif kind == "cigar_w":
            ref, seg = rng.sample(range(1, R + 1), 2)
            introns = []
            if rng.random() < 0.4:
                # deletions of the window that may be declared introns (driver-side input choice)
                dels = [col[ref - 1] for col in tr if col[seg - 1] == GAP and col[ref - 1] != GAP]
                if dels and rng.random() < 0.8:
                    s0 = rng.choice(dels)
                    introns = [[s0, s0 + rng.randint(1, 2)]]
                else:
                    introns = [[rng.randint(0, 4), rng.randint(0, 6)]]
            o = {"ref": ref, "seg": seg, "introns": introns, "distinguish": rng.random() < 0.5,
                 "hard": rng.random() < 0.4, "terminal": rng.random() < 0.4}
            got, got2 = write_real(A, o)
            ev = {"op": "cigar_w", "A": a, "o": o, "obs": got[:2], "obs2": got2, "pos": 0, "stored": [],
                  "back": ["none", [], []]}
            if got[0] == "ok":
                # inputs of the read-back as a user would derive them: POS = first reference
                # position of the written window, stored segment = segment without hard clips
                segcols = [c for c, col in enumerate(tr) if col[seg - 1] != GAP]
                lo, hi = (0, len(tr) - 1) if o["terminal"] else (segcols[0], segcols[-1])
                refs = [tr[c][ref - 1] for c in range(lo, hi + 1) if tr[c][ref - 1] != GAP]
                ev["pos"] = refs[0] if refs else 0
                sq = seqs[seg - 1]
                if o["hard"]:
                    sq = sq[tr[segcols[0]][seg - 1]: tr[segcols[-1]][seg - 1] + 1]
                ev["stored"] = sq
                ev["back"] = read_real(got[1], ev["pos"], seqs[ref - 1], sq, as_tuples=rng.random() < 0.5)[:3]
            events.append(ev)
        elif kind == "cigar_r":
            c = []
            for _k in range(rng.randint(0, 8)):
                c.append([rng.choice("MMMIDNS=XHHP"), rng.randint(1, 4)])
            pos = rng.randint(0, 5)
            rs = sum(n for op, n in c if op in "M=XDN")
            ss = sum(n for op, n in c if op in "M=XIS")
            ref = [rng.randrange(4) for _ in range(pos + rs + rng.randint(0, 2))]
            seg = [rng.randrange(4) for _ in range(ss + rng.randint(0, 2))]
            progress({"stage": "S3", "kind": kind, "c": c, "pos": pos})
            got = read_real(c, pos, ref, seg, as_tuples=(rng.random() < 0.5 and len(c) > 0))
            events.append({"op": "cigar_r", "c": c, "pos": pos, "ref": ref, "seg": seg, "obs": [got[0], got[2]]})
        elif kind == "msa":
            events.append(observe_msa(rng))
    refused = sum(1 for e in events if e == "refused")
    return {"events": [e for e in events if isinstance(e, dict)], "refused": refused}


def exec_msa_observed(item):
    """Every input set of MCMsaObs through the real align_multiple (default distances / tree)."""
    events, refused = [], 0
    for inputs, objs in item["sets"]:
        ev = run_observed_msa([list(s) for s in inputs], False, -10, True, {}, objs=list(objs))
        if ev == "refused":
            refused += 1
        else:
            events.append(ev)
    return {"events": events, "refused": refused}


def observe_msa(rng):
    """Run the real align_multiple on a random sequence set, spying on multiple.align_optimal."""
    import biotite.sequence as bs
    import biotite.sequence.align as al
    import biotite.sequence.align.multiple as mult
    from harness.tlabind.pool import progress

    np = _np()
    n = rng.randint(2, 8)
    style = rng.choice(["identical", "related", "unrelated", "len1", "related", "duplicates"])
    protein = rng.random() < 0.4
    K = 20 if protein else 4
    base = [rng.randrange(K) for _ in range(rng.randint(1, 12))]
    inputs = []
    pool_ = []                  # style "duplicates": a few related sequences, each drawn several times
    for _ in range(n):
        if style == "identical":
            s = list(base)
        elif style == "duplicates" and len(pool_) >= 2 and rng.random() < 0.6:
            s = list(rng.choice(pool_))
        elif style == "len1":
            s = [rng.randrange(K)] if rng.random() < 0.6 else list(base)
        elif style == "unrelated":
            s = [rng.randrange(K) for _ in range(rng.randint(1, 12))]
        else:
            s = []
            for x in base:
                r = rng.random()
                if r < 0.12:
                    continue
                s.append(x if r < 0.85 else rng.randrange(K))
                if r > 0.95:
                    s.append(rng.randrange(K))
            s = s or [rng.randrange(K)]
            pool_.append(s)
        inputs.append(s)
    # equal sequences may be passed as one and the same object (Dom_Objs: label = first position)
    objs = no_sharing(n)
    if rng.random() < 0.5:
        for k in range(n):
            same = [j for j in range(k) if inputs[j] == inputs[k]]
            if same and rng.random() < 0.75:
                objs[k] = objs[rng.choice(same)]
    gap = rng.choice([-10, -5, (-10, -1), (-6, -2)])
    term = rng.random() < 0.7
    kw = {}
    mode = rng.random()
    if mode < 0.25:
        d = np.zeros((n, n))
        for i in range(n):
            for j in range(i):
                d[i, j] = d[j, i] = rng.randint(1, 6)
        kw["distances"] = d
    elif mode < 0.4:
        # a user guide tree (may be non-binary: align_multiple converts it)
        from biotite.sequence.phylo import Tree, TreeNode

        nodes = [TreeNode(index=i) for i in range(n)]
        rng.shuffle(nodes)
        while len(nodes) > 1:
            k = min(len(nodes), rng.choice([2, 2, 3]))
            kids, nodes = nodes[:k], nodes[k:]
            nodes.append(TreeNode(children=kids, distances=[1.0] * k))
            rng.shuffle(nodes)
        kw["guide_tree"] = Tree(nodes[0])
        d = np.ones((n, n)) - np.eye(n)
        kw["distances"] = d
    return run_observed_msa(inputs, protein, gap, term, kw, objs=objs)


def run_observed_msa(inputs, protein, gap, term, kw, objs=None):
    """Real align_multiple with a spy on multiple.align_optimal -> 'msa' event, 'msa_exc' event,
    or "refused" (documented ValueError of the distance computation).  objs: sharing pattern of
    the input objects (None = every input its own object)."""
    import biotite.sequence.align as al
    import biotite.sequence.align.multiple as mult
    from harness.tlabind.pool import progress

    n = len(inputs)
    objs = [int(x) for x in objs] if objs else no_sharing(n)
    seqs = shared_objects(inputs, objs, lambda codes: mkseq(codes, protein))
    matrix = al.SubstitutionMatrix.std_protein_matrix() if protein else al.SubstitutionMatrix.std_nucleotide_matrix()
    progress({"stage": "msa", "inputs": inputs, "objs": objs, "gap": gap, "term": term, "mode": sorted(kw)})
    seen = []
    orig = mult.align_optimal

    def spy(s1, s2, *a, **k):
        r = orig(s1, s2, *a, **k)
        seen.append((s1, s2, [[int(x) for x in row] for row in r[0].trace.tolist()]))
        return r

    mult.align_optimal = spy
    try:
        oc, res = call(lambda: al.align_multiple(seqs, matrix, gap, term, **kw))
    finally:
        mult.align_optimal = orig
    meta = {"gap": list(gap) if isinstance(gap, tuple) else gap, "term": term, "protein": protein, "mode": sorted(kw)}
    if oc != "ok":
        if res.startswith("ValueError") and "distances" not in kw:
            # documented refusal: the Feng-Doolittle distance cannot be computed for (nearly)
            # unrelated sequences ("randomized alignment scores better" / infinite distance)
            return "refused"
        return dict({"op": "msa_exc", "inputs": inputs, "exc": res}, **meta)
    alignment = res[0]
    owner = {id(s): k + 1 for k, s in enumerate(alignment.sequences)}
    # distance-matrix phase: exactly n (n + 1) / 2 alignments of the inputs themselves come first
    # (none when `distances` is given); what follows are the merges.  (Not told apart by object
    # identity: whether the rows of the merges are the caller's objects is what is being checked.)
    ndist = 0 if "distances" in kw else n * (n + 1) // 2
    merges = []
    for s1, s2, tr in seen[ndist:]:
        if id(s1) not in owner or id(s2) not in owner:
            merges = []
            break
        merges.append([owner[id(s1)], owner[id(s2)], tr])
    ev = msa_event_from_result(inputs, res, merges, objs, [proj_seq(x) for x in seqs])
    ev.update(meta)
    return ev


# --------------------------------------------------------------------------- classification / replay
def classify(mm):
    """C11-msa-identical-homopolymers-zero-division: align_multiple with default distances on a
    set that contains two identical one-symbol-repeated sequences raises ZeroDivisionError.
    The predicate value comes from the specification (KB_C11_IdenticalHomopolymers, printed by
    Trace.tla)."""
    # C11-int-index-malformed-alignment: alignment[int] returns an object with a 1-D trace
    if mm.get("kind") == "align" and mm.get("what") == "index1":
        idx = mm.get("index") or [[None]]
        if idx[0][0] == "int" and mm["expected"][0] == "Rejected" and mm["observed"][0] == "ok" \
                and mm["observed"][2][:1] == ["not-2d"]:
            return "C11-int-index-malformed-alignment"
    if mm.get("kind") == "event" and mm.get("op") == "index":
        ev = mm.get("event", {})
        exp = mm.get("expected") or []
        if (ev.get("cidx", [None])[0] == "int" and ev.get("ridx", [None])[0] == "none" and len(exp) == 4
                and exp[0] == "Rejected" and exp[3] is True and ev.get("obs", [None])[0] == "ok-not-2d"):
            return "C11-int-index-malformed-alignment"
    if mm.get("kind") == "event" and mm.get("op") == "msa_exc":
        ev = mm.get("event", {})
        exp = mm.get("expected") or {}
        if (str(ev.get("exc", "")).startswith("ZeroDivisionError") and exp.get("kb") is True
                and "distances" not in ev.get("mode", [])):
            return "C11-msa-identical-homopolymers-zero-division"
    return None


def replay(record):
    """Re-execute one stored mismatch against the current code."""
    kind = record.get("kind")
    if kind == "align":
        inp = record["input"]
        A = mkaln(inp["seqs"], inp["tr"])
        what = record["what"]
        if what.startswith("index"):
            idx = record["index"]
            got = index_real(A, idx[0], idx[1] if len(idx) > 1 else ["none", []])
            exp = record["expected"]
            return {"observed": got, "expected": exp,
                    "mismatch": got[0] != exp[0] or (exp[0] == "ok" and got[1:3] != exp[1:3])}
        obs = _obs_as_codes(observe_helpers(A, SUBST_M, SCORE_CASES, ["nuc"] * len(inp["seqs"])))
        return {"observed": obs, "expected": record["expected"], "what": what,
                "mismatch": _still_differs(what, record["expected"], obs)}
    if kind == "alpha":
        AA = record["input"]
        A = mkaln(AA["seqs"], AA["tr"], kinds=AA["kinds"])
        what = record["what"]
        # score records need the matrix of the state: re-run the check for them
        obs = observe_helpers(A, None, [], AA["kinds"])
        key = {"symbols": "symbols", "gapped": "gapped", "str": "str", "codes": "codes", "trace_from_strings": "tfs"}.get(what)
        if key:
            return {"observed": obs[key], "expected": record["expected"], "what": what,
                    "mismatch": obs[key] != record["expected"]}
        if what == "fasta":
            got = [obs["fasta"]["seqs"], obs["fasta"]["tr"]]
            return {"observed": got, "expected": record["expected"], "mismatch": got != record["expected"]}
        if what.split(":")[0] in ("identity", "pairwise_identity"):
            return {"observed": obs, "expected": record["expected"], "what": what,
                    "mismatch": _still_differs(what, record["expected"], obs)}
        return {"error": "re-run the check for this record", "record": record}
    if kind == "fasta_r":
        src = record["input"]
        got, got2 = parse_fasta_real(src["text"], src["gc"], src["form"])
        g = got if record["what"] == "get_alignment" else got2
        exp = record["expected"]
        return {"observed": g, "expected": exp, "mismatch": g[0] != exp[0] or (exp[0] == "ok" and g[:3] != exp)}
    if kind == "cigar_w":
        inp = record["input"]
        A = mkaln(inp["A"]["seqs"], inp["A"]["tr"])
        if record["what"] == "write":
            got, got2 = write_real(A, inp["o"])
            exp = record["expected"]
            return {"observed": [got, got2], "expected": exp,
                    "mismatch": got[0] != exp[0] or (exp[0] == "ok" and (got[1] != exp[1] or got2 != exp[1]))}
        c = parse_cigar_string(inp["cigar"])
        rb = read_real(c, inp["pos"], inp["A"]["seqs"][inp["o"]["ref"] - 1], inp["stored"])
        return {"observed": rb, "expected": record["expected"], "mismatch": rb[:3] != record["expected"]}
    if kind == "cigar_r":
        inp = record["input"]
        if record["what"] == "read":
            got = read_real(inp["c"], inp["pos"], inp["ref"], inp["seg"])
            exp = record["expected"]
            return {"observed": got, "expected": exp,
                    "mismatch": got[0] != exp[0] or (exp[0] == "ok" and got[2] != exp[1])}
        got = read_real(inp["c"], inp["pos"], inp["ref"], inp["seg"])
        A = mkaln([inp["ref"], inp["seg"]], got[2])
        w, w2 = write_real(A, inp["o"])
        return {"observed": [w, w2], "expected": record["expected"],
                "mismatch": w[0] != "ok" or w[1] != record["expected"] or w2 != record["expected"]}
    if kind == "msa_forced":
        src = record["input"]
        try:
            ev = run_forced_msa(src["lens"], src["hist"], src["tree"], src.get("objs"))
            return {"observed": ev, "mismatch": False, "note": "no exception now; validate with TLC via the check"}
        except Exception as e:  # noqa: BLE001
            return {"observed": f"{type(e).__name__}: {e}", "mismatch": True}
    if kind == "event":
        ev = record["event"]
        if ev["op"] == "msa" and "src" in ev:
            new = run_forced_msa(ev["src"]["lens"], ev["src"]["hist"], ev["src"]["tree"], ev["src"].get("objs"))
            same = all(new[k] == ev[k] for k in ("A", "order", "leaves", "after"))
            return {"observed": new, "recorded": {k: ev[k] for k in ("A", "order", "leaves", "after")},
                    "mismatch": same, "note": "mismatch=True means the recorded (rejected) output is reproduced"}
        return {"error": "event records are re-validated by running the check (TLC judges them)", "event": ev}
    return {"error": "unknown record kind", "record": record}


def _still_differs(what, exp, obs):
    key = what.split(":")[0]
    table = {"codes": "codes", "symbols": "symbols", "gapped": "gapped", "trace_from_strings": "tfs",
             "remove_gaps": "rgaps", "find_terminal_gaps": "term", "fasta": "fasta"}
    if key in table:
        got = obs[table[key]]
        if key == "trace_from_strings":
            return got != exp
        return got != exp
    if key == "remove_terminal_gaps":
        return obs["rterm"] != exp and not (exp[0] == "EmptyOrRejected")
    if key == "identity":
        k = MODES.index(what.split(":")[1])
        goc, val = obs["ident_raw"][k]
        return goc != exp[0] or (exp[0] == "ok" and not frac_close(val, exp[1], exp[2]))
    if key == "pairwise_identity":
        k = MODES.index(what.split(":")[1])
        goc, gm = obs["pident_raw"][k]
        if goc != exp[0]:
            return True
        return exp[0] == "ok" and not all(frac_close(gm[i][j], exp[1][i][j][0], exp[1][i][j][1])
                                          for i in range(len(gm)) for j in range(len(gm)))
    if key == "score":
        c = json.loads(what.split(":", 1)[1])
        k = SCORE_CASES.index(c)
        return obs["score"][k] != exp
    return True


# --------------------------------------------------------------------------- orchestration
def _dump_texts(ctx, module, cfg, stage, must_contain=None):
    """Run TLC with -dump and return the raw text of every state (optionally only those that
    contain a marker); parsing happens in the pool children, in parallel."""
    from harness.tlabind import tlc as T

    d = T.scratch_dir("c11dump")
    prefix = os.path.join(d, "states")
    res = ctx.tlc(module, cfg, stage=stage, dump=prefix, timeout=1500)
    path = prefix + ".dump" if os.path.exists(prefix + ".dump") else prefix
    texts, cur = [], []
    with open(path) as f:
        for line in f:
            if line.startswith("State ") and line.rstrip().endswith(":"):
                if cur:
                    texts.append("".join(cur))
                cur = []
            else:
                cur.append(line)
    if cur:
        texts.append("".join(cur))
    texts = [t.strip() for t in texts if t.strip()]
    if must_contain:
        texts = [t for t in texts if must_contain in t]
    texts.sort()          # TLC's dump order depends on worker scheduling; the check must not
    return res, texts


def _validate(ctx, traces, stage, selftest=False):
    """TLC judges recorded events; returns (mismatch tuples, diag tuples)."""
    from harness.tlabind import tlc as T
    from harness.tlabind.tlaval import parse_value, to_py

    if not traces:
        return [], []
    d = T.scratch_dir("c11tr")
    tf = os.path.join(d, "traces.json")
    drop = ("src", "exc", "gap", "term", "protein", "mode", "text", "seq_type")
    with open(tf, "w") as f:
        json.dump([[{k: v for k, v in e.items() if k not in drop} for e in tr] for tr in traces], f)
    res = ctx.tlc("Trace", "Trace.cfg", stage=stage, workers=1 if len(traces) < 8 else 4,
                  env={"TRACE_FILE": tf}, count=not selftest, timeout=1500)
    expect = sum(len(t) + 1 for t in traces)
    if res.distinct != expect:
        raise RuntimeError(f"C11 {stage}: trace validation visited {res.distinct} states, expected {expect}")
    mms = [to_py(parse_value(x)) for x in T.printed_values(res.out, "MISMATCH")]
    dgs = [to_py(parse_value(x)) for x in T.printed_values(res.out, "DIAG")]
    return mms, dgs


HELPER_FLAGS = ["input_valid", "codes/gapped/symbols/str", "trace_from_strings", "fasta", "find_terminal_gaps",
                "remove_terminal_gaps", "remove_gaps", "identity", "pairwise_identity", "score"]
FLAGS = {"helpers": HELPER_FLAGS, "index": ["outcome", "result", "valid_trace"],
         "fasta_r": ["outcome", "sequences_and_valid_trace", "written_and_parsed_again"],
         "cigar_w": ["outcome", "ops", "readback_inputs", "read_back"], "cigar_r": ["outcome", "trace"],
         "msa_exc": ["no_exception"],
         "msa": ["one_row_per_input_in_order", "valid_trace", "gap_stripped_rows_are_inputs", "order_is_permutation",
                 "tree_has_every_input_once", "input_objects_unchanged", "sharing_pattern_valid"]}


def _report(ctx, traces, mms, stage):
    n = 0
    seen = set()
    for m in mms:
        _tag, tid, l, flags, exp = m[:5]
        if (tid, l) in seen:
            continue
        seen.add((tid, l))
        e = traces[tid - 1][l - 1]
        names = FLAGS.get(e["op"], [])
        failed = [names[k] if k < len(names) else str(k) for k, ok in enumerate(flags) if not ok]
        if e["op"] == "cigar_w" and failed == ["readback_inputs"]:
            raise RuntimeError(f"C11 {stage}: driver chose read-back inputs that differ from the specification: {e}")
        if e["op"] == "msa" and "sharing_pattern_valid" in failed:
            raise RuntimeError(f"C11 {stage}: driver built a sharing pattern outside Dom_Objs: {e['inputs']} {e['objs']}")
        ctx.mismatch({"stage": stage, "kind": "event", "op": e["op"], "failed": failed, "expected": exp, "event": e})
        n += 1
    return n


def run(ctx):
    from harness.tlabind import helpers, pool
    from harness.tlabind.core import Vacuity

    quick = ctx.quick
    ctx.assumptions += [
        "Dom_RowsPresent: terminal-gap / identity / score helpers are compared only on alignments in which every row has a symbol",
        "Dom_Index1/2: bare integers are not alignment indices; at most one of (column index, row index) is an index array or mask",
        "Dom_CigarTrace: reference and segment rows advance by one inside the written window (a CIGAR cannot express a jump); the segment has an aligned base",
        "Dom_CigarFits: spec-built CIGARs have positive lengths and fit their sequences; P and B are documented as not implemented (Rejected)",
        "Dom_Gapped / Dom_Names / Dom_FastaText: FASTA alignments have >= 1 column, equal-length rows, distinct headers, no column of gap characters only; symbols are compared as letters; Dom_FastaStable: only letters that get_alignment hands back unchanged (upper case, valid for its type guess, not U/O/X)",
        "Dom_Kinds: rows may have different alphabets (nuc, amb, prot, a plain Alphabet, a lower-case LetterAlphabet), all with single-character symbols and without '-'; Dom_ScoreKinds: score() is compared for two rows (matrix over the two alphabets) or rows of one alphabet; Dom_CodesMeanSymbols: identity helpers are compared where equal codes mean equal symbols in every column",
        "additional_gap_chars: single characters that are not symbols ('_', '.', '~', '?', possibly '-' itself); a further gap character that the option does not declare is refused (any exception)",
        "score(): for more than two rows the code's definition is taken (sum of pairs + one gap penalty per row)",
        "remove_terminal_gaps with an empty overlap (start = stop): empty alignment or exception both accepted",
        "align_multiple: verdict = postcondition of the property (rows, order permutation, tree leaves) for every way of passing equal sequences as one object (Dom_Objs), and the caller's sequence objects hold the same symbols after the call; exact gap placement of the documented algorithm is a diagnostic",
        "floats: identities compared with 1e-9; scores are integers",
        "trusted: TLC, the TLA+ value parser, the projections proj_aln / tree_tokens, numpy",
    ]
    ctx.cov["rule"] = ("non-trivial = alignment with >= 2 columns and a gap (helpers/index), CIGAR with >= 2 operations "
                       "or in the writer's image (cigar), merge history with >= 2 merges or a gapped pairwise trace (msa)")
    tier = "" if quick else "_thorough"
    # ---------------------------------------------------------------- MCAlign: S1 + S2
    res, texts = _dump_texts(ctx, "MCAlign", f"MC{tier}.cfg", "S1-align", must_contain="phase = 1")
    if not texts:
        raise Vacuity("MCAlign produced no computed states")
    ctx.exhaustive = True
    res, ctexts = _dump_texts(ctx, "MCConv", f"MCConv{tier}.cfg", "S1-conv", must_contain="phase = 1")
    # one pool for both families (a pool start costs more than the calls); the FASTA texts (48 parses
    # each) are spread over the items
    nconv = max(1, len(ctexts) // 40)
    items = ([{"family": "align", "texts": ch} for ch in helpers.chunked(texts, 60)]
             + [{"family": "conv", "texts": ctexts[k::nconv]} for k in range(nconv)])
    order = list(range(len(items)))
    random.Random(0).shuffle(order)                      # even load per pool process; fixed order
    shuffled = helpers.run_pool(ctx, "harness.drivers.c11:exec_s2_states", [items[k] for k in order],
                                stage="S2-align/conv", item_timeout=300)
    allres = [None] * len(items)
    for k, r in zip(order, shuffled):
        allres[k] = r
    results = [r for it, r in zip(items, allres) if it["family"] == "align"]
    cresults = [r for it, r in zip(items, allres) if it["family"] == "conv"]
    ncases = sum(r.get("cases", 0) for r in results)
    ctx.traces_validated += ncases
    ctx.evaluations += sum(r.get("calls", 0) for r in results)
    ctx.nontrivial += sum(r.get("nontrivial", 0) for r in results)
    ctx.cov["s2_align_cases"] = ncases
    rej = sum(r.get("stats", {}).get("rows_absent", 0) for r in results)
    noover = sum(r.get("stats", {}).get("no_overlap", 0) for r in results)
    ctx.cov["s2_align_rows_absent"] = rej
    ctx.cov["s2_align_no_overlap"] = noover
    if noover == 0 or rej == 0:
        raise Vacuity("MCAlign: refusal outcomes (row without symbols / no overlap) never occurred")
    ctx.sample({"s2_align": results[len(results) // 2].get("sample")})
    ctx.log(f"S2-align: {ncases} alignments executed")
    # ---------------------------------------------------------------- MCConv: S2 results
    results = cresults
    keys = ("alpha", "alpha_mixed", "alpha_fasta", "alpha_score", "alpha_ident", "fasta_texts", "fasta_cases",
            "fasta_ok", "fasta_refused", "fasta_multi_char_ok")
    st = {k: sum(r.get("stats", {}).get(k, 0) for r in results) for k in keys}
    ctx.cov.update({"s2_conv_" + k: v for k, v in st.items()})
    if min(st.values()) == 0:
        raise Vacuity(f"MCConv: an input or outcome class never occurred: {st}")
    ctx.traces_validated += sum(r.get("cases", 0) for r in results)
    ctx.evaluations += sum(r.get("calls", 0) for r in results)
    ctx.nontrivial += sum(r.get("nontrivial", 0) for r in results)
    ctx.sample({"s2_conv": next((r["sample"] for r in results if r.get("sample")), None)})
    ctx.log(f"S2-conv: {st['alpha']} typed alignments ({st['alpha_mixed']} with rows of different alphabets), "
            f"{st['fasta_texts']} FASTA texts x option values = {st['fasta_cases']} parses "
            f"({st['fasta_ok']} accepted, {st['fasta_multi_char_ok']} of them with >= 2 declared characters and one in use)")
    # ---------------------------------------------------------------- MCCigar: S1 + S2
    res, texts = _dump_texts(ctx, "MCCigar", f"MCCigar{tier}.cfg", "S1-cigar", must_contain="phase = 1")
    items = [{"texts": ch} for ch in helpers.chunked(texts, 150)]
    results = helpers.run_pool(ctx, "harness.drivers.c11:exec_cigar_states", items, stage="S2-cigar", item_timeout=120)
    st = {k: sum(r.get("stats", {}).get(k, 0) for r in results) for k in ("w", "w_refused", "r", "r_canonical", "r_refused")}
    ctx.cov.update({"s2_cigar_write_cases": st["w"], "s2_cigar_write_refused": st["w_refused"],
                    "s2_cigar_read_cases": st["r"], "s2_cigar_read_canonical": st["r_canonical"],
                    "s2_cigar_read_refused": st["r_refused"]})
    if min(st["w"] - st["w_refused"], st["w_refused"], st["r_canonical"], st["r_refused"]) == 0:
        raise Vacuity(f"MCCigar: an outcome class never occurred: {st}")
    ctx.traces_validated += sum(r.get("cases", 0) for r in results)
    ctx.evaluations += sum(r.get("calls", 0) for r in results)
    ctx.nontrivial += sum(r.get("nontrivial", 0) for r in results)
    ctx.sample({"s2_cigar": next((r["sample"] for r in results if r.get("sample")), None)})
    ctx.log(f"S2-cigar: {st['w']} write cases ({st['w_refused']} refused), {st['r']} read cases "
            f"({st['r_canonical']} in the writer's image)")
    # ---------------------------------------------------------------- MCMsa: S1 + forced S2
    msa_cfgs = [f"MCMsa{tier}.cfg"] + ([] if quick else ["MCMsa_thorough2.cfg"])
    forced, nfinals, diag_rows = [], 0, 0
    for cfg in msa_cfgs:
        res, texts = _dump_texts(ctx, "MCMsa", cfg, "S1-msa")
        items = [{"texts": ch} for ch in helpers.chunked(texts, 200)]
        results = helpers.run_pool(ctx, "harness.drivers.c11:exec_msa_states", items, stage="S2-msa", item_timeout=120)
        forced += [e for r in results for e in r.get("events", [])]
        nfinals += sum(r.get("finals", 0) for r in results)
        diag_rows += sum(r.get("diag_rows_differ", 0) for r in results)
    if not nfinals:
        raise Vacuity("MCMsa: no final state")
    # observed: every input set in the bounds through the real align_multiple, default settings
    res, ostates = helpers.dump_states(ctx, "MCMsaObs", f"MCMsaObs{tier}.cfg", stage="S2-msa-inputs", timeout=600)
    osets = sorted({json.dumps([s["inputs"], s["objs"]]) for s in ostates})
    oitems = [{"sets": [json.loads(x) for x in ch]} for ch in helpers.chunked(osets, 50)]
    ores = helpers.run_pool(ctx, "harness.drivers.c11:exec_msa_observed", oitems, stage="S2-msa-observed", item_timeout=120)
    observed = [e for r in ores for e in r.get("events", [])]
    refused = sum(r.get("refused", 0) for r in ores)
    allmsa = forced + observed
    chunks = helpers.chunked(allmsa, 200)
    mms, dgs = _validate(ctx, chunks, "S2-msa-judge")
    _report(ctx, chunks, mms, "S2-msa")
    ctx.traces_validated += len(allmsa)
    ctx.evaluations += len(allmsa)
    ctx.nontrivial += sum(1 for e in allmsa if e["op"] == "msa" and
                          (len(e["merges"]) >= 2 or any(GAP in c for m in e["merges"] for c in m[2])))
    nobs_ok = sum(1 for e in observed if e["op"] == "msa")

    def shared_and_gapped(e):
        # one object at several positions AND a merge that inserts a gap: the runs on which
        # "the rows are the caller's objects" and "the rows are copies" differ
        return (e["op"] == "msa" and any(o != k + 1 for k, o in enumerate(e["objs"]))
                and any(GAP in c for m in e["merges"] for c in m[2]))
    nshared = sum(1 for e in forced if shared_and_gapped(e))
    ctx.cov.update({"s2_msa_forced_shared_object_with_gap": nshared,
                    "s2_msa_observed_shared_object": sum(1 for e in observed if e["op"] == "msa" and
                                                         e["objs"] != no_sharing(len(e["objs"])))})
    if forced and nshared == 0:
        raise Vacuity("MCMsa: no forced behaviour with a shared input object and a gapped merge")
    ctx.cov.update({"s2_msa_behaviours": nfinals, "s2_msa_forced_executed": len(forced),
                    "s2_msa_observed_input_sets": len(ostates), "s2_msa_observed_ok": nobs_ok,
                    "s2_msa_observed_documented_refusals": refused,
                    "s2_msa_diag_exact_rows_differ": diag_rows, "s2_msa_diag_events": len(dgs)})
    if nobs_ok == 0:
        raise Vacuity("align_multiple never succeeded on the enumerated input sets")
    if diag_rows or dgs:
        ctx.note(f"align_multiple (S2): {diag_rows} forced behaviours whose exact gapped rows differ from the documented "
                 f"merge rule, {len(dgs)} runs with replay/order/tree diagnostics (no verdict)")
    if forced:
        ctx.sample({"s2_msa": {k: forced[len(forced) // 2][k] for k in ("src", "A", "order")}})
    ctx.log(f"S2-msa: {len(forced)}/{nfinals} merge histories forced through align_multiple; "
            f"{len(ostates)} input sets observed ({nobs_ok} ok, {refused} documented refusals)")
    # ---------------------------------------------------------------- S3
    nitems = 16 if quick else 400
    per = 20 if quick else 40
    seeds = [ctx.rng.randrange(1 << 30) for _ in range(nitems)]
    kinds = ["helpers", "helpers", "index", "cigar_w", "cigar_w", "cigar_r", "msa", "fasta_r"]
    titems = [{"seed": s, "n": per, "kinds": kinds} for s in seeds]
    tres = helpers.run_pool(ctx, "harness.drivers.c11:gen_s3_trace", titems, stage="S3", item_timeout=300)
    traces = [r["events"] for r in tres if r and r.get("events")]
    mms, dgs = _validate(ctx, traces, "S3")
    _report(ctx, traces, mms, "S3")
    nev = sum(len(t) for t in traces)
    per_kind = {}
    for t in traces:
        for e in t:
            per_kind[e["op"]] = per_kind.get(e["op"], 0) + 1
    ctx.traces_validated += len(traces)
    ctx.evaluations += nev
    ctx.nontrivial += sum(1 for t in traces for e in t
                          if (e["op"] in ("helpers", "index", "cigar_w") and len(e["A"]["tr"]) >= 2
                              and any(GAP in c for c in e["A"]["tr"]))
                          or (e["op"] == "cigar_r" and len(e["c"]) >= 2) or (e["op"] == "msa" and len(e["merges"]) >= 2)
                          or (e["op"] == "fasta_r" and e["obs"][0] == "ok" and any(x <= -2 for row in e["G"] for x in row)))
    ctx.cov.update({"s3_traces": len(traces), "s3_events": nev, "s3_events_per_kind": per_kind,
                    "s3_msa_diag_events": len(dgs)})
    if dgs:
        ctx.note(f"align_multiple (observed): {len(dgs)} runs with replay/order/tree diagnostics (no verdict)")
    need = {"helpers", "index", "cigar_w", "cigar_r", "msa", "fasta_r"}
    if need - set(per_kind):
        raise Vacuity(f"S3: event kinds never recorded: {sorted(need - set(per_kind))}")
    helpers_ev = [e for t in traces for e in t if e["op"] == "helpers"]
    fasta_ev = [e for t in traces for e in t if e["op"] == "fasta_r"]
    ctx.cov.update({"s3_helpers_mixed_alphabets": sum(1 for e in helpers_ev if not uniform(e["kinds"])),
                    "s3_helpers_more_than_one_str_block": sum(1 for e in helpers_ev if len(e["A"]["tr"]) > 70),
                    "s3_fasta_accepted": sum(1 for e in fasta_ev if e["obs"][0] == "ok"),
                    "s3_fasta_refused": sum(1 for e in fasta_ev if e["obs"][0] != "ok"),
                    "s3_fasta_two_or_more_gap_chars": sum(1 for e in fasta_ev if e["obs"][0] == "ok"
                                                          and len([x for x in e["gc"] if x <= -2]) >= 2)})
    if not any(not uniform(e["kinds"]) for e in helpers_ev):
        raise Vacuity("S3: no alignment with rows of different alphabets")
    if not any(e["obs"][0] == "ok" for e in fasta_ev):
        raise Vacuity("S3: no FASTA text was accepted")
    ctx.cov["s3_msa_documented_refusals"] = sum(r.get("refused", 0) for r in tres if r)
    ctx.cov["s3_msa_shared_object"] = sum(1 for t in traces for e in t if e["op"] == "msa" and
                                          e["objs"] != no_sharing(len(e["objs"])))
    if sum(1 for t in traces for e in t if e["op"] == "msa" and e["merges"]) == 0:
        raise Vacuity("S3: no align_multiple run with observed merges")
    for t in traces[:1]:
        for e in t[:2]:
            ctx.sample({"s3_event": e})
    # ---------------------------------------------------------------- binding self-test
    def corrupt(tr):
        done = False
        for e in tr:
            if e["op"] == "helpers" and e["obs"]["codes"] and e["obs"]["codes"][0]:
                e["obs"]["codes"][0][0] = 3 - max(e["obs"]["codes"][0][0], 0)
                return True
            if e["op"] == "cigar_w" and e["obs"][0] == "ok" and e["obs"][1]:
                e["obs"][1][0][1] += 1
                return True
            if e["op"] == "msa" and e["A"]["tr"]:
                e["order"][0] = e["order"][-1] if len(e["order"]) > 1 else 7
                return True
        return done
    helpers.binding_selftest(ctx, traces, corrupt)


MANIFEST = {
    "technique": "TLA+ specifications of alignment traces and their conversions, of the CIGAR writer/reader and of the progressive merge machine (specs/C11) model-checked by TLC; every enumerated alignment / typed alignment (rows of different alphabets) / FASTA text with its reader option / option set / CIGAR / merge history executed against the real API; recorded random executions re-computed by TLC",
    "level_text": "TLC checks the conversion laws (gapped strings / code and symbol matrices / FASTA and back = renumbered aligned part, identity on complete traces; terminal-gap interval = set of non-terminal columns; flag-driven gap scan = runs; Read(Write(A, opts), pos) = Normalise(A, opts) for every option combination; Write(Read(c)) = c on the writer's image; group invariants and postcondition of the progressive merge machine) on all pairwise traces over lengths <= 3 (jumps allowed), three-row traces over short rows, all typed alignments over every ordered pair (and short triples) of five alphabets with per-row decoding (get_symbols = cell-by-cell decoding, str() blocks, letters and back, score over two alphabets), all two-row FASTA texts with <= 2 columns over '-' and three further gap characters under all 48 values of additional_gap_chars (0..3 characters, every order, tuple / list / str), all CIGARs with <= 3 operations and all merge histories of <= 3 sequences; every enumerated case is then executed against the real functions in crash-isolated processes and compared with TLC's values, including align_multiple forced through every merge history (guide tree, distance matrix and rebound align_optimal) under every sharing pattern of the input objects (equal sequences passed as one and the same object), with the caller's objects compared before and after the call; random alignments (<= 5 rows, <= 12 columns, some beyond one 70-column block of str(); rows of one or of different alphabets), FASTA texts with random gap-character options, CIGARs and sequence sets (2-8 sequences) are recorded from the real API and re-computed by TLC.",
    "level_note": "Bounded: exhaustive only inside the stated bounds; beyond them only recorded executions. Which pairwise alignment align_multiple chooses is C08's subject: the machine accepts any global trace. Exact gap placement of align_multiple, order = tree leaf order and the merge replay are diagnostics (the property states only the postcondition). Row selections may leave all-gap columns (ValidSubTrace); bare integer indices, negative-step column selections, alphabets with multi-character symbols or a '-' symbol, FASTA letters that get_alignment rewrites (lower case, U/O/X), identity of rows whose equal codes are different symbols, non-contiguous traces for CIGAR and E-value statistics are outside the domain. Trusted: TLC, the TLA+ value parser, the projections, numpy. multiple.pyx cannot be recompiled here (no Cython).",
}
