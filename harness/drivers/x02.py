"""X02 — pseudoknot orders and dot-bracket notation are consistent with the base pairs.

Specification: specs/X02/Pseudoknot.tla (pseudoknots() declaratively = recursive maximum-weight
knot-free subsets, and as the code does it = regions, conflict graph, dynamic programme, recursion
over orders; dot_bracket() rendering; base_pairs_from_dot_bracket() as bracket stacks and
declaratively; dot_bracket_from_structure() over given atom pairs).

S1  MCKnot: on every set of disjoint base pairs on a few positions (every presentation, scores,
    maximum orders) TLC checks code-shaped = declarative, the documented laws (no crossing inside a
    level, level k optimal among what is left, truncation by the maximum order, regions / conflict
    graph lemmas), rendering and the round trip through the parser.  MCParse: every short notation
    over a small alphabet: stack parser = declarative parser, well-formedness of the result.
S2  every case of those runs is executed against the real pseudoknots(), dot_bracket(),
    base_pairs_from_dot_bracket(); the returned rows / notations / pairs are compared (as sets) with
    the values TLC computed.
S3  seeded random histories of calls (larger structures with helices, all 30 bracket levels, the
    alphabet boundary, refusals, corrupted notations, dot_bracket_from_structure() over given atom
    pairs, several kinds of caller arrays) and the calls made by the repository's own tests of the
    area are recorded and judged by TLC (specs/X02/Trace.tla); binding self-test.
"""

from __future__ import annotations

import json
import os
import random

PROPERTY = "X02"

ARRAY_KINDS = ["i8", "i4", "ro", "view", "F"]


# --------------------------------------------------------------------------- real calls + projections
def call(fn):
    try:
        return "ok", fn()
    except Exception as e:  # noqa: BLE001 - the statement names no exception class
        return "Rejected", f"{type(e).__name__}: {e}"[:200]


def make_pairs(bp, kind="i8"):
    """The caller's (n, 2) array of the given kind -> (array passed to biotite, array owning the memory)."""
    import numpy as np

    base = np.array(bp, dtype=np.int64).reshape(-1, 2)
    if kind == "i4":
        a = base.astype(np.int32)
    elif kind == "ro":
        a = base.copy()
        a.flags.writeable = False
    elif kind == "F":
        a = np.asfortranarray(base)
    elif kind == "view":
        big = np.full((2 * len(base), 4), -7, dtype=np.int64)
        big[::2, ::2] = base
        return big[::2, ::2], big
    else:
        a = base.copy()
    return a, a


def make_scores(sc, kind="i8"):
    """sc = [] (None) or [[s1, ...]]."""
    import numpy as np

    if not sc:
        return None
    a = np.array(sc[0], dtype=np.int32 if kind == "i4" else np.int64)
    if kind == "ro":
        a.flags.writeable = False
    return a


def _same(owner, snap):
    import numpy as np

    if owner is None:
        return True
    return bool(owner.shape == snap.shape and owner.dtype == snap.dtype and np.array_equal(owner, snap))


def _rows(res):
    import numpy as np

    try:
        a = np.asarray(res)
        if a.ndim != 2:
            return [[-99]]
        return [[int(x) for x in row] for row in a.tolist()]
    except Exception:  # noqa: BLE001
        return [[-99]]


def _pairs(res):
    import numpy as np

    try:
        a = np.asarray(res)
        if a.size == 0:
            return []
        return [[int(x), int(y)] for x, y in a.tolist()]
    except Exception:  # noqa: BLE001
        return [[-99, -99]]


def _kw(s, maxo):
    """Keyword arguments as a caller would write them: an argument that is None is left out (so the
    defaults of the real signature are part of what is judged)."""
    kw = {}
    if s is not None:
        kw["scores"] = s
    if maxo:
        kw["max_pseudoknot_order"] = int(maxo[0])
    return kw


def observe_parse(chars):
    from biotite.structure import base_pairs_from_dot_bracket

    oc, res = call(lambda: base_pairs_from_dot_bracket("".join(chars)))
    return [oc, _pairs(res) if oc == "ok" else []]


def observe_pk(bp, sc, maxo, kind="i8"):
    from biotite.structure import pseudoknots

    a, owner = make_pairs(bp, kind)
    s = make_scores(sc, kind)
    snap_a, snap_s = owner.copy(), None if s is None else s.copy()
    oc, res = call(lambda: pseudoknots(a, **_kw(s, maxo)))
    ev = {"op": "pk", "bp": bp, "sc": sc, "maxo": maxo, "kind": kind,
          "obs": [oc, _rows(res) if oc == "ok" else []], "same": _same(owner, snap_a) and _same(s, snap_s)}
    if oc != "ok":
        ev["err"] = res
    return ev


def _notations(res):
    try:
        return [list(s) for s in res]
    except Exception:  # noqa: BLE001
        return [["?"]]


def observe_db(bp, length, sc, maxo, kind="i8"):
    from biotite.structure import dot_bracket

    a, owner = make_pairs(bp, kind)
    s = make_scores(sc, kind)
    snap_a, snap_s = owner.copy(), None if s is None else s.copy()
    oc, res = call(lambda: dot_bracket(a, length, **_kw(s, maxo)))
    notes = _notations(res) if oc == "ok" else []
    ev = {"op": "db", "bp": bp, "len": length, "sc": sc, "maxo": maxo, "kind": kind, "obs": [oc, notes],
          "back": [observe_parse(n) for n in notes], "same": _same(owner, snap_a) and _same(s, snap_s)}
    if oc != "ok":
        ev["err"] = res
    return ev


def observe_fs(res_of, ap, sc, maxo):
    """dot_bracket_from_structure() on a strand whose atom a belongs to residue res_of[a]; the detection
    of base pairs is replaced by the given atom pairs (module global of biotite.structure.dotbracket)."""
    import numpy as np

    import biotite.structure as struc
    import biotite.structure.dotbracket as dbm

    arr = struc.AtomArray(len(res_of))
    arr.res_id = np.array(res_of, dtype=int) + 11
    arr.chain_id[:] = "A"
    arr.res_name[:] = "A"
    arr.atom_name[:] = "N1"
    pairs = np.array(ap, dtype=np.int64).reshape(-1, 2)
    snap = pairs.copy()
    s = make_scores(sc)
    orig = dbm.base_pairs
    seen = []

    def stub(strand):
        seen.append(strand is arr)
        return pairs

    dbm.base_pairs = stub
    try:
        oc, res = call(lambda: struc.dot_bracket_from_structure(arr, **_kw(s, maxo)))
    finally:
        dbm.base_pairs = orig
    notes = _notations(res) if oc == "ok" else []
    ev = {"op": "fs", "resOf": res_of, "ap": ap, "sc": sc, "maxo": maxo, "obs": [oc, notes],
          "back": [observe_parse(n) for n in notes], "same": _same(pairs, snap) and seen == [True]}
    if oc != "ok":
        ev["err"] = res
    return ev


def observe(ev):
    """Re-execute an event."""
    if ev["op"] == "pk":
        return observe_pk(ev["bp"], ev["sc"], ev["maxo"], ev.get("kind", "i8"))
    if ev["op"] == "db":
        return observe_db(ev["bp"], ev["len"], ev["sc"], ev["maxo"], ev.get("kind", "i8"))
    if ev["op"] == "fs":
        return observe_fs(ev["resOf"], ev["ap"], ev["sc"], ev["maxo"])
    if ev["op"] == "parse":
        return {"op": "parse", "s": ev["s"], "obs": observe_parse(ev["s"])}
    raise ValueError(ev["op"])


# --------------------------------------------------------------------------- S2 children
def warmup():
    import biotite.structure  # noqa: F401


def _parse_states(texts):
    from harness.tlabind.tlaval import parse_state, to_py

    return [{k: to_py(v) for k, v in parse_state(t).items()} for t in texts]


def _rowset(rows):
    return sorted({tuple(r) for r in rows})


def _case_class(inp, res):
    """Which classes of inputs a case belongs to (from the specification's values)."""
    rows = res["pk"]["val"]
    orders = [x for r in rows for x in r]
    cls = set()
    if not inp["bp"]:
        cls.add("empty")
    elif max(orders, default=0) == 0 and -1 not in orders:
        cls.add("nested")
    if any(x >= 1 for x in orders):
        cls.add("crossing")
    if any(x >= 2 for x in orders):
        cls.add("order>=2")
    if -1 in orders:
        cls.add("cut-off")
    if len(rows) >= 2:
        cls.add("several-solutions")
    if any(p[0] > p[1] for p in inp["bp"]):
        cls.add("reversed-rows")
    if [min(p) for p in inp["bp"]] != sorted(min(p) for p in inp["bp"]):
        cls.add("unsorted-rows")
    if inp["sc"] and len(set(inp["sc"][0])) > 1:
        cls.add("scores")
    if res["db"]["oc"] == "Rejected":
        cls.add("strand-too-short")
    return cls


def exec_knot_states(item):
    """Cases of MCKnot (phase 1) -> real pseudoknots() / dot_bracket() / base_pairs_from_dot_bracket()."""
    from harness.tlabind.pool import progress

    mism, classes, nontrivial = [], {}, 0
    for n, st in enumerate(_parse_states(item["texts"])):
        inp, res = st["inp"], st["res"]
        bp = [list(p) for p in inp["bp"]]
        sc = [list(inp["sc"][0])] if inp["sc"] else []
        maxo = list(inp["maxo"])
        kind = ARRAY_KINDS[(item["k0"] + n) % len(ARRAY_KINDS)]
        case = {"kind": inp["kind"], "bp": bp, "sc": sc, "maxo": maxo, "len": inp["len"], "array": kind}
        progress({"stage": "S2-knot", "case": case})
        cls = _case_class(inp, res)
        for c in cls:
            classes[c] = classes.get(c, 0) + 1
        nontrivial += bool(cls & {"crossing", "cut-off", "strand-too-short"})
        # pseudoknots()
        ev = observe_pk(bp, sc, maxo, kind)
        exp_rows = _rowset(res["pk"]["val"])
        if ev["obs"][0] != res["pk"]["oc"] or _rowset(ev["obs"][1]) != exp_rows or not ev["same"]:
            mism.append({"kind": "case", "op": "pk", "case": case,
                         "expected": {"oc": res["pk"]["oc"], "rows": [list(r) for r in exp_rows]},
                         "observed": {"oc": ev["obs"][0], "rows": ev["obs"][1], "inputs_unchanged": ev["same"],
                                      "err": ev.get("err")}})
        # dot_bracket() and the way back
        ev = observe_db(bp, inp["len"], sc, maxo, kind)
        exp_notes = sorted("".join(s) for s in res["db"]["val"])
        got_notes = sorted({"".join(s) for s in ev["obs"][1]})
        if ev["obs"][0] != res["db"]["oc"] or got_notes != exp_notes or not ev["same"]:
            mism.append({"kind": "case", "op": "db", "case": case,
                         "expected": {"oc": res["db"]["oc"], "notations": exp_notes},
                         "observed": {"oc": ev["obs"][0], "notations": got_notes, "inputs_unchanged": ev["same"],
                                      "err": ev.get("err")}})
        back = {"".join(b[0]): b[1] for b in res["back"]}
        for s, got in zip(ev["obs"][1], ev["back"]):
            exp = back.get("".join(s))
            if exp is None:
                continue                    # a notation the specification does not have: reported above
            if got[0] != exp["oc"] or sorted(map(tuple, got[1])) != sorted(map(tuple, exp["val"])):
                mism.append({"kind": "case", "op": "back", "case": case, "notation": "".join(s),
                             "expected": {"oc": exp["oc"], "pairs": [list(p) for p in exp["val"]]},
                             "observed": {"oc": got[0], "pairs": got[1]}})
    return {"mismatch": mism, "n": n + 1, "classes": classes, "nontrivial": nontrivial}


def exec_parse_states(item):
    """Cases of MCParse (phase 1) -> real base_pairs_from_dot_bracket()."""
    from harness.tlabind.pool import progress

    mism, classes, nontrivial, unsorted = [], {}, 0, 0
    states = _parse_states(item["texts"])
    progress({"stage": "S2-parse", "first": "".join(states[0]["s"]) if states else ""})
    for st in states:
        s, r = list(st["s"]), st["r"]
        got = observe_parse(s)
        brackets = {c for c in s if c not in ".x"}
        c = "rejected" if r["oc"] == "Rejected" else ("no-pair" if not r["val"] else
                                                      "several-types" if len(brackets) > 2 else "one-type")
        classes[c] = classes.get(c, 0) + 1
        nontrivial += c in ("rejected", "several-types")
        if got[0] != r["oc"] or sorted(map(tuple, got[1])) != sorted(map(tuple, r["val"])):
            mism.append({"kind": "case", "op": "parse", "notation": "".join(s),
                         "expected": {"oc": r["oc"], "pairs": [list(p) for p in r["val"]]},
                         "observed": {"oc": got[0], "pairs": got[1]}})
        elif got[0] == "ok" and [tuple(p) for p in got[1]] != [tuple(p) for p in r["val"]]:
            unsorted += 1
    return {"mismatch": mism, "n": len(states), "classes": classes, "nontrivial": nontrivial, "unsorted": unsorted}


# --------------------------------------------------------------------------- S3 generators (inputs only)
OPENING = "([{<ABCDEFGHIJKLMNOPQRSTUVWXYZ"          # used to *generate* notations; TLC holds the alphabet that judges
CLOSING = ")]}>abcdefghijklmnopqrstuvwxyz"
STRAY = "xX-*:,; 0|&"


def rand_structure(rng, npos, npairs, max_helix=3):
    """Disjoint base pairs on 0..npos-1 built from helices (stacks of 1..max_helix pairs)."""
    free = set(range(npos))
    pairs = []
    for _ in range(12 * npairs):
        if len(pairs) >= npairs:
            break
        a, b = sorted(rng.sample(range(npos), 2))
        for i in range(rng.randint(1, max_helix)):
            x, y = a + i, b - i
            if x >= y or x not in free or y not in free or len(pairs) >= npairs:
                break
            free -= {x, y}
            pairs.append([x, y])
    return pairs


def present(rng, pairs):
    """Rows in random order and orientation, positions spread by a random increasing map."""
    npos = max((max(p) for p in pairs), default=-1) + 1
    pos, cur = [], -1
    gaps = rng.random() < 0.5
    for _ in range(npos):
        cur += 1 + (rng.randint(0, 3) if gaps else 0)
        pos.append(cur)
    rows = [[pos[a], pos[b]] for a, b in pairs]
    if rng.random() < 0.8:
        rng.shuffle(rows)
    return [[b, a] if rng.random() < 0.4 else [a, b] for a, b in rows]


def rand_scores(rng, n):
    r = rng.random()
    if r < 0.45:
        return []
    if r < 0.9:
        return [[rng.choice([1, 1, 2, 3, 5]) for _ in range(n)]]
    return [[1] * (n + rng.choice([-1, 1, 2]))] if n else []      # documented refusal: another length


def rand_maxo(rng):
    return rng.choice([[], [], [], [0], [0], [1], [2], [5]])


def ladder(k):
    """k base pairs that all cross each other, heavier first: one solution, orders 0..k-1."""
    return [[i, i + k] for i in range(k)], [[k - i for i in range(k)]]


def rand_notation(rng):
    """A notation: well-formed over random bracket types, then possibly damaged."""
    n = rng.randint(0, 30)
    pairs = rand_structure(rng, max(n, 2), rng.randint(0, 8)) if n >= 2 else []
    s = ["."] * n
    types = rng.sample(range(30), rng.randint(1, 4))
    for a, b in pairs:
        t = rng.choice(types)
        s[a], s[b] = OPENING[t], CLOSING[t]
    r = rng.random()
    if s and r < 0.5:
        for _ in range(rng.randint(1, 2)):
            k = rng.randrange(len(s))
            what = rng.random()
            if what < 0.3:
                s[k] = rng.choice(STRAY)
            elif what < 0.6:
                s[k] = rng.choice(OPENING + CLOSING)
            elif what < 0.8:
                del s[k]
                if not s:
                    break
            else:
                s.insert(k, rng.choice(OPENING + CLOSING + "."))
    return s


def rand_strand(rng):
    """Residue position of every atom, and atom pairs between different residues (each residue at most once)."""
    nres = rng.randint(2, 14)
    res_of = []
    for r in range(nres):
        res_of += [r] * rng.randint(1, 3)
    pairs = present(rng, rand_structure(rng, nres, rng.randint(0, nres // 2)))
    atoms = {r: [a for a, x in enumerate(res_of) if x == r] for r in range(nres)}
    # present() may have spread the positions: map them back to 0..nres-1 by rank
    used = sorted({x for p in pairs for x in p})
    free = sorted(rng.sample(range(nres), len(used)))
    back = dict(zip(used, free))
    return res_of, [[rng.choice(atoms[back[a]]), rng.choice(atoms[back[b]])] for a, b in pairs]


def gen_s3(item):
    """One history of calls in one process."""
    from harness.tlabind.pool import progress

    rng = random.Random(item["seed"])
    events = []
    for what in item["plan"]:
        kind = rng.choice(ARRAY_KINDS)
        if what in ("pk", "db"):
            npairs = rng.randint(0, item["max_pairs"])
            pairs = rand_structure(rng, rng.randint(2 * npairs + 1, 3 * npairs + 4), npairs)
            bp = present(rng, pairs)
            sc, maxo = rand_scores(rng, len(bp)), rand_maxo(rng)
            progress({"stage": "S3", "op": what, "bp": bp, "sc": sc, "maxo": maxo})
            if what == "pk":
                events.append(observe_pk(bp, sc, maxo, kind))
            else:
                mp = max((max(p) for p in bp), default=-1)
                length = mp + 1 + rng.choice([0, 0, 1, 4]) if rng.random() < 0.9 else max(0, mp - rng.randint(0, 2))
                events.append(observe_db(bp, length, sc, maxo, kind))
        elif what == "big":
            npairs = rng.randint(14, item["big_pairs"])
            bp = present(rng, rand_structure(rng, rng.randint(3 * npairs, 5 * npairs), npairs, max_helix=4))
            maxo = rng.choice([[], [0], [1]])
            progress({"stage": "S3", "op": "big", "bp": bp, "maxo": maxo})
            events.append(observe_db(bp, max(max(p) for p in bp) + 1, rand_scores(rng, len(bp)) if rng.random() < .5 else [],
                                     maxo, kind))
        elif what.startswith("ladder"):
            k = int(what[6:])
            bp, sc = ladder(k)
            progress({"stage": "S3", "op": what})
            events.append(observe_db(bp, 2 * k + 1, sc, [], kind))
        elif what == "pkbad":                      # documented refusal: scores of another length
            bp = present(rng, rand_structure(rng, 12, 4) or [[0, 3], [1, 2]])
            events.append(observe_pk(bp, [[1] * (len(bp) + 1)], [], kind))
        elif what == "pkladder":                   # four pairs that all cross, equal scores: 4! solutions, orders 0..3
            events.append(observe_pk(present(rng, ladder(4)[0]), [], [], kind))
        elif what == "dbshort":                    # a strand one base too short
            bp = present(rng, rand_structure(rng, 12, 4) or [[0, 3], [1, 2]])
            events.append(observe_db(bp, max(max(p) for p in bp), [], [], kind))
        elif what == "fsempty":                    # a strand without any base pair
            events.append(observe_fs([0, 0, 1, 2, 2, 2], [], [], []))
        elif what == "parse":
            s = rand_notation(rng)
            events.append({"op": "parse", "s": s, "obs": observe_parse(s)})
        elif what == "fs":
            res_of, ap = rand_strand(rng)
            progress({"stage": "S3", "op": "fs", "resOf": res_of, "ap": ap})
            events.append(observe_fs(res_of, ap, rand_scores(rng, len(ap)) if rng.random() < .3 else [], rand_maxo(rng)))
    return {"events": events}


# --------------------------------------------------------------------------- replay
def replay(rec):
    """Re-execute a stored mismatch against the real code.  For a recorded event: does the code still
    give the recorded observation (the verdict on it came from TLC)?  For a case of S2: does the code
    still differ from the stored expected value?"""
    warmup()
    if rec.get("kind") == "event":
        ev = rec["event"]
        now = observe(ev)
        return {"observed": now["obs"], "recorded": ev["obs"], "mismatch": now["obs"] == ev["obs"],
                "inputs_unchanged": now.get("same")}
    if rec.get("kind") == "case":
        if rec["op"] == "parse" or rec["op"] == "back":
            got = observe_parse(list(rec["notation"]))
            exp = rec["expected"]
            return {"observed": got, "expected": exp,
                    "mismatch": got[0] != exp["oc"] or sorted(map(tuple, got[1])) != sorted(map(tuple, exp["pairs"]))}
        c = rec["case"]
        if rec["op"] == "pk":
            ev = observe_pk(c["bp"], c["sc"], c["maxo"], c["array"])
            exp = rec["expected"]
            return {"observed": ev["obs"], "expected": exp, "inputs_unchanged": ev["same"],
                    "mismatch": ev["obs"][0] != exp["oc"] or _rowset(ev["obs"][1]) != _rowset(exp["rows"]) or not ev["same"]}
        ev = observe_db(c["bp"], c["len"], c["sc"], c["maxo"], c["array"])
        exp = rec["expected"]
        got = sorted({"".join(s) for s in ev["obs"][1]})
        return {"observed": [ev["obs"][0], got], "expected": exp, "inputs_unchanged": ev["same"],
                "mismatch": ev["obs"][0] != exp["oc"] or got != exp["notations"] or not ev["same"]}
    return {"error": "not replayable", "record": rec}


def classify(mm):
    """No defect of biotite is known in this area: every disagreement is a violation."""
    return None


# --------------------------------------------------------------------------- orchestration
def _dump_texts(ctx, module, cfg, stage, tag, timeout, workers=12):
    from harness.tlabind import tlc as T

    d = T.scratch_dir(tag)
    prefix = os.path.join(d, "states")
    res = ctx.tlc(module, cfg, stage=stage, dump=prefix, timeout=timeout, workers=workers, count=False)
    path = prefix + ".dump" if os.path.exists(prefix + ".dump") else prefix
    texts, cur = [], []
    with open(path) as f:
        for line in f:
            if line.startswith("State ") and line.rstrip().endswith(":"):
                if cur:
                    texts.append("".join(cur))
                cur = []
            else:
                cur.append(line)
    if cur:
        texts.append("".join(cur))
    texts = sorted(t.strip() for t in texts if "phase = 1" in t)      # dump order depends on scheduling
    return res, texts


FLAGS = {"pk": ["input_in_domain", "outcome", "rows", "laws_of_the_levels", "inputs_unchanged", "spec_impl=decl"],
         "db": ["input_in_domain", "outcome", "notations", "parser_on_the_notations", "round_trip", "inputs_unchanged",
                "spec_impl=decl"],
         "fs": ["input_in_domain", "outcome", "notations", "parser_on_the_notations", "round_trip", "inputs_unchanged",
                "spec_impl=decl"],
         "parse": ["outcome", "pairs", "spec_impl=decl"]}
NOT_FOR_TLC = ("kind", "err", "src")


def _validate(ctx, traces, stage, selftest=False, workers=8, timeout=1500):
    """TLC judges the recorded traces -> (mismatch tuples, diag tuples)."""
    from harness.tlabind import tlc as T
    from harness.tlabind.tlaval import parse_value, to_py

    if not traces:
        return [], []
    d = T.scratch_dir("x02tr")
    tf = os.path.join(d, f"traces_{stage}.json")
    with open(tf, "w") as f:
        json.dump([[{k: v for k, v in e.items() if k not in NOT_FOR_TLC} for e in tr] for tr in traces], f,
                  separators=(",", ":"))
    res = ctx.tlc("Trace", "Trace.cfg", stage=stage, workers=1 if len(traces) < 4 else workers,
                  env={"TRACE_FILE": tf}, count=not selftest, timeout=timeout)
    expect = sum(len(t) + 1 for t in traces)
    if res.distinct != expect:
        raise RuntimeError(f"X02 {stage}: trace validation visited {res.distinct} states, expected {expect}")
    mms = [to_py(parse_value(x)) for x in T.printed_values(res.out, "MISMATCH")]
    dgs = [to_py(parse_value(x)) for x in T.printed_values(res.out, "DIAG")]
    return mms, dgs


def _report(ctx, traces, mms, stage):
    seen = set()
    for m in mms:
        _tag, tid, l, flags, exp = m[:5]
        if (tid, l) in seen:
            continue
        seen.add((tid, l))
        e = traces[tid - 1][l - 1]
        failed = [FLAGS[e["op"]][k] for k, ok in enumerate(flags) if not ok]
        if "input_in_domain" in failed:
            raise RuntimeError(f"X02 {stage}: generated input outside its domain: {json.dumps(e)[:400]}")
        if isinstance(exp, dict) and isinstance(exp.get("val"), list) and exp["val"] and e["op"] != "parse" \
                and isinstance(exp["val"][0], list) and exp["val"][0] and isinstance(exp["val"][0][0], str):
            exp = {"oc": exp["oc"], "val": ["".join(s) for s in exp["val"]]}
        ctx.mismatch({"stage": stage, "kind": "event", "op": e["op"], "failed": failed, "expected": exp,
                      "event": e, "history": [x["op"] for x in traces[tid - 1][:l]]})


def _ev_nontrivial(e):
    if e["op"] == "parse":
        return e["obs"][0] == "Rejected" or len({c for c in e["s"] if c != "."}) > 2
    if e["obs"][0] != "ok":
        return True
    if e["op"] == "pk":
        return any(x != 0 for r in e["obs"][1] for x in r)
    return any(c not in ".()" for s in e["obs"][1] for c in s) or len(e["obs"][1]) > 1


def _start_repo_tests(ctx):
    """The repository's own tests of the area run in the background with a recorder installed from
    outside (harness/recorders/x02_recorder.py); returns a function that waits for the events."""
    import subprocess

    from harness.tlabind import tlc

    d = tlc.scratch_dir("x02rec")
    rec = os.path.join(d, "rec.json")
    env = dict(os.environ, PYTHONPATH=tlc.VERIF + os.pathsep + os.environ.get("PYTHONPATH", ""), X02_RECORD_FILE=rec,
               X02_MAX_EVENTS="60" if ctx.quick else "160")
    # (the two tests that need the Chemical Component Dictionary cannot run here; the random test of
    #  20 pairs with all orders -- a dozen calls per seed -- only in the thorough tier)
    sel = ["--deselect", "tests/structure/test_pseudoknots.py::test_pseudoknots",
           "--deselect", "tests/structure/test_dotbracket.py::test_dot_bracket_from_structure"]
    if ctx.quick:
        sel += ["-k", "not test_pseudoknot_orders"]
    try:
        p = subprocess.Popen(["/venv/bin/python", "-m", "pytest", "-q", "-p", "no:cacheprovider", "-p",
                              "harness.recorders.x02_recorder", "tests/structure/test_pseudoknots.py",
                              "tests/structure/test_dotbracket.py"] + sel,
                             cwd="/repo", env=env, stdout=subprocess.DEVNULL, stderr=subprocess.DEVNULL)
    except OSError:
        return lambda: None

    def wait():
        try:
            p.wait(timeout=600)
        except subprocess.TimeoutExpired:
            p.kill()
            return None
        if not os.path.exists(rec):
            return None
        with open(rec) as f:
            return json.load(f)
    return wait


def run(ctx):
    from harness.tlabind import helpers
    from harness.tlabind.core import Vacuity

    quick = ctx.quick
    tier = "" if quick else "_thorough"
    ctx.assumptions += [
        "Dom_Pairs: every base takes part in at most one base pair, no base pairs with itself, positions are integers >= 0 (what base_pairs() / a dot-bracket notation can express); arrays of shape (n, 2)",
        "Dom_Scores: one positive integer per base pair (with scores <= 0 a 'maximum' no longer determines the levels; the code's float sums are exact on small integers); scores of another length are the documented refusal",
        "Dom_MaxOrder: None or an integer >= 0",
        "solutions are compared as sets of rows / notations (a repeated row is a diagnostic); the order in which base_pairs_from_dot_bracket lists the pairs is a diagnostic, the pairs themselves (opening position, closing position) the verdict",
        "where the documentation is silent the code is modelled: an empty array of base pairs gives one empty row / a string of dots; dot_bracket_from_structure without any base pair gives [''] whatever the number of residues",
        "dot_bracket with a strand too short for a pair that gets an order, or an order beyond the 30 bracket types of the dot-bracket-letter alphabet, is 'Rejected' (any exception); with a maximum order AND a strand too short the outcome is not judged (DotBracketOutcomeSpecified)",
        "a function whose documentation names no side effect leaves the caller's arrays as they were (compared with copies taken before the call); the arrays are int64 / int32, C or Fortran order, write-protected, or a strided view",
        "dot_bracket_from_structure: the detection of base pairs (base_pairs()) is replaced by given atom pairs on a synthetic strand; only the mapping of atoms to residue positions, the length and the empty case are judged",
        "trusted: TLC, the TLA+ value parser, the projections (rows / notations / pairs to lists), numpy",
    ]
    ctx.cov["rule"] = ("non-trivial = a set of base pairs with a pseudoknot (an order >= 1 or a pair cut off by the maximum "
                       "order) or a refused call; a notation that is rejected or uses more than one bracket type")
    wait_repo = _start_repo_tests(ctx)

    # ---------------------------------------------------------------- S1: the two models side by side
    import time
    from concurrent.futures import ThreadPoolExecutor

    def parse_model():
        time.sleep(0.5)                    # the scratch directories of run_tlc are named by the millisecond
        return _dump_texts(ctx, "MCParse", f"MCParse{tier}.cfg", "S1-parse", "x02parse", 3000, workers=4)

    with ThreadPoolExecutor(max_workers=1) as ex:
        fut = ex.submit(parse_model)
        res, texts = _dump_texts(ctx, "MCKnot", f"MC{tier}.cfg", "S1-knot", "x02knot", 3000)
        pres, ptexts = fut.result()
    for r in (res, pres):
        ctx.states += r.distinct
        ctx.transitions += r.generated
    # ---------------------------------------------------------------- S2: base pairs
    if not texts:
        raise Vacuity("MCKnot produced no computed case")
    ctx.exhaustive = True
    items = [{"texts": ch, "k0": k} for k, ch in enumerate(helpers.chunked(texts, 60))]
    results = helpers.run_pool(ctx, "harness.drivers.x02:exec_knot_states", items, stage="S2-knot", item_timeout=300)
    classes = {}
    ncases = nontrivial = 0
    for r in results:
        ncases += r.get("n", 0)
        nontrivial += r.get("nontrivial", 0)
        for c, k in r.get("classes", {}).items():
            classes[c] = classes.get(c, 0) + k
    ctx.cov["s2_knot_cases"] = ncases
    ctx.cov["s2_knot_classes"] = dict(sorted(classes.items()))
    need = ["empty", "nested", "crossing", "order>=2", "cut-off", "several-solutions", "reversed-rows", "unsorted-rows",
            "scores", "strand-too-short"]
    missing = [c for c in need if not classes.get(c)]
    if missing or ncases != len(texts):
        raise Vacuity(f"S2-knot: classes of inputs never exercised: {missing} ({ncases} of {len(texts)} cases ran)")
    ctx.traces_validated += ncases
    ctx.evaluations += 3 * ncases
    ctx.nontrivial += nontrivial
    ctx.log(f"S2-knot: {ncases} cases through pseudoknots / dot_bracket / base_pairs_from_dot_bracket: {classes}")
    mid = _parse_states([texts[len(texts) // 2]])[0]
    for t in texts[len(texts) // 2:len(texts) // 2 + 400]:          # a case with a pseudoknot and several solutions
        st = _parse_states([t])[0]
        if len(st["res"]["pk"]["val"]) >= 2 and len(st["inp"]["bp"]) >= 4:
            mid = st
            break
    ctx.sample({"s2_knot_case": mid["inp"], "expected_rows": mid["res"]["pk"]["val"],
                "expected_notations": ["".join(s) for s in mid["res"]["db"]["val"]]})

    # ---------------------------------------------------------------- S2: notations
    texts = ptexts
    if not texts:
        raise Vacuity("MCParse produced no computed case")
    items = [{"texts": ch} for ch in helpers.chunked(texts, 400)]
    results = helpers.run_pool(ctx, "harness.drivers.x02:exec_parse_states", items, stage="S2-parse", item_timeout=300)
    classes = {}
    ncases = nontrivial = unsorted = 0
    for r in results:
        ncases += r.get("n", 0)
        nontrivial += r.get("nontrivial", 0)
        unsorted += r.get("unsorted", 0)
        for c, k in r.get("classes", {}).items():
            classes[c] = classes.get(c, 0) + k
    ctx.cov["s2_parse_cases"] = ncases
    ctx.cov["s2_parse_classes"] = dict(sorted(classes.items()))
    missing = [c for c in ("rejected", "no-pair", "one-type", "several-types") if not classes.get(c)]
    if missing or ncases != len(texts):
        raise Vacuity(f"S2-parse: classes of notations never exercised: {missing} ({ncases} of {len(texts)} ran)")
    if unsorted:
        ctx.note(f"S2-parse: {unsorted} notations whose pairs came back in another order than sorted by opening base (no verdict)")
    ctx.traces_validated += ncases
    ctx.evaluations += ncases
    ctx.nontrivial += nontrivial
    ctx.log(f"S2-parse: {ncases} notations through base_pairs_from_dot_bracket: {classes}")

    # ---------------------------------------------------------------- S3: recorded histories
    ntraces = 24 if quick else 400
    plan_len = 14 if quick else 24
    titems = []
    for k in range(ntraces):
        plan = [ctx.rng.choice(["pk", "db", "db", "parse", "parse", "fs"]) for _ in range(plan_len)]
        if k % 8 == 0:
            plan[ctx.rng.randrange(plan_len)] = "big"
        if k < 4:
            plan[ctx.rng.randrange(plan_len)] = ["ladder30", "ladder31", "ladder29", "ladder5"][k]
        elif k < 8:                        # one call of each kind the guards below ask for
            plan[ctx.rng.randrange(plan_len)] = ["pkbad", "pkladder", "dbshort", "fsempty"][k - 4]
        titems.append({"seed": ctx.rng.randrange(1 << 30), "plan": plan, "max_pairs": 9 if quick else 11,
                       "big_pairs": 18 if quick else 22})
    tres = helpers.run_pool(ctx, "harness.drivers.x02:gen_s3", titems, stage="S3", item_timeout=600)
    traces = [r["events"] for r in tres if r and r.get("events")]
    mms, dgs = _validate(ctx, traces, "S3")
    _report(ctx, traces, mms, "S3")
    evs = [e for t in traces for e in t]
    per_kind = {}
    for e in evs:
        per_kind[e["op"]] = per_kind.get(e["op"], 0) + 1
    refusals = {op: sum(1 for e in evs if e["op"] == op and e["obs"][0] == "Rejected") for op in per_kind}
    max_order = max((x for e in evs if e["op"] == "pk" for r in e["obs"][1] for x in r), default=-1)
    letters = {c for e in evs if e["op"] in ("db", "fs") for s in e["obs"][1] for c in s}
    ctx.traces_validated += len(traces)
    ctx.evaluations += len(evs)
    ctx.nontrivial += sum(1 for e in evs if _ev_nontrivial(e))
    ctx.cov.update({"s3_traces": len(traces), "s3_events": len(evs), "s3_events_per_kind": per_kind,
                    "s3_refusals": refusals, "s3_max_pairs": max((len(e["bp"]) for e in evs if "bp" in e), default=0),
                    "s3_max_order_pk": max_order, "s3_bracket_characters_written": len(letters - {"."}),
                    "s3_array_kinds": sorted({e["kind"] for e in evs if "kind" in e}),
                    "s3_diag": _diag_counts(dgs)})
    if dgs:
        ctx.note(f"S3 diagnostics without verdict: {ctx.cov['s3_diag']}")
    if set(per_kind) != {"pk", "db", "fs", "parse"} or not all(refusals.get(op) for op in ("pk", "db", "parse")) \
            or len(letters - {"."}) < 60 or max_order < 2 or sorted(ARRAY_KINDS) != ctx.cov["s3_array_kinds"] \
            or not any(len(e["obs"][1]) >= 2 for e in evs if e["op"] in ("pk", "db")) \
            or not any(e["op"] == "fs" and e["ap"] == [] for e in evs):
        # (these numbers come from what the implementation returned: when it already disagrees with
        #  the specification, the disagreement is the verdict, not the missing coverage)
        if not ctx.violations:
            raise Vacuity(f"S3: kinds of events / refusals / bracket levels / several solutions missing: {per_kind}, "
                          f"refusals={refusals}, bracket characters={len(letters - {'.'})}, max order={max_order}")
    e = next((e for e in evs if e["op"] == "db" and len(e["obs"][1]) >= 2), None)
    if e:                                   # (the order of the solutions is not fixed: sorted for the record)
        ctx.sample({"s3_event": {"op": "db", "bp": e["bp"], "len": e["len"], "sc": e["sc"], "maxo": e["maxo"],
                                 "notations": sorted("".join(s) for s in e["obs"][1])}})
    ctx.sample({"s3_event": next((e for e in evs if e["op"] == "parse" and e["obs"][0] == "Rejected"), evs[0])})
    ctx.log(f"S3: {len(evs)} recorded calls in {len(traces)} histories judged by TLC: {per_kind}")

    # ---------------------------------------------------------------- S3b: the repository's own tests
    data = wait_repo()
    if not data or not data.get("events"):
        ctx.note("repository-test recorder produced no events (pytest could not start); stage skipped")
        ctx.cov["repo_test_events"] = 0
    else:
        revs = data["events"]
        rtraces = helpers.chunked(revs, 4)
        mms, dgs2 = _validate(ctx, rtraces, "S3-repo-tests")
        _report(ctx, rtraces, mms, "S3-repo-tests")
        ctx.cov["repo_test_events"] = len(revs)
        ctx.cov["repo_test_events_skipped"] = data.get("skipped", {})
        ctx.cov["repo_test_max_pairs"] = max((len(e["bp"]) for e in revs if "bp" in e), default=0)
        ctx.traces_validated += len(rtraces)
        ctx.evaluations += len(revs)
        ctx.nontrivial += sum(1 for e in revs if _ev_nontrivial(e))
        ctx.log(f"S3-repo-tests: {len(revs)} calls of the repository's tests judged by TLC")
        if len(revs) < 20 and not ctx.violations:
            raise Vacuity(f"only {len(revs)} calls recorded from the repository's tests")

    # ---------------------------------------------------------------- binding self-test
    def corrupt(e):
        if e["op"] == "pk" and e["obs"][0] == "ok" and e["obs"][1] and e["obs"][1][0]:
            e["obs"][1][0][0] = 1 if e["obs"][1][0][0] == 0 else 0
            return True
        if e["op"] in ("db", "fs") and e["obs"][0] == "ok" and any(c != "." for c in e["obs"][1][0]):
            s = e["obs"][1][0]
            k = next(i for i, c in enumerate(s) if c != ".")
            s[k] = "."                                   # a bracket lost
            return True
        if e["op"] == "parse":
            if e["obs"][0] == "ok" and e["obs"][1]:
                e["obs"][1][0][1] += 1                    # a pair closed one base later
            else:
                e["obs"] = ["Rejected" if e["obs"][0] == "ok" else "ok", []]
            return True
        return False
    changed = []
    for want in ("pk", "db", "fs", "parse", "same"):
        for e in evs:
            c = json.loads(json.dumps(e))
            if want == "same":
                if e["op"] == "pk" and e["obs"][0] == "ok":
                    c["same"] = False                     # as if the call had written to its argument
                    changed.append([c])
                    break
            elif e["op"] == want and corrupt(c):
                changed.append([c])
                break
    if len(changed) < 5 and ctx.violations:
        ctx.note("binding self-test skipped: the implementation already disagrees with the specification")
        return
    if len(changed) < 5:
        raise Vacuity(f"binding self-test: only {len(changed)} of 5 kinds of corruption could be applied")
    mm, _ = _validate(ctx, changed, "S3-selftest", selftest=True)
    hit = {m[1] for m in mm}
    if len(hit) < len(changed):
        raise Vacuity(f"binding self-test: {len(changed)} corrupted traces, {len(hit)} rejected")
    ctx.cov["selftest_corrupted_rejected"] = len(hit)


def _diag_counts(dgs):
    out = {}
    for d in dgs:
        out[d[3]] = out.get(d[3], 0) + 1
    return out


MANIFEST = {
    "technique": "TLA+ specification of pseudoknot orders (declarative recursive optimum and the code's regions / conflict graph / dynamic programme), of dot-bracket-letter rendering and of the bracket parser (specs/X02) model-checked by TLC; every enumerated set of base pairs and every enumerated notation executed against the real API and compared with TLC's values; recorded random histories of calls and the calls of the repository's own tests judged by TLC with the same operators",
    "level_text": "TLC checks on every set of disjoint base pairs on 8 positions (empty, nested, crossing, up to order 3; three presentations: sorted, reversed rows with reversed pairs and spread positions, permuted rows with gaps), on every perfect pairing of 10 positions, on every such set on 6 positions with every score vector over {1, 2} (thorough tier: 9-10 positions, 7 positions with scores over {1, 2, 3}, maximum order up to 2), each with max_pseudoknot_order None / 0 / 1, that the code-shaped algorithm (regions, conflict graph, dynamic programme with all optimal solutions, recursion over orders) returns exactly the declarative set of solutions (level k = a heaviest knot-free subset of what levels < k left), that no two pairs of a level cross, that a maximum order only cuts the unrestricted solutions off, that regions are stacks crossed entirely or not at all and the code's conflict graph is the crossing relation, that rendering writes one notation per solution and base_pairs_from_dot_bracket reads the pairs with an order back; and on every notation of <= 4 characters over {. ( ) [ ] A a x} and <= 6 characters over {. ( ) [ ]} that the stack parser equals the declarative pairing and rejects exactly the ill-formed notations. Every such case is executed against the real pseudoknots / dot_bracket / base_pairs_from_dot_bracket (five kinds of caller arrays, arrays compared with copies afterwards) and compared with TLC's values. Random histories (structures with helices of <= 9 pairs judged declaratively, 14-18 pairs judged by the code-shaped operator, ladders using all 30 bracket levels and the 31st, refusals, damaged notations over the whole alphabet, dot_bracket_from_structure over given atom pairs) and the calls of the repository's tests (20 pairs on 100 positions) are recorded and judged by TLC.",
    "level_note": "Bounded: exhaustive only inside the stated bounds; beyond 12 base pairs the expected solutions come from the code-shaped operator (equal to the declarative one on every bounded input). Scores are positive integers. base_pairs() itself (geometry) is not modelled: dot_bracket_from_structure is judged over given atom pairs. The claim of the documentation that the order is the minimum number of decompositions is not part of the statement and is not decided. Trusted: TLC, the TLA+ value parser, the projections, numpy.",
}
